#!/bin/bash
# usage: scripts/run_all.sh quick|thorough  — runs every registered check, prints one line each
cd "$(dirname "$0")/.."
tier=${1:-quick}
for p in $(python3 -c "import json;print(' '.join(c['property_id'] for c in json.load(open('MANIFEST.json'))['checks']))"); do
  s=$(date +%s)
  out=$(./check $p $tier 2>&1); rc=$?
  e=$(( $(date +%s) - s ))
  echo "$p rc=$rc ${e}s $(echo "$out" | grep -c '^KNOWN-FINDING') known | $(echo "$out" | grep -E '^(OK|VIOLATION|INCONCLUSIVE|SPURIOUS)' | head -3 | tr '\n' ' ' | cut -c1-220)"
done
