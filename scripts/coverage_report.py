#!/usr/bin/env python3
"""Which functions of the files the properties are anchored in are executed
symbolically by at least one registered check (from evidence/*.json
functions_encoded)? Informational; prints undriven functions per file."""
import json,glob,re,os,fnmatch,sys
enc=set()
for f in glob.glob('/verif/evidence/*.json'):
    enc.update(json.load(open(f)).get('coverage',{}).get('functions_encoded') or [])
P='github.com/sassoftware/relic/v8/'
names=set()
for x in enc:
    x=re.sub(r'\$\d+.*$','',x)
    m=re.match(r'\(\*?(.+)\)\.(\w+)$',x)
    if m:
        pkg,typ=m.group(1).rsplit('.',1); names.add((pkg.replace(P,''),typ+'.'+m.group(2))); continue
    if '.' in x:
        pkg,fn=x.rsplit('.',1); names.add((pkg.replace(P,''),fn))
anch=set()
for l in open('/verif/properties.jsonl'):
    anch.update(json.loads(l)['anchors']['files'])
tot=cov=0; rows=[]
for root,d,fs in os.walk('/repo'):
    if '/.git' in root: continue
    for f in fs:
        if not f.endswith('.go') or f.endswith('_test.go'): continue
        rel=os.path.relpath(os.path.join(root,f),'/repo')
        if not any(fnmatch.fnmatch(rel,a) for a in anch): continue
        pkg=os.path.dirname(rel); src=open('/repo/'+rel).read()
        fns=re.findall(r'^func (?:\((?:\w+ )?\*?(\w+)\) )?(\w+)\(',src,re.M)
        miss=[]
        for recv,n in fns:
            if n=='init': continue
            key=(pkg,(recv+'.'+n) if recv else n); tot+=1
            if key in names: cov+=1
            else: miss.append(key[1])
        rows.append((rel,len(fns),miss))
print(f"anchored functions driven: {cov}/{tot}")
for rel,n,miss in sorted(rows):
    if miss: print(f"{rel} {n-len(miss)}/{n}: {' '.join(miss)[:260]}")
