#!/bin/bash
# usage: try_seed.sh <PROP> <patch.diff> [tier]  — apply a seeded change to /repo, run the check, undo it
prop=$1; patch=$2; tier=${3:-quick}
cd /repo || exit 2
if [ -n "$(git status --porcelain)" ]; then echo "repo not clean"; exit 2; fi
git apply "$patch" || { echo "patch does not apply"; exit 2; }
cd /verif && cp -a evidence/$prop.json .evidence.$prop.keep 2>/dev/null
cd /verif && ./check $prop $tier 2>&1 | grep -E "^(VIOLATION|OK|INCONCLUSIVE|SPURIOUS|KNOWN|  harness|  native)" | cut -c1-400 | head -20
rc=${PIPESTATUS[0]}
git -C /repo checkout -- . && git -C /repo clean -fdq
[ -f /verif/.evidence.$prop.keep ] && mv /verif/.evidence.$prop.keep /verif/evidence/$prop.json
echo "check exit=$rc"
