#!/usr/bin/env python3
"""Regenerates /verif/MANIFEST.json from the table below (single source of truth)."""
import json, os, subprocess

CLAIMED = {
 # id: (level text, level note, design ref)
 "C12": ("Bounded symbolic execution (go/ssa -> SMT, z3) of binpatch Add/Dump/Load/Apply/applyRewrite on symbolic patch sets and file bytes: for every input inside the harness bounds the applied result equals the reference splice, Dump/Load round-trips, and malformed blobs are rejected without header-sized allocation. Counterexamples are replayed natively before being reported.",
         "Trusted: the SSA->SMT executor and its intrinsics (encoding/binary layout, in-memory os.File model, sort interpreted), z3 4.8.12. Bounds: <=3 patches, blobs <=2 bytes, files <=6 bytes, Load on <=40 arbitrary bytes.",
         "DESIGN.md §4 C12"),
 "C13": ("Bounded symbolic execution of the real output strategies (atomicfile.WriteFile / WriteInPlace+Commit, binpatch rewrite) over an in-memory model of the os package in which the crash index (process killed before FS step k) and per-call OS failures are symbolic choices: at every crash point and after every handled error the destination holds exactly OLD or exactly NEW, never disappears if it existed, the input is unchanged, and no *.tmp sibling remains after a return.",
         "Trusted: the engine's os model (rename atomic and replacing, unlink/close semantics, a failing unlink is not injected), z3. Bounds: payload <=3 bytes, <=2 patches, <=12 FS steps. Durability (fsync/power loss) is outside: the property is about process kill.",
         "DESIGN.md §4 C13"),
 "C11": ("Each byte-level parser entry point in reach (cabfile.Digest, authenticode.DigestPE, zipslicer.ReadWithDirectory/Read, binpatch.Load) is symbolically executed on an arbitrary byte buffer of bounded length; the implicit assertions no panic / no allocation above 4 MiB+16*len sized by input / loop bound proportional to input are decided by z3 on every feasible path.",
         "Trusted: engine + intrinsics, z3. Bounds: the input lengths and fixed layout fields listed per harness (bound_cuts in evidence list every symbolic length cut). Text, XML, ASN.1, PGP and tar/ar parsers are outside the claim.",
         "DESIGN.md §4 C11"),
 "C09": ("Block-buffered stream consumers are executed on symbolic data under every split of the stream into writes (split points symbolic): the PE checksum is independent of the write split for every field position (bounded length).",
         "Trusted: engine, z3. Bounds: <=10 (16 thorough) byte streams, 3 writes. Codecs, tar framing, HTTP retry are outside.",
         "DESIGN.md §4 C09"),
 "C05": ("Partial: relic's digest kernels are compared with reference computations written from the specification inside the harness (independent structure), on symbolic inputs: PE checksum whole-buffer reference for short files plus the one-word inductive step from an arbitrary reachable state (covers files of any length).",
         "Trusted: the reference in the harness (read from the PE/COFF specification), engine, z3. External verifiers (jarsigner, openssl, gpg, dpkg) cannot be executed symbolically: outside.",
         "DESIGN.md §4 C05"),
 "C18": ("Partial: the directory red-black tree insertion is executed from empty for every arrival order and relative order of k symbolic keys; BST order, root black, no red-red edge and equal black height are asserted on every path.",
         "Trusted: engine, z3. Bounds: k<=5 (7 thorough) keys. Sector allocation, whole-file validity at real sector sizes: not yet covered in this revision.",
         "DESIGN.md §4 C18"),
 "C04": ("The real config.GetKey, authmodel.Middleware + CertificateInfo.Allowed, server.serveSign and server.serveListKeys are executed over every configuration in the bound (keys present/absent, aliases to any name incl. self, other aliases and missing names, token present/absent, role sets, hide flags) x every caller role set x every requested name: a token is touched only if the resolved entry (one alias hop) shares a role with the caller, every other request is refused with an error before any token call, GetKey never panics, and /list_keys returns exactly the visible names the caller could sign with.",
         "Trusted: engine, opaque logging (zerolog), json.Marshal/Unmarshal modelled as identity on the carried value (real json natively), z3. Bounds: 2 keys / 1 role (quick), 3 keys / 2 roles (thorough). TLS, x509 verification, OPA, proxy headers: not yet covered in this revision.",
         "DESIGN.md §4 C04"),
 "C17": ("Differential harnesses against a reference written from APPNOTE.TXT: data-descriptor width inference for every (crc, csize, usize) x {16,24}-byte descriptor followed by arbitrary bytes; central-directory header build -> parse round trip and idempotence over fully symbolic fields (both sides of the 2^32-1 thresholds).",
         "Trusted: the APPNOTE reference in the harness, engine, z3. Known finding listed in known_findings.jsonl (24-byte descriptor with zero uncompressed size). Deflate, CRC values, real Go/Python readers as programs are outside.",
         "DESIGN.md §4 C17"),
 "C20": ("One inductive step of the real healthCheck from an arbitrary state satisfying status = max(0, N - consecutive failures) (N any threshold >= 1, <=3 tokens with arbitrary ping outcomes) re-establishes the invariant, which covers histories of any length; Healthy() is compared with its specification over symbolic (disabled, elapsed, interval, status) on a frozen symbolic clock; healthCheckLoop is executed with the Closed channel closed and a bounded number of timer events and must return (loop-bound = hang finding).",
         "Trusted: engine (select = symbolic choice among ready cases; timers fire at most a harness-given number of times; frozen clock), opaque logging/metrics, z3. Wall-clock timers, prometheus gauges, log text are outside.",
         "DESIGN.md §4 C20"),
 "C15": ("The real worker.doRetry + doOnce run against a harness http.RoundTripper whose per-attempt outcome (success, retryable / key-usage / permanent token error, HTTP 503 / 400, unexpected EOF, connection refused, timeout, malformed reply) and the caller's cancellation point are symbolic choices: attempts <= configured retries, success iff the last executed attempt succeeded, retry only after a transient failure, classification (KeyUsageError, ResponseError, sentinel errors) intact, transient failures retried to the limit. tokencache.Cache.GetKey from an arbitrary cache state: a pinned key id is never served from a cached key with another id, never writes the cache, expired entries are not served, mutex released.",
         "Trusted: engine (context model: a timeout eventually fires, no goroutines; http.Client.Do = Transport.RoundTrip with url.Error wrapping; json identity), z3. Bounds: retries <=3 (4 thorough; 0 = default 5). The worker-side handler (cookie check) lives in a cgo package (miekg/pkcs11) and is not loaded; real HTTP / process supervision are outside.",
         "DESIGN.md §4 C15"),
 "C01": ("Partial (structural round trip, CAB): for every well-formed single-part cabinet in the bound (unsigned or already signed, all non-layout bytes symbolic) and every signature blob, the real Digest -> MakePatch -> (patch applied per C12) -> Digest pipeline succeeds, the verifier-side parse finds exactly the embedded blob and recomputes the digest that was signed.",
         "Trusted: engine, hash modelled injective, patch application per C12. The CMS blob itself (crypto, ASN.1), every other format, key types and client/server transport are outside this revision's claim.",
         "DESIGN.md §4 C01"),
 "C02": ("Partial (CAB): two-copy query - a well-formed cabinet x and a copy y differing in one byte at any position outside the format's unsigned fields: y is rejected or its content digest differs (hash injective), so the constant-time comparison with the signed digest fails; the unsigned fields (Reserved1, CabNumber) are shown to be exactly the undigested ones.",
         "Trusted: engine, hash injectivity. CMS-level mutations (ASN.1), chain validation, other verifiers are outside.",
         "DESIGN.md §4 C02"),
 "C03": ("Partial (CAB + patch semantics): signing changes only signature metadata - folder data bytes are identical, folder offsets move by exactly the inserted header bytes, other header fields are carried over, only the padded signature is appended; byte-exact patch application itself is C12.",
         "Trusted: engine; the format model in the harness (MS cabinet header layout). Independent third-party readers as programs and other formats are outside.",
         "DESIGN.md §4 C03"),
 "C08": ("Partial (CAB): the content digest is identical for an unsigned cabinet, its signed form and its re-signed form (sign^2 with arbitrary blobs), the second signature replaces the first (no stacking, old bytes removed), payload equals the original.",
         "Trusted: engine, hash injectivity. n-fold histories beyond 2 follow by induction from digest invariance + replacement (argued, not run). Other formats outside this revision.",
         "DESIGN.md §4 C08"),
 "C06": ("The real server.serveSign -> signinit.Init -> mod.Sign -> signinit.PublishAudit -> audit.AppendTo -> rw.Write chain runs with a fake token/signer and the audit file on the engine's os model with symbolic OS failures: a signature body is written only after exactly one record was appended as one newline-terminated line (existing records kept) naming key, signature type, digest, file name and client address; if the sink or the signer fails no body is written.",
         "Trusted: engine os model (O_APPEND write = one step), json identity model (real json natively), opaque logging, z3. AMQP sink, concurrent writers (kernel O_APPEND atomicity, C14 territory) and the standalone command are outside this revision.",
         "DESIGN.md §4 C06"),
 "C07": ("Partial: x509tools.SameKey - the guard LoadTokenCertificates, LoadX509KeyPair, the PKCS#7 builder and xmldsig use to refuse a certificate that does not belong to the key - is decided over symbolic RSA (modulus, exponent) and ECDSA (x, y) keys, bare or wrapped in a crypto.Signer: true exactly for same algorithm and equal components, symmetric, false for unsupported key types.",
         "Trusted: big.Int modelled as a 64-bit stand-in, engine, z3. Certificate parsing (PEM/DER/PKCS#12), the builder call sites and signature-value-verifies-under-leaf (crypto) are outside this revision.",
         "DESIGN.md §4 C07"),
 "C19": ("Narrow partial: the r||s encoding lib/xmldsig emits for ECDSA (EcdsaSignature.PackFixed) is 2*ceil(bits/8) bytes for every r, s that fit the curve size, big-endian r then s, and UnpackEcdsaSignature inverts it.",
         "Trusted: big.Int as 64-bit stand-in (curve sizes 1..8 bytes stand for 32/48/66), engine, z3. Canonicalisation proper (etree DOM, W3C exc-c14n) is outside: external reference program, string/DOM code.",
         "DESIGN.md §4 C19"),
 "C10": ("Partial (acceptance conjuncts): the real TimeStampReq.ParseResponse / SanityCheckToken / unpackTokenInfo run with the ASN.1 decoder, the CMS signature check and the content extraction replaced by nondeterministic stubs (arbitrary results driven by symbolic inputs): a reply is accepted only if it decodes without trailing bytes, its status is granted / grantedWithMods, the token signature verifies, the token info decodes, the nonce equals the request's and the imprint equals the request's; a rejected reply yields no token; no panic on any stub behaviour.",
         "Trusted: the stubs' contracts (asn1.Unmarshal, SignedData.Verify, ContentInfo.Bytes return arbitrary values of their types), big.Int 64-bit stand-in, engine, z3. No native replay exists for stubbed harnesses: counterexamples are re-executed concretely in the interpreter. Failover order, legacy Microsoft replies, verification-side time handling, X.509 validity: not yet covered in this revision.",
         "DESIGN.md §4 C10"),
}

NOT_APPLICABLE = {
 "C14": "quantifies over goroutine interleavings; the sequential SSA executor has no concurrent memory/scheduler model and nothing installed provides one for Go (DESIGN.md §5)",
 "C16": "decided entirely inside encoding/asn1 reflection (struct tags, RawContent capture, SET sorting); cannot be encoded within reach, and stubbing asn1 removes what the property is about (DESIGN.md §5)",
}

PENDING_REASON = "no registered check yet in this revision of /verif (engine built; harness for this property not yet run clean) — see DESIGN.md §4 for the plan"

def main():
    props = [json.loads(l)["id"] for l in open("/verif/properties.jsonl")]
    checks = []
    for pid in props:
        if pid not in CLAIMED: continue
        text, note, ref = CLAIMED[pid]
        checks.append({
            "property_id": pid,
            "quick_cmd": f"./check {pid} quick",
            "thorough_cmd": f"./check {pid} thorough",
            "evidence_file": f"/verif/evidence/{pid}.json",
            "replay_cmd_template": "./check replay {path}",
            "engine": "gosmt",
            "level_claimed": {"category": "model_checking", "text": text, "design_ref": ref},
            "level_note": note,
            "technique": "bounded symbolic execution of the real Go SSA (go/ssa) into SMT-LIB bit-vectors, decided by z3; sat models replayed natively",
        })
    na = []
    for pid in props:
        if pid in CLAIMED: continue
        na.append({"property_id": pid, "reason": NOT_APPLICABLE.get(pid, PENDING_REASON)})
    try:
        hooks = subprocess.check_output(["git","-C","/repo","log","--format=%H","--grep=^verif-hook:"]).decode().split()
    except Exception:
        hooks = []
    m = {
        "version": 1,
        "setup_cmd": "cd /verif/engine && GOFLAGS=-mod=vendor GOPROXY=off GOSUMDB=off GOTOOLCHAIN=local go build -o ../bin/gosmt ./cmd/gosmt",
        "hooks": {
            "guard": "verif",
            "enable": "harness files are injected as overlays (go/packages Overlay, go test -overlay) with -tags verif; no file under /repo carries the tag",
            "baseline_off_cmd": "/verif/scripts/baseline_off.sh",
            "source_commits": hooks,
            "add_only": True,
        },
        "engines": [{"name": "gosmt", "path": "/verif/engine", "serves_properties": sorted(CLAIMED), "kind_free_text": "bounded symbolic executor for Go SSA (x/tools v0.29.0 go/ssa) emitting SMT-LIB2 bit-vector queries to an incremental z3; replay of models through go test overlays"}],
        "checks": checks,
        "not_applicable": na,
        "notes": "All checks: ./check <id> <quick|thorough>. exit 0 = held within bounds; exit 1 + VIOLATION line = solver counterexample reproduced natively; exit 3 = inconclusive (unsupported construct / unknown / unwinding bound), never reported as success.",
    }
    json.dump(m, open("/verif/MANIFEST.json","w"), indent=1)
    print("wrote MANIFEST.json:", len(checks), "checks,", len(na), "not_applicable")

main()
