#!/usr/bin/env python3
"""Regenerates /verif/MANIFEST.json from the table below (single source of truth)."""
import json, os, subprocess

CLAIMED = {
 # id: (level text, level note, design ref)
 "C12": ("Bounded symbolic execution (go/ssa -> SMT, z3) of binpatch Add/Dump/Load/Apply/applyRewrite on symbolic patch sets and file bytes: for every input inside the harness bounds the applied result equals the reference splice, Dump/Load round-trips, and malformed blobs are rejected without header-sized allocation. Counterexamples are replayed natively before being reported.",
         "Trusted: the SSA->SMT executor and its intrinsics (encoding/binary layout, in-memory os.File model, sort interpreted), z3. Bounds: <=3 patches, blobs <=2 bytes, files <=6 bytes, Load on <=40 arbitrary bytes.",
         "DESIGN.md §4 C12"),
 "C13": ("Bounded symbolic execution of the real output strategies (atomicfile.WriteFile / WriteInPlace+Commit, binpatch rewrite) over an in-memory model of the os package in which the crash index (process killed before FS step k) and per-call OS failures are symbolic choices: at every crash point and after every handled error the destination holds exactly OLD or exactly NEW, never disappears if it existed, the input is unchanged, and no *.tmp sibling remains after a return.",
         "Trusted: the engine's os model (rename atomic and replacing, unlink/close semantics, a failing unlink is not injected), z3. Bounds: payload <=3 bytes, <=2 patches, <=12 FS steps. Durability (fsync/power loss) is outside: the property is about process kill.",
         "DESIGN.md §4 C13"),
 "C11": ("Each byte-level parser entry point in reach - cabfile.Digest, authenticode.DigestPE (short prefixes, full header, 1-2 sections, odd optional-header sizes), the PE certificate-table walk, zipslicer.ReadWithDirectory / Read, binpatch.Load, csblob.parseSuper / parseCodeDirectory, dmg.Open, signxap.removeSignature, the compound-file reader (comdoc.ReadFile / ListDir / ReadStream: header, MSAT chain, SAT, short SAT, directory chain and tree, stream chains) - is symbolically executed on an arbitrary byte buffer of bounded length; no panic, no allocation above 4 MiB+16*len sized by input, loops bounded, decided by z3 on every feasible path.",
         "Trusted: engine + intrinsics, z3. Bounds: input lengths and the layout fields fixed per harness (documented there; every symbolic length cut is listed in evidence bound_cuts). Text, XML, ASN.1, PGP, tar/ar parsers, reflection-based APK decoder: outside.",
         "DESIGN.md §4 C11"),
 "C09": ("Stream consumers under every split of the stream into reads/writes (split points and read sizes symbolic): PE checksum independent of write split for every field position; PE section hasher (image digest and page-hash table) independent of short reads (page size scaled through the hasher's own buffers); APK merkle hasher chunk digests independent of write split and equal to the spec chunking (block constant scaled via overlay); compound-file stream reader delivers the chain's bytes in order for every sequence of destination sizes; the zip upload transform (ZipToTar, real archive/tar) is repeatable and, read back through ReadZipTar under symbolic read sizes, yields the member list, offsets and contents of the file itself.",
         "Trusted: engine, hash injectivity, z3. Bounds: streams of 2-3 blocks, 3 writes / arbitrary read sizes. Codecs (gzip/snappy), HTTP retry/failover are outside.",
         "DESIGN.md §4 C09"),
 "C05": ("Partial: relic's digest kernels against reference computations written from the specifications inside the harness: PE checksum (whole-buffer reference for short files + one-word inductive step from an arbitrary reachable state: any length), Authenticode image hash (file minus CheckSum, minus directory entry 4, minus certificate table, zero padded to 8), APK v2 chunk digests (0xa5 || len32 || chunk per block, block constant scaled 1 MiB -> 4 through a source overlay).",
         "Trusted: the references (read from the PE/COFF, Authenticode and APK v2 documents), engine, z3, hash injectivity. External verifiers (jarsigner, openssl, gpg, dpkg) cannot be executed symbolically: outside.",
         "DESIGN.md §4 C05"),
 "C18": ("Partial: directory red-black insertion from empty for every arrival / relative order of k symbolic keys (BST order, root black, no red-red, equal black height); sector allocation as one step from an arbitrary table state (returned sectors distinct, free before, table grows by whole FREE blocks, in-use entries untouched); stream insertion (chain of ceil(len/sector) free sectors linked in order and terminated by ENDOFCHAIN, content stored in chain order, no in-use sector byte or table entry changes, sectors not re-issued); chain release.",
         "Trusted: engine os model, z3. Bounds: k<=5 (7) keys, tables of <=8 entries, scaled 16-byte sectors. Whole-file validity at real sector sizes, DIFAT growth, tar-vs-direct MSI digest: not covered.",
         "DESIGN.md §4 C18"),
 "C04": ("The real config.GetKey, authmodel.Middleware + CertificateInfo.Allowed, server.serveSign / serveGetKey / serveListKeys and realip.trustedClient / Middleware / PeerCertificates are executed over every configuration in the bound (keys present/absent, aliases to any name incl. self, other aliases, missing names; token present/absent; role sets; hide flags) x caller role sets x requested names, and over every combination of peer address and X-Forwarded-For / Ssl-Client-Cert headers in the bound: a token is touched (signing or certificate disclosure) only for a caller sharing a role with the resolved entry (one alias hop), everything else is refused before any token call, GetKey never panics, /list_keys returns exactly the visible signable names, and a peer outside the trusted-proxy list is recorded as itself with its own TLS certificates whatever headers it sends.",
         "Trusted: engine, opaque logging, json identity model (real json natively), z3. Bounds: 2 keys / 1 role (quick), 3 keys or 2 roles (thorough); hop strings from a fixed set of addresses. TLS handshake, x509 verification in ClientConfig.Match, OPA policy authenticator: outside.",
         "DESIGN.md §4 C04"),
 "C17": ("Differential harnesses against references written from APPNOTE.TXT: data-descriptor width for every (crc, csize, usize) x {16,24}-byte descriptor followed by arbitrary bytes; central-directory header build -> parse round trip and idempotence over fully symbolic fields (both sides of 2^32-1); ZIP64 extended-information record with every combination of escaped fields; re-emission of an unmodified directory equals the original bytes; end-of-directory location with an archive comment; an archive zipslicer wrote itself (NewFile members with/without descriptors, empty and non-empty, WriteDirectory) is read back with sizes that add up to the next member and can be re-indexed a second time.",
         "Trusted: the APPNOTE references in the harnesses, engine, z3. Known findings listed in known_findings.jsonl (24-byte descriptor of an empty member followed by a gap; archive comment). Deflate, CRC values, real Go/Python readers as programs are outside.",
         "DESIGN.md §4 C17"),
 "C20": ("One inductive step of the real healthCheck from an arbitrary state satisfying status = max(0, N - consecutive failures) (N any threshold >= 1, <=3 tokens with arbitrary ping outcomes) re-establishes the invariant, which covers histories of any length; Healthy() is compared with its specification over symbolic (disabled, elapsed, interval, status) on a frozen symbolic clock; healthCheckLoop is executed with the Closed channel closed and a bounded number of timer events and must return (loop-bound = hang finding).",
         "Trusted: engine (select = symbolic choice among ready cases; timers fire at most a harness-given number of times; frozen clock), opaque logging/metrics, z3. Wall-clock timers, prometheus gauges, log text are outside.",
         "DESIGN.md §4 C20"),
 "C15": ("The real worker.doRetry + doOnce run against a harness http.RoundTripper whose per-attempt outcome (success, retryable / key-usage / permanent token error, HTTP 503 / 400, unexpected EOF, connection refused, timeout, malformed reply) and the caller's cancellation point are symbolic choices: attempts <= configured retries, success iff the last executed attempt succeeded, retry only after a transient failure, classification (KeyUsageError, ResponseError, sentinel errors) intact, transient failures retried to the limit. tokencache.Cache.GetKey from an arbitrary cache state: a pinned key id is never served from a cached key with another id, never writes the cache, expired entries are not served, mutex released. The worker process' HTTP handler (cmdline/workercmd): any request whose Auth-Cookie differs from the per-process secret gets 403 with the token untouched; with the secret, a pinned key id and the request digest reach the backend unchanged and key-usage / not-implemented / other failures come back with the right retry classification.",
         "Trusted: engine (context model: a timeout eventually fires, no goroutines; http.Client.Do = Transport.RoundTrip with url.Error wrapping; json identity), z3. Bounds: retries <=3 (4 thorough; 0 = default 5). Secrets of 2 bytes, sent cookies of 0-3 bytes. Real HTTP / process supervision, the pkcs11 fatal-error table (cgo constants) are outside.",
         "DESIGN.md §4 C15"),
 "C01": ("Partial (structural round trip, PE and CAB): for every well-formed PE32 image (one section, optional header gap, overlay, optionally already signed) and cabinet (unsigned, signed, or with a pre-reserved signature area) in the bound, with all non-layout bytes symbolic, and every signature blob: Digest -> MakePatch -> patch applied (C12 semantics) -> Digest succeeds; the verifier-side view (findSignatures / certificate-table walk up to the CMS check, cabinet parse) finds exactly the embedded blob and recomputes the digest that was signed.",
         "Trusted: engine, hash modelled injective, patch application per C12; the CMS check is a stub in the verifier-walk harness (no native replay there). The CMS blob itself (crypto, ASN.1), the other formats, key types and client/server transport are outside this revision's claim.",
         "DESIGN.md §4 C01"),
 "C02": ("Partial (PE, CAB, APK data flow): two-copy queries - a well-formed signed-shaped PE / cabinet and a copy differing in one byte of the protected set (sampled positions in every protected region, incl. the gap between headers and first section): the copy is rejected or its digest differs (hash injective); bytes appended after a PE certificate table are rejected; the cabinet's unsigned fields are exactly the undigested ones. APK: the real verify() is shown NOT to hand the archive to the v2 signer check (content digests never compared) - recorded known finding.",
         "Trusted: engine, hash injectivity; APK harness stubs parsing and crypto (decides data flow only). CMS-level mutations (ASN.1), chain validation, XML/PGP verifiers are outside.",
         "DESIGN.md §4 C02"),
 "C03": ("Partial (PE, CAB, ZIP re-index + patch semantics): signing changes only signature metadata - PE headers, section bodies, overlay and existing alignment bytes are byte-identical, only the directory entry and the (8-aligned) certificate table change; cabinet folder data is identical and folder offsets move by exactly the header growth/shrink (+24 / 0 / -padding); re-indexing a ZIP keeps every kept member's bytes at the offset the new directory records, and archives with leading data or gaps are refused. Byte-exact patch application itself is C12.",
         "Trusted: engine; the format models in the harnesses (PE/COFF, MS cabinet, APPNOTE). Independent third-party readers as programs, CFB payload (C18 covers allocation), text formats are outside.",
         "DESIGN.md §4 C03"),
 "C08": ("Partial (PE, CAB, XAP): the content digest is identical for an unsigned file, its signed form and its re-signed form (sign^2 with arbitrary blobs of differing padded sizes), the second signature replaces the first (table / signature bytes and sizes in the headers), payload equals the original; for PE the directory entry follows the table, for CAB all three layouts (unsigned, signed, pre-reserved). XAP: DigestXapTar on the directory-first tar stream (real archive/tar) gives the unsigned file's digest for a signed file and a patch replacing exactly the old signature; that the client-side transform refuses a signed XAP is a recorded known finding.",
         "Trusted: engine, hash injectivity. n-fold histories beyond 2 follow by induction from digest invariance + replacement (argued, not run). Other formats outside this revision.",
         "DESIGN.md §4 C08"),
 "C06": ("The real server.serveSign -> signinit.Init -> mod.Sign -> signinit.PublishAudit -> audit.AppendTo -> rw.Write chain runs with a fake token/signer and the audit file on the engine's os model with symbolic OS failures: a signature body is written only after exactly one record was appended as one newline-terminated line (existing records kept) naming key, signature type, digest, file name and client address; if the sink or the signer fails no body is written.",
         "Trusted: engine os model (O_APPEND write = one step), json identity model (real json natively), opaque logging, z3. AMQP sink, concurrent writers (kernel O_APPEND atomicity, C14 territory) and the standalone command are outside this revision.",
         "DESIGN.md §4 C06"),
 "C07": ("Partial: the three guards and their predicate. certloader.LoadTokenCertificates (X.509 from file or blob, PGP) returns a bundle only when the leaf's / PGP primary key's public key is the token key's, with the chain beginning with that leaf; pkcs7.SignatureBuilder.Sign and xmldsig.Sign emit nothing and do not use the key when the first certificate belongs to another key, and what they emit lists / names that leaf and carries exactly the key's output over the digest they were given (canonical SignedInfo for XML). x509tools.SameKey - the guard LoadTokenCertificates, LoadX509KeyPair, the PKCS#7 builder and xmldsig use to refuse a certificate that does not belong to the key - is decided over symbolic RSA (modulus, exponent) and ECDSA (x, y) keys, bare or wrapped in a crypto.Signer: true exactly for same algorithm and equal components, symmetric, false for unsupported key types.",
         "Trusted: big.Int modelled as a 64-bit stand-in, engine, z3. PEM/DER/OpenPGP parsers are stubs returning a certificate with an arbitrary key (LoadTokenCertificates harness has no native replay); PKCS#12, LoadX509KeyPair, signers that bypass the builder (APK v2, XAR, cosign) and signature-value-verifies-under-leaf (crypto) are outside.",
         "DESIGN.md §4 C07"),
 "C19": ("Partial: xmldsig.SerializeCanonical on a manifest-shaped subtree (default + prefixed namespace declared on the element or an ancestor, attributes, text; attribute values and text symbolic over every character class canonical XML treats specially) equals the exclusive canonical form written out from the W3C rules, independently of attribute order, comments, processing instructions, an unused namespace declaration and the ancestor carrying the declaration (real beevik/etree serialiser executed); attributes in two namespaces sort by namespace URI. The r||s encoding lib/xmldsig emits for ECDSA (EcdsaSignature.PackFixed) is 2*ceil(bits/8) bytes for every r, s that fit the curve size, big-endian r then s, and UnpackEcdsaSignature inverts it.",
         "Trusted: big.Int as 64-bit stand-in (curve sizes 1..8 bytes stand for 32/48/66), engine, z3. Canonicalisation is checked for the document shapes in the harness (one nesting level, 1-2 symbolic characters per value), not for arbitrary XML; the XML parser (input side), InclusiveNamespaces, xml:* attribute inheritance and the public-key-token / publisher fields are outside.",
         "DESIGN.md §4 C19"),
 "C10": ("Partial: ParseResponse / SanityCheckToken / unpackTokenInfo with the ASN.1 decoder, CMS signature check and content extraction as nondeterministic stubs: accepted only if decoded without trailing bytes, status granted(WithMods), token signature verifies, token info decodes, nonce and imprint equal the request's; no panic on any stub behaviour. tsClient.Timestamp with the per-URL exchange stubbed: authorities tried in configured order (URLs / MsURLs / named pool), first token wins and nothing is contacted afterwards, all failing => error (never nil,nil), cancelled caller stops the scan. Verification side: pkcs9.Verify accepts a token only with exactly one signer, an imprint that is the digest of exactly this signature value (injective hash model) and a verifying token signature, and reports the token's time; TimestampedSignature.VerifyChain checks the time-stamp chain first (time-stamping usage), fails if it fails, and judges the signer chain at exactly the attested time (zero = now without a time-stamp), over symbolic validity windows.",
         "Trusted: stub contracts, big.Int 64-bit stand-in, engine, z3. Stubbed harnesses have no native replay: counterexamples are re-executed concretely in the interpreter. Legacy Microsoft reply parsing, x509 chain building itself (stub implements the validity window only), cache and rate limiter: not covered.",
         "DESIGN.md §4 C10"),
}

NOT_APPLICABLE = {
 "C14": "quantifies over goroutine interleavings; the sequential SSA executor has no concurrent memory/scheduler model and nothing installed provides one for Go (DESIGN.md §5)",
 "C16": "decided entirely inside encoding/asn1 reflection (struct tags, RawContent capture, SET sorting); cannot be encoded within reach, and stubbing asn1 removes what the property is about (DESIGN.md §5)",
}

PENDING_REASON = "no registered check yet in this revision of /verif (engine built; harness for this property not yet run clean) — see DESIGN.md §4 for the plan"

def main():
    props = [json.loads(l)["id"] for l in open("/verif/properties.jsonl")]
    checks = []
    for pid in props:
        if pid not in CLAIMED: continue
        text, note, ref = CLAIMED[pid]
        checks.append({
            "property_id": pid,
            "quick_cmd": f"./check {pid} quick",
            "thorough_cmd": f"./check {pid} thorough",
            "evidence_file": f"/verif/evidence/{pid}.json",
            "replay_cmd_template": "./check replay {path}",
            "engine": "gosmt",
            "level_claimed": {"category": "model_checking", "text": text, "design_ref": ref},
            "level_note": note,
            "technique": "bounded symbolic execution of the real Go SSA (go/ssa) into SMT-LIB bit-vectors, decided by z3 (5.1.0 primary; 4.8.12 and cvc5 retry unknowns); sat models replayed concretely and natively before being reported",
        })
    na = []
    for pid in props:
        if pid in CLAIMED: continue
        na.append({"property_id": pid, "reason": NOT_APPLICABLE.get(pid, PENDING_REASON)})
    try:
        hooks = subprocess.check_output(["git","-C","/repo","log","--format=%H","--grep=^verif-hook:"]).decode().split()
    except Exception:
        hooks = []
    m = {
        "version": 1,
        "setup_cmd": "cd /verif/engine && GOFLAGS=-mod=vendor GOPROXY=off GOSUMDB=off GOTOOLCHAIN=local go build -o ../bin/gosmt ./cmd/gosmt",
        "hooks": {
            "guard": "verif",
            "enable": "harness files are injected as overlays (go/packages Overlay, go test -overlay) with -tags verif; no file under /repo carries the tag",
            "baseline_off_cmd": "/verif/scripts/baseline_off.sh",
            "source_commits": hooks,
            "add_only": True,
        },
        "engines": [{"name": "gosmt", "path": "/verif/engine", "serves_properties": sorted(CLAIMED), "kind_free_text": "bounded symbolic executor for Go SSA (x/tools v0.29.0 go/ssa) emitting SMT-LIB2 bit-vector queries to incremental z3 5.1.0 processes (z3 4.8.12 / cvc5 as retry portfolio); replay of models through go test overlays"}],
        "checks": checks,
        "not_applicable": na,
        "notes": "All checks: ./check <id> <quick|thorough>. exit 0 = held within bounds; exit 1 + VIOLATION line = solver counterexample reproduced natively; exit 3 = inconclusive (unsupported construct / unknown / unwinding bound), never reported as success.",
    }
    json.dump(m, open("/verif/MANIFEST.json","w"), indent=1)
    print("wrote MANIFEST.json:", len(checks), "checks,", len(na), "not_applicable")

main()
