#!/bin/bash
# Runs the repository's pinned test suite with the verif guard OFF (no -tags verif).
export GOFLAGS=-mod=mod GOPROXY=off GOSUMDB=off GOTOOLCHAIN=local
cd /repo && go test -vet=off -count=1 -timeout 25m ./... 2>&1 | grep -v "no test files" 
exit ${PIPESTATUS[0]}
