#!/bin/bash
# usage: verify_seed.sh <worktree> <demo_file_in_seed_dir> <pkg_dir_rel> <run_regex>
# Confirms: builds; demo FAILS with the change; demo PASSES without it; the pinned suite passes with the change.
wt=$1; demo=$2; pkg=$3; run=$4
export GOFLAGS=-mod=mod GOPROXY=off GOSUMDB=off GOTOOLCHAIN=local
cd $wt || exit 2
git checkout -q -- . ; git clean -fdq -e seed
git apply seed/patch.diff || { echo "APPLY FAILED"; exit 2; }
go build ./... || { echo "BUILD FAILED"; exit 2; }
# pinned suite with the change, demo not present
if go test -vet=off -count=1 $(go list ./... 2>/dev/null | grep -v "/seed$") >/tmp/vs_suite_$$.log 2>&1; then echo "suite-with-change: PASS"; else echo "suite-with-change: FAIL"; grep -E "^(FAIL|---)" /tmp/vs_suite_$$.log | head; fi
cp seed/$demo $pkg/zz_seed_demo_test.go
if go test -vet=off -count=1 -run "$run" ./$pkg >/tmp/vs_with.log 2>&1; then echo "demo-with-change: PASS (unexpected)"; else echo "demo-with-change: FAIL (expected)"; fi
git apply -R seed/patch.diff
if go test -vet=off -count=1 -run "$run" ./$pkg >/tmp/vs_without.log 2>&1; then echo "demo-without-change: PASS (expected)"; else echo "demo-without-change: FAIL (unexpected)"; tail -5 /tmp/vs_without.log; fi
rm -f $pkg/zz_seed_demo_test.go
git checkout -q -- .
