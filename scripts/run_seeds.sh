#!/bin/bash
# usage: scripts/run_seeds.sh [tier] — applies every seeded change in turn to /repo, runs the
# property's check, expects exit 1 with a VIOLATION line, reverts. /repo must be clean.
cd "$(dirname "$0")/.."
tier=${1:-quick}
if [ -n "$(git -C /repo status --porcelain)" ]; then echo "/repo not clean"; exit 2; fi
# evidence/ describes runs on the UNCHANGED tree: keep it out of the way while seeded trees are checked
rm -rf .evidence.keep && cp -a evidence .evidence.keep
trap 'rm -rf evidence && mv .evidence.keep evidence' EXIT
for d in seeded/S*/; do
  id=$(basename $d); prop=${id#*-}
  if ! git -C /repo apply --check "$PWD/$d/patch.diff" 2>/dev/null; then echo "$id DOES-NOT-APPLY"; continue; fi
  git -C /repo apply "$PWD/$d/patch.diff"
  s=$(date +%s)
  out=$(./check $prop $tier 2>&1); rc=$?
  e=$(( $(date +%s) - s ))
  git -C /repo checkout -- . ; git -C /repo clean -fdq
  echo "$id rc=$rc ${e}s $(echo "$out" | grep -c '^VIOLATION') violation-lines | $(echo "$out" | grep -E '^(VIOLATION|INCONCLUSIVE)' | head -2 | tr '\n' ' ' | cut -c1-200)"
done
