#!/bin/bash
# usage: scripts/probe_thorough.sh [timeout-seconds] — runs every harness alone in the thorough tier, one line each
cd "$(dirname "$0")/.."
t=${1:-300}
./bin/gosmt list | grep -v WARNING | while read prop pkg fn; do
  s=$(date +%s)
  out=$(VERIF_TIER=thorough timeout $t ./bin/gosmt run "$fn" 2>&1 | grep -v WARNING | grep -A30 "^== $fn:" | cut -c1-220)
  e=$(( $(date +%s) - s ))
  echo "$prop $fn ${e}s $(echo "$out" | head -1 | sed 's/.*paths=/paths=/' | cut -c1-150)"
  echo "$out" | grep "UNSUPPORTED\|UNWIND\|VIOL\|cut x" | head -5
done
