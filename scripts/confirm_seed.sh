#!/bin/bash
# usage: confirm_seed.sh <worktree> <dir-with-patch.diff,demo_test.go>
# Confirms a sub-agent's seeded change in its scratch worktree: applies cleanly, builds, existing suite passes,
# demo fails with the change and passes without it.
export GOFLAGS=-mod=mod GOPROXY=off GOSUMDB=off GOTOOLCHAIN=local
wt=$1; d=$2
cd $wt || exit 2
git checkout -q -- . ; 
path=$(head -1 $d/demo_test.go | sed -n 's|^// path: *||p')
[ -z "$path" ] && { echo "no path line"; exit 2; }
pkg=./$(dirname $path)
cp $d/demo_test.go $path
base=$(go test -vet=off -count=1 $pkg 2>&1 | tail -1)
git apply $d/patch.diff || { echo "patch does not apply"; rm -f $path; exit 2; }
build=$(go build ./... 2>&1 | tail -1)
with=$(go test -vet=off -count=1 $pkg 2>&1 | tail -1)
rm -f $path
suite=$(go test -vet=off -count=1 $(go list ./... | grep -v /out) 2>&1 | grep -v "no test files" | grep -vc "^ok")
git checkout -q -- .
echo "clean: $base | build: ${build:-ok} | with-change: $with | suite non-ok lines: $suite"
