#!/usr/bin/env python3
"""Debug aid: scans solver transcripts written with GOSMT_SMTLOG=<dir> for a use of a
define-fun name outside the push/pop scope it was defined in."""
import re, glob, sys
d = sys.argv[1] if len(sys.argv) > 1 else '/verif/.smtlog'
for f in sorted(glob.glob(d + '/*.smt2')):
    scopes = [set()]
    n = 0
    for ln, line in enumerate(open(f), 1):
        line = line.strip()
        if line.startswith('(push'):
            scopes.append(set()); continue
        if line.startswith('(pop'):
            scopes.pop(); continue
        m = re.match(r'\(define-fun (t\d+) ', line)
        used = set(re.findall(r'\bt\d+\b', line))
        if m:
            used.discard(m.group(1))
        defined = set().union(*scopes)
        bad = used - defined
        if bad:
            print(f, 'line', ln, 'depth', len(scopes) - 1, 'undefined', sorted(bad)[:3], line[:200]); n += 1
            if n > 1:
                break
        if m:
            scopes[-1].add(m.group(1))
