//go:build verif

package vsix

import (
	"crypto"
	"strings"

	"github.com/beevik/etree"

	"github.com/sassoftware/relic/v8/lib/certloader"
	"github.com/sassoftware/relic/v8/lib/signappx"
	"github.com/sassoftware/relic/v8/lib/xmldsig"
	"github.com/sassoftware/relic/v8/signers"
)

// H11.vsix-refs / H05.vsix-refs: the reference list of a VSIX signature: one
// Reference per digested member, its URI carrying the member's content type.
// The XML signing step proper is a stub (it hands back the element it is
// given inside a Signature); building the list is the real code. For a
// member name of 1..4 characters over letters, dot and slash - with and
// without an extension, known to [Content_Types].xml or not: no panic, and
// the reference is "/name?ContentType=<a non-empty type>".
func VH_C11_VsixReferenceList() {
	// vh:stubbed
	const alphabet = "ab./"
	raw := vhBytes("member-name", vhConcretize(vhInt("name-len", 1, 4), 5))
	nb := make([]byte, len(raw))
	for i, c := range raw {
		nb[i] = alphabet[int(c)%len(alphabet)]
	}
	name := string(nb)
	var signed *etree.Element
	vhStub("github.com/sassoftware/relic/v8/lib/xmldsig.SignEnveloping", func(obj *etree.Element, hash crypto.Hash, key crypto.Signer, certs interface{}, opts xmldsig.SignOptions) (*etree.Element, error) {
		signed = obj
		sig := etree.NewElement("Signature")
		sig.AddChild(obj)
		return sig, nil
	})
	ct := signappx.NewContentTypes()
	if vhBool("extension-b-is-declared") {
		ct.ByExt["b"] = "application/x-b"
	}
	m := &mangler{digests: map[string][]byte{name: []byte("digest")}, ctypes: ct, hash: crypto.SHA256}
	out, err := m.makeSignature(&certloader.Certificate{}, signers.SignOpts{Hash: crypto.SHA256}, true)
	vhAssert(err == nil && len(out) > 0 && signed != nil, "signature-document-written")
	refs := signed.FindElements("Manifest/Reference")
	vhAssert(len(refs) == 1, "one-reference-per-member")
	uri := refs[0].SelectAttrValue("URI", "")
	vhAssert(strings.HasPrefix(uri, "/"+name+"?ContentType=") && len(uri) > len(name)+14, "reference-names-the-member-and-a-content-type")
	vhReach("listed") // vh:require listed
}

func VH_C05_VsixReferenceList() { VH_C11_VsixReferenceList() }
