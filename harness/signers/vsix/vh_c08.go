//go:build verif

package vsix

import "strings"

// H08.vsix-keep: which members of a VSIX survive a (re-)signing round. The
// package's own content - in any directory, with any extension other than the
// OPC signature ones - is kept and digested; everything that belongs to an
// existing signature (the digital-signature part tree, relationship parts,
// the origin / xml-signature parts wherever they sit, the root relationship
// directory entry and the content-types part, which are regenerated) is
// dropped, so a second signing starts from the same set as the first.
func VH_C08_VsixKeepFile() {
	dirs := []string{"", "lib/", "package/services/digital-signature/", "package/services/digital-signature/xml-signature/", "_rels/", "package/services/"}
	bases := []string{"extension.vsixmanifest", "a.dll", ".rels", "x.rels", "sig.psdsxs", "origin.psdor", "[Content_Types].xml", "cert.cer", "readme.psdor.txt", ""}
	dir := dirs[vhConcretize(vhInt("directory", 0, len(dirs)-1), 8)]
	base := bases[vhConcretize(vhInt("name", 0, len(bases)-1), 16)]
	name := dir + base
	if name == "" {
		return
	}
	got := keepFile(name)
	signaturePart := strings.HasPrefix(name, "package/services/digital-signature/") ||
		strings.HasSuffix(name, ".rels") || strings.HasSuffix(name, ".psdsxs") || strings.HasSuffix(name, ".psdor") ||
		name == "_rels/" || name == "[Content_Types].xml"
	vhAssert(got == !signaturePart, "kept-iff-not-part-of-a-signature")
	vhReach("decided") // vh:require decided
}

// H08.vsix-rels: relationship identifiers added for a signature are unique
// within the part, deterministic for (target, type), and Find returns the
// cleaned target of the relationship of the requested type.
func VH_C08_VsixRelationships() {
	var rels oxfRelationships
	n := vhConcretize(vhInt("relationships", 1, 3), 4)
	targets := []string{"package/services/digital-signature/origin.psdor", "a/b.cer", "a/b.cer"}
	types := []string{sigOriginType, certType, certType}
	for i := 0; i < n; i++ {
		rels.Append(targets[i], types[i])
	}
	vhAssert(len(rels.Relationship) == n, "one-relationship-per-append")
	for i := range rels.Relationship {
		vhAssert(strings.HasPrefix(rels.Relationship[i].Id, "R") && len(rels.Relationship[i].Id) == 9, "identifier-shape")
		vhAssert(rels.Relationship[i].Target == "/"+targets[i], "target-absolute")
		for j := 0; j < i; j++ {
			vhAssert(rels.Relationship[i].Id != rels.Relationship[j].Id, "identifiers-unique-within-the-part")
		}
	}
	vhAssert(rels.Find(sigOriginType) == "package/services/digital-signature/origin.psdor", "origin-found-by-type")
	vhAssert(rels.Find("no-such-type") == "", "unknown-type-not-found")
	var again oxfRelationships
	again.Append(targets[0], types[0])
	vhAssert(again.Relationship[0].Id == rels.Relationship[0].Id, "identifier-deterministic")
	vhReach("related") // vh:require related
}

// H08.vsix-relpath: where the relationship part of a package part lives (OPC
// 9.3.3: the part /dir/name has its relationships in /dir/_rels/name.rels,
// the package root in /_rels/.rels). Signer (newRels) and verifier
// (readSignature, parseRels) both locate the origin and signature parts
// through relPath, so an off-by-one here makes a re-signed package carry its
// relationships where no reader looks. Part name: one of four directories
// (root, one and two levels, the digital-signature directory) and a base
// name of 1..3 characters over letters and dot (not "." itself, which names
// the directory), compared with the spec's construction written out by hand.
func VH_C08_VsixRelPath() {
	const alphabet = "ab."
	dirs := []string{"", "a", "a/b", "package/services/digital-signature"}
	dir := dirs[vhConcretize(vhInt("directory", 0, len(dirs)-1), 4)]
	raw := vhBytes("base-name", vhConcretize(vhInt("base-len", 1, 3), 4))
	nb := make([]byte, len(raw))
	for i, c := range raw {
		nb[i] = alphabet[int(c)%len(alphabet)]
	}
	base := string(nb)
	if base == "." || base == ".." {
		return
	}
	want := "_rels/" + base + ".rels"
	part := base
	if dir != "" {
		want = dir + "/" + want
		part = dir + "/" + base
	}
	vhAssert(relPath(part) == want, "relationship-part-beside-its-part")
	vhAssert(!keepFile(relPath(part)), "relationship-part-regenerated-not-kept")
	vhAssert(relPath("") == "_rels/.rels", "package-root-relationships")
	vhAssert(relPath(originPath) == "package/services/digital-signature/_rels/origin.psdor.rels", "origin-relationships")
	vhReach("named") // vh:require named
}

func VH_C05_VsixRelPath() { VH_C08_VsixRelPath() }
