//go:build verif

package msi

import (
	"bytes"
	"crypto"
	_ "crypto/sha256"
	"encoding/binary"
	"io"
	"net/url"
	"os"
	"unicode/utf16"

	"github.com/sassoftware/relic/v8/lib/authenticode"
	"github.com/sassoftware/relic/v8/lib/comdoc"
	"github.com/sassoftware/relic/v8/signers"
)

func vhDirEnt(name string, typ comdoc.DirType, right, root int32, next comdoc.SecID, size uint32) comdoc.RawDirEnt {
	e := comdoc.RawDirEnt{Type: typ, Color: comdoc.Black, LeftChild: -1, RightChild: right, StorageRoot: root, NextSector: next, StreamSize: size}
	runes := append(utf16.Encode([]rune(name)), 0)
	copy(e.NameRunes[:], runes)
	e.NameLength = uint16(2 * len(runes))
	return e
}

// minimal valid container, 128-byte sectors: allocation table, directory
// (root + two streams), one data sector per stream
func vhContainer(p, q []byte) []byte {
	var f bytes.Buffer
	h := comdoc.Header{Revision: 0x3e, Version: 3, ByteOrder: 0xfffe, SectorSize: 7, ShortSectorSize: 4,
		SATSectors: 1, DirNextSector: 1, MinStdStreamSize: 32, SSATNextSector: comdoc.SecIDEndOfChain, MSATNextSector: comdoc.SecIDEndOfChain}
	copy(h.Magic[:], []byte{0xd0, 0xcf, 0x11, 0xe0, 0xa1, 0xb1, 0x1a, 0xe1})
	for i := range h.MSAT {
		h.MSAT[i] = comdoc.SecIDFree
	}
	h.MSAT[0] = 0
	binary.Write(&f, binary.LittleEndian, h)
	sat := make([]comdoc.SecID, 32)
	for i := range sat {
		sat[i] = comdoc.SecIDFree
	}
	sat[0], sat[1], sat[2], sat[3], sat[4], sat[5] = comdoc.SecIDSAT, 2, 3, comdoc.SecIDEndOfChain, comdoc.SecIDEndOfChain, comdoc.SecIDEndOfChain
	binary.Write(&f, binary.LittleEndian, sat)
	binary.Write(&f, binary.LittleEndian, vhDirEnt("Root Entry", comdoc.DirRoot, -1, 1, comdoc.SecIDEndOfChain, 0))
	binary.Write(&f, binary.LittleEndian, vhDirEnt("P", comdoc.DirStream, 2, -1, 4, uint32(len(p))))
	binary.Write(&f, binary.LittleEndian, vhDirEnt("Q", comdoc.DirStream, -1, -1, 5, uint32(len(q))))
	for _, d := range [][]byte{p, q} {
		sec := make([]byte, 128)
		copy(sec, d)
		f.Write(sec)
	}
	return f.Bytes()
}

// H09.msi-transform / H18.msi-apply: the MSI signer's client side, through the
// goroutine-and-pipe wrapper. The upload stream read twice is identical; the
// digest the server computes from it (with and without the extended
// pre-hash) equals the digest computed from the container itself; applying a
// signature blob to another path leaves the input file unchanged and yields a
// container that opens, holds the blob as its signature stream and still has
// both payload streams with their bytes and the same imprint.
func VH_C09_MsiTransformAndApply() {
	vhMaxLen(8192)
	vhLoopBound(1100)
	p := append(vhBytes("stream-P", 2), make([]byte, 38)...)
	q := append(vhBytes("stream-Q", 2), make([]byte, 31)...)
	orig := vhContainer(p, q)
	src := vhFSPath("in.msi")
	vhFSPut(src, orig)
	f, err := os.Open(src)
	if err != nil {
		return
	}
	query := url.Values{}
	noExt := vhBool("no-extended-sig")
	if noExt {
		query.Set("no-extended-sig", "true")
	}
	flags, err := MsiSigner.FlagsFromQuery(query)
	vhAssert(err == nil, "flags-parse")
	tr, err := transform(f, signers.SignOpts{Hash: crypto.SHA256, Flags: flags})
	vhAssert(err == nil, "transform-available")
	if err != nil {
		return
	}
	r1, _ := tr.GetReader()
	first, err := io.ReadAll(r1)
	vhAssert(err == nil && len(first) > 0, "first-upload-complete")
	r2, _ := tr.GetReader()
	second, err := io.ReadAll(r2)
	vhAssert(err == nil && bytes.Equal(first, second), "attempts-upload-identical-streams")
	fromTar, err := authenticode.DigestMsiTar(bytes.NewReader(second), crypto.SHA256, !noExt)
	vhAssert(err == nil, "server-digests-the-stream")
	cdf, err := comdoc.ReadFile(bytes.NewReader(orig))
	vhAssert(err == nil, "container-opens")
	if err != nil {
		return
	}
	direct, _, err := authenticode.DigestMSI(cdf, crypto.SHA256, !noExt)
	vhAssert(err == nil && bytes.Equal(direct, fromTar), "stream-digest-equals-container-digest")
	plain0, _, _ := authenticode.DigestMSI(cdf, crypto.SHA256, false)
	// apply a signature blob to another path
	dest := vhFSPath("out.msi")
	blob := append(vhBytes("pkcs7", 2), make([]byte, 38)...)
	vhAssert(tr.Apply(dest, "application/x-binpatch", bytes.NewReader(blob)) == nil, "signature-applied")
	in2, _ := vhFSGet(src)
	vhAssert(bytes.Equal(in2, orig), "input-file-unchanged")
	out, ok := vhFSGet(dest)
	vhAssert(ok, "output-exists")
	signed, err := comdoc.ReadFile(bytes.NewReader(out))
	vhAssert(err == nil, "signed-container-opens")
	if err != nil {
		return
	}
	files, _ := signed.ListDir(nil)
	got := map[string][]byte{}
	for _, e := range files {
		r, err := signed.ReadStream(e)
		if err == nil {
			got[e.Name()], _ = io.ReadAll(r)
		}
	}
	vhAssert(bytes.Equal(got["P"], p) && bytes.Equal(got["Q"], q), "payload-streams-unchanged")
	vhAssert(bytes.Equal(got["\x05DigitalSignature"], blob), "signature-stream-is-the-blob")
	_, hasEx := got["\x05MsiDigitalSignatureEx"]
	vhAssert(hasEx == !noExt, "extended-stream-follows-the-option")
	plain1, _, err := authenticode.DigestMSI(signed, crypto.SHA256, false)
	vhAssert(err == nil && bytes.Equal(plain0, plain1), "imprint-unchanged-by-signing")
	vhAssert(vhFSCountPrefix(dest+".tmp") == 0, "no-temp-left")
	vhReach("applied") // vh:require applied
}

func VH_C18_MsiApplyKeepsContainerValid() { VH_C09_MsiTransformAndApply() }
