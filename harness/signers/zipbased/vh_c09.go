//go:build verif

package zipbased

import (
	"bytes"
	"encoding/binary"
	"io"
	"os"

	"github.com/sassoftware/relic/v8/lib/zipslicer"
	"github.com/sassoftware/relic/v8/signers"
)

func vhZip1(data []byte) []byte {
	var f bytes.Buffer
	le := binary.LittleEndian
	binary.Write(&f, le, uint32(0x04034b50))
	binary.Write(&f, le, []uint16{20, 0, 0, 0, 0})
	binary.Write(&f, le, []uint32{0, uint32(len(data)), uint32(len(data))})
	binary.Write(&f, le, []uint16{1, 0})
	f.WriteString("a")
	f.Write(data)
	cd := f.Len()
	binary.Write(&f, le, uint32(0x02014b50))
	binary.Write(&f, le, []uint16{20, 20, 0, 0, 0, 0})
	binary.Write(&f, le, []uint32{0, uint32(len(data)), uint32(len(data))})
	binary.Write(&f, le, []uint16{1, 0, 0, 0, 0})
	binary.Write(&f, le, []uint32{0, 0})
	f.WriteString("a")
	size := f.Len() - cd
	binary.Write(&f, le, uint32(0x06054b50))
	binary.Write(&f, le, []uint16{0, 0, 1, 1})
	binary.Write(&f, le, []uint32{uint32(size), uint32(cd)})
	binary.Write(&f, le, uint16(0))
	return f.Bytes()
}

// H09.zip-transform: the transform every zip-based signer (JAR, APK, XAP,
// VSIX, APPX) uploads - through the goroutine-and-pipe wrapper the client
// calls. Read twice (retry / failover) it gives identical streams, and the
// stream read back on the server side yields the member with its bytes.
func VH_C09_ZipTransformGetReader() {
	vhMaxLen(8192)
	vhLoopBound(1100)
	data := vhBytes("member-data", 2)
	p := vhFSPath("a.jar")
	vhFSPut(p, vhZip1(data))
	f, err := os.Open(p)
	if err != nil {
		return
	}
	tr, err := Transform(f, signers.SignOpts{})
	vhAssert(err == nil, "transform-available")
	r1, err := tr.GetReader()
	vhAssert(err == nil, "first-reader")
	first, err := io.ReadAll(r1)
	vhAssert(err == nil && len(first) > 0, "first-upload-complete")
	r2, err := tr.GetReader()
	vhAssert(err == nil, "second-reader")
	second, err := io.ReadAll(r2)
	vhAssert(err == nil && bytes.Equal(first, second), "attempts-upload-identical-streams")
	d, err := zipslicer.ReadZipTar(bytes.NewReader(second))
	vhAssert(err == nil && len(d.File) == 1 && d.File[0].Name == "a", "server-side-sees-the-member")
	if err == nil && len(d.File) == 1 {
		rc, err := d.File[0].Open()
		vhAssert(err == nil, "member-opens")
		if err == nil {
			got, err := io.ReadAll(rc)
			vhAssert(err == nil && bytes.Equal(got, data), "member-bytes-through-the-stream")
		}
	}
	vhReach("uploaded") // vh:require uploaded
}
