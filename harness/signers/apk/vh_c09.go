//go:build verif

package apk

import (
	"bytes"
	"crypto"
	_ "crypto/sha256"
	"encoding/binary"
)

// reference from the APK Signature Scheme v2 description: the stream is cut
// into chunks of the block size; each chunk digest is H(0xa5 || len32 || chunk)
func vhRefChunks(data []byte, block int) ([]byte, uint32) {
	var out []byte
	var count uint32
	for len(data) > 0 {
		n := block
		if len(data) < n {
			n = len(data)
		}
		d := crypto.SHA256.New()
		var pref [5]byte
		pref[0] = 0xa5
		binary.LittleEndian.PutUint32(pref[1:], uint32(n))
		d.Write(pref[:])
		d.Write(data[:n])
		out = d.Sum(out)
		count++
		data = data[n:]
	}
	return out, count
}

// H09.merkle (+ H05.apk chunk layout): the chunk digests do not depend on how
// the stream is split into writes, and equal the specification's chunking
// (block size scaled from 1 MiB to 4 bytes; up to 3 blocks).
func VH_C09_MerkleWriteSplit() {
	vhAssert(merkleBlock == 4, "block-constant-scaled")
	maxN := 9
	if vhTier() > 0 {
		maxN = 13
	}
	n := vhConcretize(vhInt("len", 0, maxN), 16)
	data := vhBytes("data", n)
	a := vhConcretize(vhInt("split1", 0, n), 16)
	b := vhConcretize(vhInt("split2", 0, n), 16)
	vhAssume(a <= b)
	h := newMerkleHasher([]crypto.Hash{crypto.SHA256})
	h.Write(data[:a])
	h.Write(data[a:b])
	h.Write(data[b:])
	h.flush()
	want, count := vhRefChunks(data, merkleBlock)
	vhAssert(h.count == count, "chunk-count-independent-of-write-split")
	vhAssert(bytes.Equal(h.blocks[0], want), "chunk-digests-equal-spec-chunking")
	vhReach("compared") // vh:require compared
}
