//go:build verif

package apk

import (
	"archive/zip"
	"bytes"
	"crypto"
	"crypto/x509"
	"encoding/binary"
	"io"
	"os"

	"github.com/sassoftware/relic/v8/lib/certloader"
	"github.com/sassoftware/relic/v8/lib/zipslicer"
)

// the same one-member archive with its end-of-directory area in ZIP64 form
// (ZIP64 end record, locator, and a classic end record whose fields are all
// ones): what an APK with 65535+ members or a 4 GiB+ directory offset has
func vhApkZip64(between []byte) []byte {
	plain := vhApkZip(between)
	le := binary.LittleEndian
	eocd := len(plain) - 22
	cdOff := int(le.Uint32(plain[eocd+16:]))
	cdSize := int(le.Uint32(plain[eocd+12:]))
	var f bytes.Buffer
	f.Write(plain[:eocd])
	binary.Write(&f, le, uint32(0x06064b50))
	binary.Write(&f, le, uint64(44))
	binary.Write(&f, le, []uint16{45, 45})
	binary.Write(&f, le, []uint32{0, 0})
	binary.Write(&f, le, []uint64{1, 1, uint64(cdSize), uint64(cdOff)})
	binary.Write(&f, le, uint32(0x07064b50))
	binary.Write(&f, le, uint32(0))
	binary.Write(&f, le, uint64(eocd))
	binary.Write(&f, le, uint32(1))
	binary.Write(&f, le, uint32(0x06054b50))
	binary.Write(&f, le, []uint16{0, 0, 0xffff, 0xffff})
	binary.Write(&f, le, []uint32{0xffffffff, 0xffffffff})
	binary.Write(&f, le, uint16(0))
	return f.Bytes()
}

type vhApkSigner struct{ calls int }

func (s *vhApkSigner) Public() crypto.PublicKey { return nil }
func (s *vhApkSigner) Sign(rand io.Reader, digest []byte, opts crypto.SignerOpts) ([]byte, error) {
	s.calls++
	return []byte("sigv"), nil
}

// H03.apk / H08.apk / H17.apk: the patch APK v2 signing produces (signing
// block inserted before the central directory, end record rewritten). The
// length-prefixed serializer (reflection) is a stub returning blobs of
// symbolic length, the key is a stub; stream digesting, patch construction
// and directory re-emission are the real code. For an unsigned archive and
// for one that already carries a signing block: after the patch an
// independent reading finds the entry bytes untouched from offset 0, then
// exactly one well-framed signing block holding the new signer blob (the old
// one gone), then the central directory byte-identical, then an end record
// whose directory offset is where the directory now is and whose other
// fields are unchanged - and for an input whose end-of-directory area is in
// ZIP64 form although it need not be (ZIP64 record + locator + all-ones classic
// record): one classic end record pointing at the moved directory and nothing
// left over from the longer old area; the standard zip reader opens the result.
func VH_C03_ApkSignPatch() {
	// vh:stubbed
	vhMaxLen(4096)
	vhLoopBound(1100)
	var old []byte
	if vhBool("already-signed") {
		old = makeSigBlock(vhBytes("old-signers", vhConcretize(vhInt("old-signers-bytes", 1, 3), 4)))
	}
	zip64 := vhBool("zip64-end-records")
	file := vhApkZip(old)
	tail := 22
	if zip64 {
		file = vhApkZip64(old)
		tail = 56 + 20 + 22
	}
	const memberEnd = 30 + 1 + 1
	oldCD := memberEnd + len(old)
	eocdPos := len(file) - tail
	p := vhFSPath("in.apk")
	vhFSPut(p, file)
	f, err := os.Open(p)
	if err != nil {
		return
	}
	var upload bytes.Buffer
	vhAssert(zipslicer.ZipToTar(f, &upload) == nil, "transform-succeeds")
	d, err := digestApkStream(&upload, crypto.SHA256)
	vhAssert(err == nil, "stream-digests")
	calls := 0
	signers := vhBytes("new-signers", vhConcretize(vhInt("new-signers-bytes", 1, 4), 5))
	vhStub("github.com/sassoftware/relic/v8/signers/apk.marshal", func(src interface{}) (apkRaw, error) {
		calls++
		if calls == 1 {
			return apkRaw([]byte{2, 0, 0, 0, 's', 'd'}), nil // signed data
		}
		return apkRaw(signers), nil // signer list
	})
	vhStub("github.com/sassoftware/relic/v8/lib/x509tools.GetPublicKeyAlgorithm", func(pub crypto.PublicKey) x509.PublicKeyAlgorithm { return x509.RSA })
	key := &vhApkSigner{}
	cert := &certloader.Certificate{Leaf: &x509.Certificate{}, PrivateKey: key, Certificates: []*x509.Certificate{{Raw: []byte("leaf")}}}
	patch, err := d.Sign(cert)
	vhAssert(err == nil && key.calls == 1, "patch-built-with-one-use-of-the-key")
	var out []byte
	pos := int64(0)
	for i, h := range patch.Patches {
		out = append(out, file[pos:h.Offset]...)
		out = append(out, patch.Blobs[i]...)
		pos = h.Offset + int64(h.OldSize)
	}
	out = append(out, file[pos:]...)

	le := binary.LittleEndian
	block := makeSigBlock(signers)
	if !zip64 {
		vhAssert(len(out) == len(file)-len(old)+len(block), "size-changes-by-the-block-difference")
	}
	vhAssert(bytes.Equal(out[:memberEnd], file[:memberEnd]), "entries-untouched")
	vhAssert(bytes.Equal(out[memberEnd:memberEnd+len(block)], block), "one-well-framed-block-with-the-new-signers")
	newCD := memberEnd + len(block)
	cdLen := eocdPos - oldCD
	vhAssert(bytes.Equal(out[newCD:newCD+cdLen], file[oldCD:eocdPos]), "central-directory-byte-identical")
	eocd := out[newCD+cdLen:]
	want := append([]byte{}, file[eocdPos:]...)
	if zip64 {
		// a one-member archive does not need ZIP64 records: the rewritten
		// end-of-directory area is a classic record and nothing else follows
		want = make([]byte, 22)
		le.PutUint32(want, 0x06054b50)
		le.PutUint16(want[8:], 1)
		le.PutUint16(want[10:], 1)
		le.PutUint32(want[12:], uint32(cdLen))
		le.PutUint32(want[16:], uint32(newCD))
		vhAssert(len(eocd) == 22, "nothing-left-over-from-the-longer-zip64-area")
	} else {
		vhAssert(len(eocd) == 22 && le.Uint32(eocd) == 0x06054b50, "end-record-last")
		vhAssert(int(le.Uint32(eocd[16:])) == newCD, "end-record-points-at-the-moved-directory")
		le.PutUint32(want[16:], uint32(newCD))
	}
	vhAssert(bytes.Equal(eocd, want), "other-end-record-fields-unchanged")
	zr, zerr := zip.NewReader(bytes.NewReader(out), int64(len(out)))
	vhAssert(zerr == nil && len(zr.File) == 1, "standard-zip-reader-opens-the-signed-archive")
	// relic's own locator agrees
	q := vhFSPath("out.apk")
	vhFSPut(q, out)
	g, err := os.Open(q)
	if err != nil {
		return
	}
	_, pairs, err := getSigBlock(g)
	vhAssert(err == nil && bytes.Equal(pairs, block[8:len(block)-24]), "own-locator-finds-the-new-block")
	vhReach("patched") // vh:require patched
}

func VH_C08_ApkResignReplacesBlock() { VH_C03_ApkSignPatch() }
func VH_C17_ApkDirectoryMoved()      { VH_C03_ApkSignPatch() }
