//go:build verif

package apk

import (
	"archive/zip"
	"encoding/binary"
	"errors"
	"io"
	"os"

	"github.com/sassoftware/relic/v8/lib/zipslicer"
	"github.com/sassoftware/relic/v8/signers"
)

// H02.compare-executed (APK): when the verifier accepts a v2 signer, the
// recomputation of the content digest must have been possible, i.e. the
// signer check received the archive directory it needs to hash the contents.
// Parsing (reflection-based decoder, ZIP reader, crypto) is stubbed; what is
// decided is the data flow of the real verify().
func VH_C02_ApkDigestCompared() {
	// vh:stubbed
	dir := &zipslicer.Directory{}
	blob := []byte{1, 2, 3}
	var block []byte
	var sz [8]byte
	binary.LittleEndian.PutUint64(sz[:], uint64(4+len(blob)))
	block = append(block, sz[:]...)
	var ty [4]byte
	binary.LittleEndian.PutUint32(ty[:], sigApkV2)
	block = append(block, ty[:]...)
	block = append(block, blob...)
	vhStub("github.com/sassoftware/relic/v8/signers/apk.getSigBlock", func(f *os.File) (*zipslicer.Directory, []byte, error) {
		return dir, block, nil
	})
	vhStub("github.com/sassoftware/relic/v8/signers/apk.unmarshal", func(b []byte, dest interface{}) error {
		if l, ok := dest.(*[]apkSigner); ok {
			*l = []apkSigner{{}}
		}
		return nil
	})
	var got *zipslicer.Directory
	called := false
	vhStub("(*github.com/sassoftware/relic/v8/signers/apk.apkSigner).Verify", func(s *apkSigner, inz *zipslicer.Directory) (*signers.Signature, error) {
		called = true
		got = inz
		return &signers.Signature{}, nil
	})
	vhStub("archive/zip.NewReader", func(r io.ReaderAt, size int64) (*zip.Reader, error) {
		return nil, errors.New("stub: stop after the v2 pass")
	})
	verify(nil, signers.VerifyOpts{})
	vhReach("verified") // vh:require verified
	vhAssert(called, "v2-signer-checked")
	vhAssert(got == dir, "v2-signer-check-receives-the-archive-so-content-digests-are-compared")
}
