//go:build verif

package apk

import (
	"archive/zip"
	"bytes"
	"crypto"
	"encoding/binary"
	"os"

	"github.com/sassoftware/relic/v8/lib/signjar"
	"github.com/sassoftware/relic/v8/signers"
	"github.com/sassoftware/relic/v8/signers/sigerrors"
)

// H11.apk-serial: the signing block of an untrusted APK is a tree of
// length-prefixed items read by a reflection-driven parser (unmarshal into
// []apkSigner: signed data, signature list, public key). On an arbitrary
// byte string of 0..28 bytes (quick: 0..12, the lengths around each 4-byte prefix):
// an error or a value, no panic - in particular when a length prefix claims
// up to four bytes more than remain.
func VH_C11_ApkUnmarshal() {
	var n int
	if vhTier() > 0 {
		n = vhConcretize(vhInt("len", 0, 28), 29)
	} else {
		n = []int{0, 3, 4, 5, 8, 9, 12}[vhConcretize(vhInt("lenidx", 0, 6), 7)]
	}
	b := vhBytes("signer-list", n)
	vhMaxLen(64)
	vhLoopBound(64)
	vhAllocLimit(4<<20 + 16*n)
	var signers []apkSigner
	err := unmarshal(b, &signers)
	if err == nil {
		vhReach("parsed")
	} else {
		vhReach("rejected") // vh:require rejected
	}
	// a flat byte string
	var raw []byte
	if err := unmarshal(b, &raw); err == nil {
		vhAssert(n >= 4 && len(raw) == n-4 && bytes.Equal(raw, b[4:]), "bytes-are-the-prefixed-content")
		vhReach("bytes") // vh:require bytes
	}
}

// H05.apk-serial / H01.apk-serial: what relic writes, it reads back:
// marshal of a signer list (one signer: signed data with one digest and one
// certificate, one signature, a public key - all symbolic bytes of 0..2) is a
// correctly nested length-prefixed tree (every prefix equals the bytes that
// follow it at its level), and unmarshal returns the same values.
func VH_C05_ApkSerializerRoundTrip() {
	bs := func(tag string) []byte { return vhBytes(tag, vhConcretize(vhInt(tag+"-len", 0, 2), 3)) }
	sd := apkSignedData{Digests: []apkDigest{{ID: vhU32("digest-id"), Value: bs("digest")}}, Certificates: [][]byte{bs("certificate")}}
	raw, err := marshal(sd)
	vhAssert(err == nil && len(raw) >= 4, "signed-data-marshals")
	list := []apkSigner{{SignedData: raw, Signatures: []apkSignature{{ID: vhU32("sig-id"), Value: bs("signature")}}, PublicKey: bs("public-key")}}
	blob, err := marshal(list)
	vhAssert(err == nil, "signer-list-marshals")
	le := func(b []byte) int { return int(b[0]) | int(b[1])<<8 | int(b[2])<<16 | int(b[3])<<24 }
	vhAssert(le(blob) == len(blob)-4, "outer-prefix-covers-the-rest")
	vhAssert(le(blob[4:]) == len(blob)-8, "single-signer-prefix-covers-the-rest")
	var back []apkSigner
	vhAssert(unmarshal(blob, &back) == nil && len(back) == 1, "own-output-parses")
	vhAssert(bytes.Equal(back[0].SignedData, raw) && bytes.Equal(back[0].PublicKey, list[0].PublicKey), "signed-data-and-key-round-trip")
	vhAssert(len(back[0].Signatures) == 1 && back[0].Signatures[0].ID == list[0].Signatures[0].ID && bytes.Equal(back[0].Signatures[0].Value, list[0].Signatures[0].Value), "signature-round-trips")
	var sd2 apkSignedData
	vhAssert(unmarshal(raw, &sd2) == nil && len(sd2.Digests) == 1 && sd2.Digests[0].ID == sd.Digests[0].ID && bytes.Equal(sd2.Digests[0].Value, sd.Digests[0].Value), "digest-round-trips")
	vhAssert(len(sd2.Certificates) == 1 && bytes.Equal(sd2.Certificates[0], sd.Certificates[0]), "certificate-round-trips")
	vhReach("round-trip") // vh:require round-trip
}

// H11.apk-verify: `relic verify` on an APK whose signing block is well framed
// (sizes and magic consistent, so the locator hands it on) but whose
// ID-value pairs are ARBITRARY bytes (0..40, quick: around the 12-byte pair
// header and the nested 4-byte prefixes): the pair walk and the nested item
// parser return an error or signatures, never a panic. Public-key parsing,
// the signature check and the v1 (JAR) pass are stubs.
func VH_C11_ApkVerifyPairs() {
	// vh:stubbed
	var n int
	if vhTier() > 0 {
		n = vhConcretize(vhInt("pairs-bytes", 0, 40), 41)
	} else {
		n = []int{0, 11, 12, 13, 16, 20}[vhConcretize(vhInt("pairs-idx", 0, 5), 6)]
	}
	pairs := vhBytes("pairs", n)
	if n >= 12 && vhBool("v2-pair-first") {
		// steer into the v2 branch: one pair spanning the rest, with the v2 id
		vhAssume(pairs[0] == byte(n-8) && pairs[1] == 0 && pairs[2] == 0 && pairs[3] == 0 && pairs[4] == 0 && pairs[5] == 0 && pairs[6] == 0 && pairs[7] == 0)
		vhAssume(pairs[8] == 0x1a && pairs[9] == 0x87 && pairs[10] == 0x09 && pairs[11] == 0x71)
	}
	block := make([]byte, 8+n+24)
	binary.LittleEndian.PutUint64(block, uint64(len(block)-8))
	copy(block[8:], pairs)
	binary.LittleEndian.PutUint64(block[8+n:], uint64(len(block)-8))
	copy(block[8+n+8:], sigMagic)
	vhStub("crypto/x509.ParsePKIXPublicKey", func(der []byte) (interface{}, error) { return nil, nil })
	vhStub("(*github.com/sassoftware/relic/v8/signers/apk.apkSignature).VerifySignature", func(s *apkSignature, pub crypto.PublicKey, signed []byte) (crypto.Hash, error) {
		return crypto.SHA256, nil
	})
	vhStub("github.com/sassoftware/relic/v8/lib/signjar.Verify", func(inz *zip.Reader, skipDigests bool) ([]*signjar.JarSignature, error) {
		return nil, sigerrors.NotSignedError{Type: "JAR"}
	})
	vhMaxLen(512)
	vhLoopBound(256)
	vhAllocLimit(4<<20 + 16*len(block))
	p := vhFSPath("a.apk")
	vhFSPut(p, vhApkZip(block))
	f, err := os.Open(p)
	if err != nil {
		return
	}
	sigs, err := verify(f, signers.VerifyOpts{})
	if err == nil {
		vhAssert(len(sigs) > 0, "success-carries-a-signature")
		vhReach("accepted")
	} else {
		vhReach("rejected") // vh:require rejected
	}
}
