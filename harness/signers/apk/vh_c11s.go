//go:build verif

package apk

import "bytes"

// H11.apk-serial: the signing block of an untrusted APK is a tree of
// length-prefixed items read by a reflection-driven parser (unmarshal into
// []apkSigner: signed data, signature list, public key). On an arbitrary
// byte string of 0..12 bytes (quick: the lengths around each 4-byte prefix):
// an error or a value, no panic - in particular when a length prefix claims
// up to four bytes more than remain.
func VH_C11_ApkUnmarshal() {
	var n int
	if vhTier() > 0 {
		n = vhConcretize(vhInt("len", 0, 12), 13)
	} else {
		n = []int{0, 3, 4, 5, 8, 9, 12}[vhConcretize(vhInt("lenidx", 0, 6), 7)]
	}
	b := vhBytes("signer-list", n)
	vhMaxLen(64)
	vhLoopBound(64)
	vhAllocLimit(4<<20 + 16*n)
	var signers []apkSigner
	err := unmarshal(b, &signers)
	if err == nil {
		vhReach("parsed")
	} else {
		vhReach("rejected") // vh:require rejected
	}
	// a flat byte string
	var raw []byte
	if err := unmarshal(b, &raw); err == nil {
		vhAssert(n >= 4 && len(raw) == n-4 && bytes.Equal(raw, b[4:]), "bytes-are-the-prefixed-content")
		vhReach("bytes") // vh:require bytes
	}
}

// H05.apk-serial / H01.apk-serial: what relic writes, it reads back:
// marshal of a signer list (one signer: signed data with one digest and one
// certificate, one signature, a public key - all symbolic bytes of 0..2) is a
// correctly nested length-prefixed tree (every prefix equals the bytes that
// follow it at its level), and unmarshal returns the same values.
func VH_C05_ApkSerializerRoundTrip() {
	bs := func(tag string) []byte { return vhBytes(tag, vhConcretize(vhInt(tag+"-len", 0, 2), 3)) }
	sd := apkSignedData{Digests: []apkDigest{{ID: vhU32("digest-id"), Value: bs("digest")}}, Certificates: [][]byte{bs("certificate")}}
	raw, err := marshal(sd)
	vhAssert(err == nil && len(raw) >= 4, "signed-data-marshals")
	list := []apkSigner{{SignedData: raw, Signatures: []apkSignature{{ID: vhU32("sig-id"), Value: bs("signature")}}, PublicKey: bs("public-key")}}
	blob, err := marshal(list)
	vhAssert(err == nil, "signer-list-marshals")
	le := func(b []byte) int { return int(b[0]) | int(b[1])<<8 | int(b[2])<<16 | int(b[3])<<24 }
	vhAssert(le(blob) == len(blob)-4, "outer-prefix-covers-the-rest")
	vhAssert(le(blob[4:]) == len(blob)-8, "single-signer-prefix-covers-the-rest")
	var back []apkSigner
	vhAssert(unmarshal(blob, &back) == nil && len(back) == 1, "own-output-parses")
	vhAssert(bytes.Equal(back[0].SignedData, raw) && bytes.Equal(back[0].PublicKey, list[0].PublicKey), "signed-data-and-key-round-trip")
	vhAssert(len(back[0].Signatures) == 1 && back[0].Signatures[0].ID == list[0].Signatures[0].ID && bytes.Equal(back[0].Signatures[0].Value, list[0].Signatures[0].Value), "signature-round-trips")
	var sd2 apkSignedData
	vhAssert(unmarshal(raw, &sd2) == nil && len(sd2.Digests) == 1 && sd2.Digests[0].ID == sd.Digests[0].ID && bytes.Equal(sd2.Digests[0].Value, sd.Digests[0].Value), "digest-round-trips")
	vhAssert(len(sd2.Certificates) == 1 && bytes.Equal(sd2.Certificates[0], sd.Certificates[0]), "certificate-round-trips")
	vhReach("round-trip") // vh:require round-trip
}
