//go:build verif

package apk

import (
	"bytes"
	"crypto"
	"encoding/binary"
	"os"

	"github.com/sassoftware/relic/v8/lib/zipslicer"
)

// one stored member, `between` bytes, then the directory and end record
func vhApkZip(between []byte) []byte {
	var f bytes.Buffer
	le := binary.LittleEndian
	binary.Write(&f, le, uint32(0x04034b50))
	binary.Write(&f, le, []uint16{20, 0, 0, 0, 0})
	binary.Write(&f, le, []uint32{0, 1, 1})
	binary.Write(&f, le, []uint16{1, 0})
	f.WriteString("a")
	f.WriteByte('x')
	f.Write(between)
	cd := f.Len()
	binary.Write(&f, le, uint32(0x02014b50))
	binary.Write(&f, le, []uint16{20, 20, 0, 0, 0, 0})
	binary.Write(&f, le, []uint32{0, 1, 1})
	binary.Write(&f, le, []uint16{1, 0, 0, 0, 0})
	binary.Write(&f, le, []uint32{0, 0})
	f.WriteString("a")
	size := f.Len() - cd
	binary.Write(&f, le, uint32(0x06054b50))
	binary.Write(&f, le, []uint16{0, 0, 1, 1})
	binary.Write(&f, le, []uint32{uint32(size), uint32(cd)})
	binary.Write(&f, le, uint16(0))
	return f.Bytes()
}

// H11.apk-block: locating the APK signing block (whatever lies between the
// last member and the central directory) in an otherwise valid archive: for
// every length of that region on both sides of the block's fixed-size frame
// (8-byte size, ..., 8-byte size, 16-byte magic), arbitrary content, with or
// without the magic at its end: an error or the block, never a panic.
func VH_C11_ApkSigningBlock() {
	lens := []int{0, 1, 8, 15, 16, 17, 23, 24, 25, 32}
	n := lens[vhConcretize(vhInt("lenidx", 0, len(lens)-1), 16)]
	vhMaxLen(256)
	between := vhBytes("between-last-member-and-directory", n)
	if n >= 16 && vhBool("ends-with-the-magic") {
		copy(between[n-16:], sigMagic)
	}
	p := vhFSPath("a.apk")
	vhFSPut(p, vhApkZip(between))
	f, err := os.Open(p)
	if err != nil {
		return
	}
	vhLoopBound(200)
	inz, block, err := getSigBlock(f)
	if err != nil {
		vhReach("rejected")
		return
	}
	vhReach("located") // vh:require located
	vhAssert(inz != nil, "archive-returned")
	if n == 0 {
		vhAssert(block == nil, "unsigned-archive-has-no-block")
	} else {
		vhAssert(len(block) == n-32, "block-is-the-region-inside-the-frame")
	}
}

// H05.apk-block / H01.apk-block: the signing block relic writes has the
// layout the APK Signature Scheme v2 prescribes (size of block excluding
// this field, sequence of length-prefixed ID-value pairs, size again, magic)
// with exactly one pair carrying the v2 scheme ID and the signer blob, and
// relic's own locator, given an archive with that block in front of the
// directory, returns exactly the pair sequence.
func VH_C05_ApkSigningBlockLayout() {
	vhMaxLen(256)
	vhLoopBound(200)
	sblob := vhBytes("signers", vhConcretize(vhInt("signers-bytes", 0, 3), 4))
	block := makeSigBlock(sblob)
	n := len(block)
	le := binary.LittleEndian
	vhAssert(n == 8+8+4+len(sblob)+8+16, "block-length")
	vhAssert(le.Uint64(block) == uint64(n-8) && le.Uint64(block[n-24:]) == uint64(n-8), "both-size-fields-exclude-the-first")
	vhAssert(string(block[n-16:]) == "APK Sig Block 42", "magic-last")
	vhAssert(le.Uint64(block[8:]) == uint64(4+len(sblob)) && le.Uint32(block[16:]) == 0x7109871a, "one-pair-with-the-v2-id")
	vhAssert(bytes.Equal(block[20:20+len(sblob)], sblob), "pair-value-is-the-signer-blob")
	p := vhFSPath("signed.apk")
	vhFSPut(p, vhApkZip(block))
	f, err := os.Open(p)
	if err != nil {
		return
	}
	_, pairs, err := getSigBlock(f)
	vhAssert(err == nil && bytes.Equal(pairs, block[8:n-24]), "own-locator-returns-the-pair-sequence")
	vhReach("located") // vh:require located
}

func VH_C01_ApkSigningBlockFound() { VH_C05_ApkSigningBlockLayout() }

// H05.apk-digest: the APK Signature Scheme v2 content digest relic computes
// from the upload stream equals the digest written out here from the scheme's
// description - chunk digests of (1) the zip entries, (3) the central
// directory and (4) the end-of-directory record whose directory offset points
// at where the signing block starts, then the top-level digest over the
// count and the chunk digests - for an unsigned archive and for one that
// already carries a signing block (re-signing). Block size scaled to 4.
func VH_C05_ApkDigestReference() {
	vhMaxLen(4096)
	vhLoopBound(1100)
	vhAssert(merkleBlock == 4, "block-constant-scaled")
	var old []byte
	if vhBool("already-signed") {
		old = makeSigBlock(vhBytes("old-signers", 2))
	}
	file := vhApkZip(old)
	p := vhFSPath("in.apk")
	vhFSPut(p, file)
	f, err := os.Open(p)
	if err != nil {
		return
	}
	var upload bytes.Buffer
	vhAssert(zipslicer.ZipToTar(f, &upload) == nil, "transform-succeeds")
	d, err := digestApkStream(&upload, crypto.SHA256)
	vhAssert(err == nil, "stream-digests")
	if err != nil {
		return
	}
	// reference
	const memberEnd = 30 + 1 + 1 // local header, name "a", one byte of data
	cdStart := memberEnd + len(old)
	eocdPos := len(file) - 22
	contents := file[:memberEnd]
	cd := file[cdStart:eocdPos]
	eocd := append([]byte{}, file[eocdPos:]...)
	binary.LittleEndian.PutUint32(eocd[16:], uint32(memberEnd)) // directory offset := start of the signing block
	var all []byte
	var count uint32
	for _, section := range [][]byte{contents, cd, eocd} {
		ds, n := vhRefChunks(section, 4)
		all = append(all, ds...)
		count += n
	}
	top := crypto.SHA256.New()
	var pref [5]byte
	pref[0] = 0x5a
	binary.LittleEndian.PutUint32(pref[1:], count)
	top.Write(pref[:])
	top.Write(all)
	vhAssert(bytes.Equal(d.value, top.Sum(nil)), "content-digest-per-the-scheme")
	vhAssert(d.sigLoc == int64(memberEnd), "signing-block-goes-right-after-the-last-entry")
	vhReach("digested") // vh:require digested
}
