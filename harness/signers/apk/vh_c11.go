//go:build verif

package apk

import (
	"bytes"
	"encoding/binary"
	"os"
)

// one stored member, `between` bytes, then the directory and end record
func vhApkZip(between []byte) []byte {
	var f bytes.Buffer
	le := binary.LittleEndian
	binary.Write(&f, le, uint32(0x04034b50))
	binary.Write(&f, le, []uint16{20, 0, 0, 0, 0})
	binary.Write(&f, le, []uint32{0, 1, 1})
	binary.Write(&f, le, []uint16{1, 0})
	f.WriteString("a")
	f.WriteByte('x')
	f.Write(between)
	cd := f.Len()
	binary.Write(&f, le, uint32(0x02014b50))
	binary.Write(&f, le, []uint16{20, 20, 0, 0, 0, 0})
	binary.Write(&f, le, []uint32{0, 1, 1})
	binary.Write(&f, le, []uint16{1, 0, 0, 0, 0})
	binary.Write(&f, le, []uint32{0, 0})
	f.WriteString("a")
	size := f.Len() - cd
	binary.Write(&f, le, uint32(0x06054b50))
	binary.Write(&f, le, []uint16{0, 0, 1, 1})
	binary.Write(&f, le, []uint32{uint32(size), uint32(cd)})
	binary.Write(&f, le, uint16(0))
	return f.Bytes()
}

// H11.apk-block: locating the APK signing block (whatever lies between the
// last member and the central directory) in an otherwise valid archive: for
// every length of that region on both sides of the block's fixed-size frame
// (8-byte size, ..., 8-byte size, 16-byte magic), arbitrary content, with or
// without the magic at its end: an error or the block, never a panic.
func VH_C11_ApkSigningBlock() {
	lens := []int{0, 1, 8, 15, 16, 17, 23, 24, 25, 32}
	n := lens[vhConcretize(vhInt("lenidx", 0, len(lens)-1), 16)]
	vhMaxLen(256)
	between := vhBytes("between-last-member-and-directory", n)
	if n >= 16 && vhBool("ends-with-the-magic") {
		copy(between[n-16:], sigMagic)
	}
	p := vhFSPath("a.apk")
	vhFSPut(p, vhApkZip(between))
	f, err := os.Open(p)
	if err != nil {
		return
	}
	vhLoopBound(200)
	inz, block, err := getSigBlock(f)
	if err != nil {
		vhReach("rejected")
		return
	}
	vhReach("located") // vh:require located
	vhAssert(inz != nil, "archive-returned")
	if n == 0 {
		vhAssert(block == nil, "unsigned-archive-has-no-block")
	} else {
		vhAssert(len(block) == n-32, "block-is-the-region-inside-the-frame")
	}
}
