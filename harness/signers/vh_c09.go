//go:build verif

package signers

import (
	"bytes"
	"io"
	"net/url"
	"os"

	"github.com/spf13/cobra"
	"github.com/spf13/pflag"
)

// H09.default-transform: the default client-side transform (the file itself)
// can be read repeatedly: after an upload attempt that consumed any prefix of
// the stream (a server failing part-way, a failover), GetReader again yields
// the complete file, byte for byte.
func VH_C09_DefaultTransformRepeatable() {
	n := vhConcretize(vhInt("filelen", 0, 4), 5)
	data := vhBytes("file", n)
	p := vhFSPath("in.bin")
	vhFSPut(p, data)
	f, err := os.Open(p)
	if err != nil {
		return
	}
	var s *Signer
	tr, err := s.GetTransform(f, SignOpts{})
	vhAssert(err == nil && tr != nil, "transform-available")
	r1, err := tr.GetReader()
	vhAssert(err == nil, "first-reader")
	consumed := vhConcretize(vhInt("first-attempt-consumed", 0, 5), 6)
	buf := make([]byte, consumed)
	io.ReadFull(r1, buf)
	r2, err := tr.GetReader()
	vhAssert(err == nil, "second-reader")
	if err != nil {
		return
	}
	got, err := io.ReadAll(r2)
	vhAssert(err == nil && bytes.Equal(got, data), "second-upload-is-the-whole-file")
	vhReach("reread") // vh:require reread
}

// H09.flags: the options a client sets reach the server unchanged: for a
// signer with its own flags and the common ones, any subset of flags set on
// the command line, serialised into the request query (ToQuery) and read back
// on the server (FlagsFromQuery), gives the same value for every flag -
// set ones keep their value (symbolic text), unset ones keep their default -
// and a flag that belongs to another signer type is refused on the client.
var vhFlagSigner, vhFlagOther *Signer

func VH_C09_FlagsSurviveTheRequest() {
	// the signer registry is process-global: register the two fake types once
	if vhFlagSigner == nil {
		vhFlagSigner = &Signer{Name: "fake09"}
		vhFlagSigner.Flags().String("style", "plain", "")
		vhFlagSigner.Flags().Bool("fancy", false, "")
		vhFlagOther = &Signer{Name: "other09"}
		vhFlagOther.Flags().Bool("only-for-other", false, "")
		Register(vhFlagSigner)
		Register(vhFlagOther)
	}
	// pflag.Flag objects are shared between the signer and every command
	// they are merged into: undo what an earlier run in this process set
	for _, fs := range []*pflag.FlagSet{vhFlagSigner.Flags(), vhFlagOther.Flags()} {
		fs.VisitAll(func(f *pflag.Flag) {
			f.Value.Set(f.DefValue)
			f.Changed = false
		})
	}
	s := vhFlagSigner
	cmd := &cobra.Command{Use: "sign"}
	MergeFlags(cmd)
	cmdline := cmd.Flags()
	const letters = "abcdefgh"
	style := string([]byte{letters[int(vhU8("style-value"))%len(letters)], letters[int(vhU8("style-value"))%len(letters)]})
	setStyle, setFancy, setForeign := vhBool("style-set"), vhBool("fancy-set"), vhBool("foreign-flag-set")
	if setStyle {
		vhAssert(cmdline.Set("style", style) == nil, "flag-known")
	}
	if setFancy {
		vhAssert(cmdline.Set("fancy", "true") == nil, "flag-known")
	}
	if setForeign {
		vhAssert(cmdline.Set("only-for-other", "true") == nil, "flag-known")
	}
	client, err := s.FlagsFromCmdline(cmdline)
	if setForeign {
		vhAssert(err != nil, "flag-of-another-signer-type-refused")
		vhReach("refused") // vh:require refused
		return
	}
	vhAssert(err == nil, "own-flags-accepted")
	if err != nil {
		return
	}
	q := url.Values{}
	vhAssert(client.ToQuery(q) == nil, "query-built")
	server, err := s.FlagsFromQuery(q)
	vhAssert(err == nil, "query-read")
	if err != nil {
		return
	}
	wantStyle := "plain"
	if setStyle {
		wantStyle = style
	}
	vhAssert(client.GetString("style") == wantStyle && server.GetString("style") == wantStyle, "text-flag-same-on-both-sides")
	vhAssert(client.GetBool("fancy") == setFancy && server.GetBool("fancy") == setFancy, "boolean-flag-same-on-both-sides")
	vhReach("forwarded") // vh:require forwarded
}
