//go:build verif

package signers

import (
	"bytes"
	"io"
	"os"
)

// H09.default-transform: the default client-side transform (the file itself)
// can be read repeatedly: after an upload attempt that consumed any prefix of
// the stream (a server failing part-way, a failover), GetReader again yields
// the complete file, byte for byte.
func VH_C09_DefaultTransformRepeatable() {
	n := vhConcretize(vhInt("filelen", 0, 4), 5)
	data := vhBytes("file", n)
	p := vhFSPath("in.bin")
	vhFSPut(p, data)
	f, err := os.Open(p)
	if err != nil {
		return
	}
	var s *Signer
	tr, err := s.GetTransform(f, SignOpts{})
	vhAssert(err == nil && tr != nil, "transform-available")
	r1, err := tr.GetReader()
	vhAssert(err == nil, "first-reader")
	consumed := vhConcretize(vhInt("first-attempt-consumed", 0, 5), 6)
	buf := make([]byte, consumed)
	io.ReadFull(r1, buf)
	r2, err := tr.GetReader()
	vhAssert(err == nil, "second-reader")
	if err != nil {
		return
	}
	got, err := io.ReadAll(r2)
	vhAssert(err == nil && bytes.Equal(got, data), "second-upload-is-the-whole-file")
	vhReach("reread") // vh:require reread
}
