//go:build verif

package rpm

import (
	"errors"

	rpmutils "github.com/sassoftware/go-rpmutils"
)

// H11.rpm-nevra: after an RPM has been signed, and when one is verified, relic
// puts the package's name-epoch-version-release-arch into the audit record /
// report. The header parser (go-rpmutils, a dependency) is a stub returning
// what it can return: the five fields (symbolic short strings, possibly
// empty) or an error with no value - a header without NAME, VERSION, RELEASE
// or ARCH tag. nevra() returns text in every case, it does not panic.
func VH_C11_RpmNevra() {
	// vh:stubbed
	missing := vhBool("a-required-tag-is-missing")
	field := func(tag string) string { return string(vhBytes(tag, vhConcretize(vhInt(tag+"-len", 0, 1), 2))) }
	vhStub("(*github.com/sassoftware/go-rpmutils.RpmHeader).GetNEVRA", func(h *rpmutils.RpmHeader) (*rpmutils.NEVRA, error) {
		if missing {
			return nil, errors.New("no such tag")
		}
		return &rpmutils.NEVRA{Name: field("name"), Epoch: "0", Version: field("version"), Release: field("release"), Arch: field("arch")}, nil
	})
	s := nevra(&rpmutils.RpmHeader{})
	if missing {
		vhReach("tag-missing") // vh:require tag-missing
	} else {
		vhAssert(len(s) >= 3, "separators-present")
		vhReach("formatted") // vh:require formatted
	}
}
