//go:build verif

package macho

import (
	"bytes"
	"debug/macho"
	"encoding/binary"
	"errors"
	"io"
	"os"

	"github.com/sassoftware/relic/v8/signers"
)

// H02.fat: an app bundle's executable is verified against the bundle's
// Info.plist and resource manifest (the code directory binds their digests).
// For a universal (fat) executable every architecture slice carries its own
// signature and must be checked against the same two files. The Mach-O
// container parser and the per-slice verifier are stubs (the slice verifier
// fails exactly when it is handed a plist / resource manifest other than the
// one its code directory binds, and skips the check when handed none - as
// csblob.Verify does); verifyFat's hand-off is the real code. With a plist or
// manifest that was altered after signing, verification of a thin and of a
// two-slice fat executable fails.
func VH_C02_FatSlicesBoundToBundle() {
	// vh:stubbed
	signedPlist, signedRes := []byte("<plist>signed</plist>"), []byte("<plist>resources</plist>")
	plist, res := signedPlist, signedRes
	tampered := vhConcretize(vhInt("altered-file", 0, 2), 3) // 0 none, 1 Info.plist, 2 resource manifest
	if tampered == 1 {
		plist = []byte("<plist>ALTERED</plist>")
	} else if tampered == 2 {
		res = []byte("<plist>ALTERED</plist>")
	}
	fat := vhBool("universal-binary")
	vhStub("debug/macho.NewFatFile", func(r io.ReaderAt) (*macho.FatFile, error) {
		if !fat {
			return nil, macho.ErrNotFat
		}
		return &macho.FatFile{Arches: []macho.FatArch{{FatArchHeader: macho.FatArchHeader{Cpu: macho.CpuAmd64, Offset: 0, Size: 4}}, {FatArchHeader: macho.FatArchHeader{Cpu: macho.CpuArm64, Offset: 4, Size: 4}}}}, nil
	})
	slices := 0
	vhStub("github.com/sassoftware/relic/v8/signers/macho.verifyMacho", func(r io.ReaderAt, infoPlist, resources []byte, opts signers.VerifyOpts) (*signers.Signature, error) {
		slices++
		if infoPlist != nil && !bytes.Equal(infoPlist, signedPlist) {
			return nil, errors.New("info_plist: digest mismatch")
		}
		if resources != nil && !bytes.Equal(resources, signedRes) {
			return nil, errors.New("resources: digest mismatch")
		}
		return &signers.Signature{}, nil
	})
	sigs, err := verifyFat(bytes.NewReader(make([]byte, 8)), plist, res, signers.VerifyOpts{})
	vhReach("decided") // vh:require decided
	if tampered == 0 {
		want := 1
		if fat {
			want = 2
		}
		vhAssert(err == nil && len(sigs) == want && slices == want, "every-slice-verified")
	} else {
		vhAssert(err != nil, "altered-bundle-file-rejected-for-thin-and-fat-executables")
		vhReach("rejected") // vh:require rejected
	}
}

type vhIpaMember struct {
	name string
	data []byte
}

func vhIpaZip(ms []vhIpaMember) []byte {
	var f bytes.Buffer
	le := binary.LittleEndian
	offs := make([]int, len(ms))
	for i, m := range ms {
		offs[i] = f.Len()
		binary.Write(&f, le, uint32(0x04034b50))
		binary.Write(&f, le, []uint16{20, 0, 0, 0, 0})
		binary.Write(&f, le, []uint32{0, uint32(len(m.data)), uint32(len(m.data))})
		binary.Write(&f, le, []uint16{uint16(len(m.name)), 0})
		f.WriteString(m.name)
		f.Write(m.data)
	}
	cd := f.Len()
	for i, m := range ms {
		binary.Write(&f, le, uint32(0x02014b50))
		binary.Write(&f, le, []uint16{20, 20, 0, 0, 0, 0})
		binary.Write(&f, le, []uint32{0, uint32(len(m.data)), uint32(len(m.data))})
		binary.Write(&f, le, []uint16{uint16(len(m.name)), 0, 0, 0, 0})
		binary.Write(&f, le, []uint32{0, uint32(offs[i])})
		f.WriteString(m.name)
	}
	size := f.Len() - cd
	binary.Write(&f, le, uint32(0x06054b50))
	binary.Write(&f, le, []uint16{0, 0, uint16(len(ms)), uint16(len(ms))})
	binary.Write(&f, le, []uint32{uint32(size), uint32(cd)})
	binary.Write(&f, le, uint16(0))
	return f.Bytes()
}

// H02.ipa: an iOS app archive. The executable's code directory binds
// Info.plist and _CodeSignature/CodeResources, and CodeResources in turn
// lists a digest for every other file of the bundle. With the property-list
// decoder and the executable's verification stubbed (they accept, as for a
// genuine app), verifyIPA is given an archive in which ONE resource file
// (an image the resource manifest vouches for) was altered after signing:
// the property wants this reported. relic compares the manifest's own digest
// only and never the files it lists - recorded known finding.
func VH_C02_IpaResourceFilesChecked() {
	// vh:stubbed
	vhMaxLen(4096)
	vhLoopBound(600)
	vhStub("howett.net/plist.Unmarshal", func(data []byte, v interface{}) (int, error) {
		v.(*bundlePlist).Executable = "App"
		return 1, nil
	})
	vhStub("github.com/sassoftware/relic/v8/signers/macho.verifyFat", func(fr io.ReaderAt, infoPlist, resources []byte, opts signers.VerifyOpts) ([]*signers.Signature, error) {
		return []*signers.Signature{{}}, nil
	})
	app := "Payload/App.app/"
	ms := []vhIpaMember{{app + "Info.plist", []byte("<plist/>")}, {app + "_CodeSignature/CodeResources", []byte("<plist>logo.png: digest</plist>")}, {app + "App", []byte("exe")}, {app + "logo.png", []byte("PNG-as-signed")}}
	p := vhFSPath("app.ipa")
	vhFSPut(p, vhIpaZip(ms))
	f, err := os.Open(p)
	vhAssert(err == nil, "archive-opens")
	sigs, err := verifyIPA(f, signers.VerifyOpts{})
	vhAssert(err == nil && len(sigs) == 1, "genuine-app-verifies")
	ms[3].data = []byte("PNG-ALTERED!!")
	q := vhFSPath("tampered.ipa")
	vhFSPut(q, vhIpaZip(ms))
	g, err := os.Open(q)
	vhAssert(err == nil, "tampered-archive-opens")
	vhReach("checked") // vh:require checked
	_, err = verifyIPA(g, signers.VerifyOpts{})
	vhAssert(err != nil, "altered-resource-file-rejected")
}
