//go:build verif

package macho

import (
	"bytes"
	"debug/macho"
	"errors"
	"io"

	"github.com/sassoftware/relic/v8/signers"
)

// H02.fat: an app bundle's executable is verified against the bundle's
// Info.plist and resource manifest (the code directory binds their digests).
// For a universal (fat) executable every architecture slice carries its own
// signature and must be checked against the same two files. The Mach-O
// container parser and the per-slice verifier are stubs (the slice verifier
// fails exactly when it is handed a plist / resource manifest other than the
// one its code directory binds, and skips the check when handed none - as
// csblob.Verify does); verifyFat's hand-off is the real code. With a plist or
// manifest that was altered after signing, verification of a thin and of a
// two-slice fat executable fails.
func VH_C02_FatSlicesBoundToBundle() {
	// vh:stubbed
	signedPlist, signedRes := []byte("<plist>signed</plist>"), []byte("<plist>resources</plist>")
	plist, res := signedPlist, signedRes
	tampered := vhConcretize(vhInt("altered-file", 0, 2), 3) // 0 none, 1 Info.plist, 2 resource manifest
	if tampered == 1 {
		plist = []byte("<plist>ALTERED</plist>")
	} else if tampered == 2 {
		res = []byte("<plist>ALTERED</plist>")
	}
	fat := vhBool("universal-binary")
	vhStub("debug/macho.NewFatFile", func(r io.ReaderAt) (*macho.FatFile, error) {
		if !fat {
			return nil, macho.ErrNotFat
		}
		return &macho.FatFile{Arches: []macho.FatArch{{FatArchHeader: macho.FatArchHeader{Cpu: macho.CpuAmd64, Offset: 0, Size: 4}}, {FatArchHeader: macho.FatArchHeader{Cpu: macho.CpuArm64, Offset: 4, Size: 4}}}}, nil
	})
	slices := 0
	vhStub("github.com/sassoftware/relic/v8/signers/macho.verifyMacho", func(r io.ReaderAt, infoPlist, resources []byte, opts signers.VerifyOpts) (*signers.Signature, error) {
		slices++
		if infoPlist != nil && !bytes.Equal(infoPlist, signedPlist) {
			return nil, errors.New("info_plist: digest mismatch")
		}
		if resources != nil && !bytes.Equal(resources, signedRes) {
			return nil, errors.New("resources: digest mismatch")
		}
		return &signers.Signature{}, nil
	})
	sigs, err := verifyFat(bytes.NewReader(make([]byte, 8)), plist, res, signers.VerifyOpts{})
	vhReach("decided") // vh:require decided
	if tampered == 0 {
		want := 1
		if fat {
			want = 2
		}
		vhAssert(err == nil && len(sigs) == want && slices == want, "every-slice-verified")
	} else {
		vhAssert(err != nil, "altered-bundle-file-rejected-for-thin-and-fat-executables")
		vhReach("rejected") // vh:require rejected
	}
}
