//go:build verif

package macho

import (
	"archive/tar"
	"bytes"
	"io"
	"os"
)

// H09.macho-transform: the Mach-O upload stream (tar: side files, then the
// binary as "exec") is the same on every attempt, and its last member is the
// complete file - also when an earlier attempt left the file offset anywhere.
func VH_C09_MachoTransformRepeatable() {
	vhMaxLen(8192)
	vhLoopBound(1100)
	n := vhConcretize(vhInt("filelen", 0, 3), 4)
	data := vhBytes("file", n)
	p := vhFSPath("a.out")
	vhFSPut(p, data)
	f, err := os.Open(p)
	if err != nil {
		return
	}
	t := &transformer{f: f, files: []tarFile{{Name: "entitlements", Data: vhBytes("side-file", 1)}}}
	var a, b bytes.Buffer
	vhAssert(t.send(&a) == nil, "first-attempt")
	// a failed attempt may stop anywhere
	f.Seek(int64(vhConcretize(vhInt("offset-left-behind", 0, 3), 4)), 0)
	vhAssert(t.send(&b) == nil, "second-attempt")
	vhAssert(bytes.Equal(a.Bytes(), b.Bytes()), "attempts-send-identical-streams")
	tr := tar.NewReader(&b)
	var last []byte
	var lastName string
	for {
		h, err := tr.Next()
		if err != nil {
			break
		}
		lastName = h.Name
		last, _ = io.ReadAll(tr)
	}
	vhAssert(lastName == "exec" && bytes.Equal(last, data), "binary-member-is-the-whole-file")
	vhReach("sent") // vh:require sent
}

// the same through the goroutine-and-pipe wrapper the client actually calls
// (the goroutine is run when the reader would block: one schedule)
func VH_C09_MachoGetReaderRepeatable() {
	vhMaxLen(8192)
	vhLoopBound(1100)
	data := vhBytes("file", 3)
	p := vhFSPath("a.out")
	vhFSPut(p, data)
	f, err := os.Open(p)
	if err != nil {
		return
	}
	t := &transformer{f: f}
	r1, err := t.GetReader()
	vhAssert(err == nil, "first-reader")
	first, err := io.ReadAll(r1)
	vhAssert(err == nil, "first-upload-complete")
	r2, err := t.GetReader()
	vhAssert(err == nil, "second-reader")
	second, err := io.ReadAll(r2)
	vhAssert(err == nil && bytes.Equal(first, second) && len(first) > 0, "attempts-upload-identical-streams")
	vhReach("sent") // vh:require sent
}
