//go:build verif

package pgp

import (
	"bytes"
	"io"
	"net/url"
	"os"

	"github.com/sassoftware/relic/v8/signers"
)

// H09.pgp-transform: the PGP signer's client-side transform hands out the
// complete file on every GetReader call, also after an earlier upload attempt
// consumed part or all of the stream (retry / failover), for every flag
// combination that selects the output style.
func VH_C09_PgpTransformRepeatable() {
	n := vhConcretize(vhInt("filelen", 0, 3), 4)
	data := vhBytes("file", n)
	p := vhFSPath("Release")
	vhFSPut(p, data)
	f, err := os.Open(p)
	if err != nil {
		return
	}
	q := url.Values{}
	if vhBool("armor") {
		q.Set("armor", "true")
	}
	if vhBool("inline") {
		q.Set("inline", "true")
	}
	if vhBool("clearsign") {
		q.Set("clearsign", "true")
	}
	flags, err := PgpSigner.FlagsFromQuery(q)
	vhAssert(err == nil, "flags-parse")
	if err != nil {
		return
	}
	tr, err := transform(f, signers.SignOpts{Path: p, Flags: flags})
	vhAssert(err == nil, "transform-available")
	if err != nil {
		return
	}
	r1, err := tr.GetReader()
	vhAssert(err == nil, "first-reader")
	consumed := vhConcretize(vhInt("first-attempt-consumed", 0, 4), 5)
	buf := make([]byte, consumed)
	io.ReadFull(r1, buf)
	r2, err := tr.GetReader()
	vhAssert(err == nil, "second-reader")
	if err != nil {
		return
	}
	got, err := io.ReadAll(r2)
	vhAssert(err == nil && bytes.Equal(got, data), "second-upload-is-the-whole-file")
	vhReach("reread") // vh:require reread
}
