//go:build verif

package signers

import (
	"errors"
	"io"
	"os"

	"github.com/sassoftware/relic/v8/lib/pgptools"
	"github.com/sassoftware/relic/v8/signers/sigerrors"
)

// H08.probe: the is-signed probe answers false exactly for "not signed",
// true for a verifiable signature and for one whose key is merely unknown,
// and passes every other verifier error on instead of guessing; it asks the
// verifier to skip digests and chains; a signer without a verifier says so.
// The streaming verifier is preferred when both exist.
func VH_C08_IsSignedProbe() {
	outcome := vhConcretize(vhInt("verifier-outcome", 0, 3), 4)
	has := vhConcretize(vhInt("verifiers-present", 0, 3), 4) // bit 0: Verify, bit 1: VerifyStream
	var gotOpts []VerifyOpts
	var used []string
	result := func() error {
		switch outcome {
		case 1:
			return sigerrors.NotSignedError{Type: "x"}
		case 2:
			return pgptools.ErrNoKey(7)
		case 3:
			return errors.New("malformed")
		}
		return nil
	}
	s := &Signer{Name: "fake08"}
	if has&1 != 0 {
		s.Verify = func(f *os.File, o VerifyOpts) ([]*Signature, error) {
			gotOpts, used = append(gotOpts, o), append(used, "file")
			return nil, result()
		}
	}
	if has&2 != 0 {
		s.VerifyStream = func(r io.Reader, o VerifyOpts) ([]*Signature, error) {
			gotOpts, used = append(gotOpts, o), append(used, "stream")
			return nil, result()
		}
	}
	signed, err := s.IsSigned(nil)
	vhReach("probed") // vh:require probed
	if has == 0 {
		vhAssert(err != nil && !signed, "no-verifier-is-an-error")
		return
	}
	vhAssert(len(used) == 1 && gotOpts[0].NoDigests && gotOpts[0].NoChain, "one-cheap-verification")
	if has&2 != 0 {
		vhAssert(used[0] == "stream", "streaming-verifier-preferred")
	}
	switch outcome {
	case 0, 2:
		vhAssert(signed && err == nil, "signed-or-unknown-key-means-signed")
	case 1:
		vhAssert(!signed && err == nil, "not-signed-means-false-without-error")
	case 3:
		vhAssert(!signed && err != nil, "other-errors-passed-on")
	}
}
