//go:build verif

package token

import (
	"bytes"
	"context"
	"crypto"
	"errors"
	"io"
	"os"

	"github.com/spf13/pflag"

	"github.com/sassoftware/relic/v8/lib/audit"
	"github.com/sassoftware/relic/v8/lib/binpatch"
	"github.com/sassoftware/relic/v8/lib/certloader"
	"github.com/sassoftware/relic/v8/signers"
	tokenpkg "github.com/sassoftware/relic/v8/token"
)

// H06.standalone / H01.standalone / H08.standalone: the `relic sign` command
// itself (digest-then-patch pipeline: transform -> Sign -> Apply -> audit),
// with the key store, the certificate loader, the audit sinks and the format
// module replaced by stubs (the module signs whatever stream it is given and
// answers with a binary patch or a whole-file replacement). For a file with
// symbolic content, in-place or to another path, already "signed" or not,
// with and without --if-unsigned, with and without a post-signing fixup step,
// signing, fixup and the audit sink each allowed to fail: the module is handed exactly the file's bytes; on success the output
// holds exactly what the module's answer prescribes, and exactly one audit
// record was published, after the output was in place; if the audit sink
// fails the command fails; a signing failure publishes nothing and leaves
// the input as it was; --if-unsigned on a signed file changes nothing and
// publishes nothing.
func VH_C06_StandaloneSignAudit() {
	// vh:stubbed
	vhMaxLen(4096)
	vhLoopBound(600)
	data := vhBytes("file", 3)
	in := vhFSPath("pkg.bin")
	vhFSPut(in, data)
	out := in
	if vhBool("output-elsewhere") {
		out = vhFSPath("signed.bin")
	}
	alreadySigned := vhBool("already-signed")
	signFails := vhBool("token-fails")
	auditFails := vhBool("audit-sink-fails")
	patchAnswer := vhBool("module-answers-with-a-patch")
	sigBlob := vhBytes("signature", 2)

	var failed error
	vhStub("github.com/sassoftware/relic/v8/cmdline/shared.Fail", func(err error) error {
		if err != nil && failed == nil {
			failed = err
		}
		return err
	})
	var signedOver []byte
	signCalls, published, outputAtPublish := 0, 0, false
	mod := &signers.Signer{Name: "fake"}
	mod.Sign = func(r io.Reader, cert *certloader.Certificate, opts signers.SignOpts) ([]byte, error) {
		signCalls++
		signedOver, _ = io.ReadAll(r)
		if signFails {
			return nil, errors.New("token says no")
		}
		if patchAnswer {
			p := binpatch.New()
			p.Add(int64(len(signedOver)), 0, sigBlob) // append the signature
			return opts.SetBinPatch(p)
		}
		return append(append([]byte{}, signedOver...), sigBlob...), nil
	}
	mod.Verify = func(f *os.File, opts signers.VerifyOpts) ([]*signers.Signature, error) {
		if alreadySigned {
			return nil, nil
		}
		return nil, vhNotSigned()
	}
	fixups := 0
	fixupFails := false
	if vhBool("module-has-a-fixup-step") {
		fixupFails = vhBool("fixup-fails")
		mod.Fixup = func(f *os.File) error {
			fixups++
			if fixupFails {
				return errors.New("checksum fixup failed")
			}
			return nil
		}
	}
	vhStub("github.com/sassoftware/relic/v8/signers.ByFile", func(name, sigtype string) (*signers.Signer, error) { return mod, nil })
	vhStub("(*github.com/sassoftware/relic/v8/signers.Signer).FlagsFromCmdline", func(s *signers.Signer, fs *pflag.FlagSet) (*signers.FlagValues, error) {
		return nil, nil
	})
	vhStub("github.com/sassoftware/relic/v8/cmdline/shared.GetDigest", func() (crypto.Hash, error) { return crypto.SHA256, nil })
	vhStub("github.com/sassoftware/relic/v8/cmdline/token.openTokenByKey", func(keyName string) (tokenpkg.Token, error) { return nil, nil })
	var record *audit.Info
	vhStub("github.com/sassoftware/relic/v8/internal/signinit.Init", func(ctx context.Context, m *signers.Signer, tok tokenpkg.Token, keyName string, hash crypto.Hash, flags *signers.FlagValues) (*certloader.Certificate, *signers.SignOpts, error) {
		record = &audit.Info{Attributes: map[string]interface{}{"sig.keyname": keyName, "sig.type": m.Name}}
		return &certloader.Certificate{}, &signers.SignOpts{Hash: hash, Audit: record}, nil
	})
	vhStub("github.com/sassoftware/relic/v8/internal/signinit.PublishAudit", func(info *audit.Info) error {
		published++
		vhAssert(info == record, "the-record-published-is-the-one-prepared-for-this-operation")
		got, ok := vhFSGet(out)
		outputAtPublish = ok && len(got) == len(data)+len(sigBlob)
		if auditFails {
			return errors.New("audit sink down")
		}
		return nil
	})
	argFile, argKeyName, argOutput, argSigType = in, "k1", out, ""
	if out == in {
		argOutput = ""
	}
	argIfUnsigned = vhBool("if-unsigned")
	err := signCmd(SignCmd, nil)
	if failed != nil && err == nil {
		err = failed
	}
	vhReach("returned") // vh:require returned
	want := append(append([]byte{}, data...), sigBlob...)
	final, _ := vhFSGet(out)
	orig, _ := vhFSGet(in)
	switch {
	case argIfUnsigned && alreadySigned:
		vhAssert(err == nil && signCalls == 0 && published == 0, "already-signed-file-skipped-without-signing-or-audit")
		vhAssert(bytes.Equal(orig, data), "skipped-file-untouched")
		vhReach("skipped") // vh:require skipped
	case signFails:
		vhAssert(err != nil && published == 0, "failed-signing-publishes-nothing")
		vhAssert(bytes.Equal(orig, data), "failed-signing-leaves-the-input")
	case fixupFails:
		vhAssert(err != nil && published == 0 && fixups == 1, "failed-fixup-fails-the-command-before-the-audit")
	default:
		vhAssert(mod.Fixup == nil || fixups == 1, "fixup-step-runs-once-on-the-output")
		vhAssert(signCalls == 1 && bytes.Equal(signedOver, data), "module-is-handed-exactly-the-file")
		vhAssert(published == 1 && outputAtPublish, "one-audit-record-after-the-output-is-in-place")
		vhAssert((err != nil) == auditFails, "audit-sink-failure-fails-the-command")
		vhAssert(bytes.Equal(final, want), "output-is-what-the-module-prescribed")
		if out != in {
			vhAssert(bytes.Equal(orig, data), "input-kept-when-writing-elsewhere")
		}
		vhReach("signed") // vh:require signed
	}
}

func VH_C01_StandaloneSignPipeline()  { VH_C06_StandaloneSignAudit() }
func VH_C08_StandaloneIfUnsigned()    { VH_C06_StandaloneSignAudit() }
