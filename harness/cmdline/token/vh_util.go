//go:build verif

package token

import "github.com/sassoftware/relic/v8/signers/sigerrors"

func vhNotSigned() error { return sigerrors.NotSignedError{Type: "fake"} }
