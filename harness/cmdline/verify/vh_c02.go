//go:build verif

package verify

import (
	"crypto/x509"
	"errors"
	"os"

	"github.com/sassoftware/relic/v8/lib/magic"
	"github.com/sassoftware/relic/v8/lib/pkcs7"
	"github.com/sassoftware/relic/v8/lib/pkcs9"
	"github.com/sassoftware/relic/v8/signers"
)

// H02.command: what `relic verify <file>` reports, given the outcome of the
// format module's verifier and of the certificate chain check (both stubs
// returning arbitrary outcomes; file opening, type detection on the os model
// and the command's own decisions are the real code). The file is reported
// as verified (nil) only if the module verified it AND, unless the user asked
// for --no-trust-chain, the chain check of EVERY returned signature passed;
// the module is told to skip digests only if --no-integrity-check was given;
// an unrecognised file type is an error.
func VH_C02_VerifyCommandVerdict() {
	// vh:stubbed
	vhMaxLen(8192)
	vhLoopBound(9000)
	p := vhFSPath("pkg.bin")
	vhFSPut(p, []byte{0xed, 0xab, 0xee, 0xdb, 3, 0, 0, 0}) // an RPM lead: recognised by magic
	known := vhBool("type-has-a-module")
	moduleFails := vhBool("module-rejects")
	nsigs := vhConcretize(vhInt("signatures", 1, 2), 3)
	chainFails := []bool{vhBool("first-chain-fails"), vhBool("second-chain-fails")}
	noChain := vhBool("no-trust-chain")
	noDigests := vhBool("no-integrity-check")
	sawNoDigests, verified, chains := false, 0, 0
	mod := &signers.Signer{Name: "fake"}
	mod.Verify = func(f *os.File, opts signers.VerifyOpts) ([]*signers.Signature, error) {
		verified++
		sawNoDigests = opts.NoDigests
		if moduleFails {
			return nil, errors.New("digest mismatch")
		}
		var out []*signers.Signature
		for i := 0; i < nsigs; i++ {
			ts := &pkcs9.TimestampedSignature{Signature: pkcs7.Signature{Certificate: &x509.Certificate{Raw: []byte{byte(i)}}}}
			out = append(out, &signers.Signature{Signer: "someone", X509Signature: ts})
		}
		return out, nil
	}
	vhStub("github.com/sassoftware/relic/v8/signers.ByMagic", func(m magic.FileType) *signers.Signer {
		if known && m == magic.FileTypeRPM {
			return mod
		}
		return nil
	})
	vhStub("github.com/sassoftware/relic/v8/signers.ByFileName", func(name string) *signers.Signer { return nil })
	vhStub("(github.com/sassoftware/relic/v8/lib/pkcs9.TimestampedSignature).VerifyChain", func(sig pkcs9.TimestampedSignature, roots *x509.CertPool, extra []*x509.Certificate, usage x509.ExtKeyUsage) error {
		chains++
		if chainFails[int(sig.Certificate.Raw[0])] {
			return errors.New("x509: certificate signed by unknown authority")
		}
		return nil
	})
	err := verifyOne(p, signers.VerifyOpts{NoChain: noChain, NoDigests: noDigests})
	vhReach("decided") // vh:require decided
	if !known {
		vhAssert(err != nil && verified == 0, "unknown-type-is-an-error")
		return
	}
	vhAssert(verified == 1 && sawNoDigests == noDigests, "module-checks-digests-unless-told-not-to")
	anyChainFails := chainFails[0] || (nsigs == 2 && chainFails[1])
	good := !moduleFails && (noChain || !anyChainFails)
	vhAssert((err == nil) == good, "verified-iff-module-and-every-chain-accept")
	if noChain {
		vhAssert(chains == 0, "chain-not-consulted-when-waived")
	}
	if err == nil {
		vhReach("verified") // vh:require verified
	} else {
		vhReach("rejected") // vh:require rejected
	}
}
