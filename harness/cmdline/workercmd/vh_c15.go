//go:build verif

package workercmd

import (
	"bytes"
	"context"
	"crypto"
	"crypto/x509"
	"encoding/json"
	"errors"
	"io"
	"net/http"
	"net/url"
	"time"

	"github.com/sassoftware/relic/v8/config"
	"github.com/sassoftware/relic/v8/internal/workerrpc"
	"github.com/sassoftware/relic/v8/token"
	"github.com/sassoftware/relic/v8/token/tokencache"
)

type vhKey struct {
	tok *vhTok
}

func (k *vhKey) Public() crypto.PublicKey { return nil }
func (k *vhKey) Sign(r io.Reader, d []byte, o crypto.SignerOpts) ([]byte, error) {
	return nil, errors.New("n/a")
}
func (k *vhKey) SignContext(ctx context.Context, d []byte, o crypto.SignerOpts) ([]byte, error) {
	k.tok.signs++
	k.tok.signedDigest = d
	if k.tok.signErr != nil {
		return nil, k.tok.signErr
	}
	return []byte{0x51, 0x9}, nil
}
func (k *vhKey) Config() *config.KeyConfig                      { return nil }
func (k *vhKey) Certificate() []byte                            { return []byte{0xce} }
func (k *vhKey) GetID() []byte                                  { return []byte{0x1d} }
func (k *vhKey) ImportCertificate(cert *x509.Certificate) error { return nil }

type vhTok struct {
	calls, signs int
	getErr       error
	signErr      error
	sawKeyID     []byte
	sawName      string
	signedDigest []byte
}

func (t *vhTok) Close() error                   { return nil }
func (t *vhTok) Ping(ctx context.Context) error { t.calls++; return t.getErr }
func (t *vhTok) Config() *config.TokenConfig    { return nil }
func (t *vhTok) GetKey(ctx context.Context, keyName string) (token.Key, error) {
	t.calls++
	t.sawKeyID = token.KeyID(ctx)
	t.sawName = keyName
	if t.getErr != nil {
		return nil, t.getErr
	}
	return &vhKey{tok: t}, nil
}
func (t *vhTok) Import(keyName string, privKey crypto.PrivateKey) (token.Key, error) {
	return nil, errors.New("n/a")
}
func (t *vhTok) ImportCertificate(cert *x509.Certificate, labelBase string) error { return nil }
func (t *vhTok) Generate(keyName string, keyType token.KeyType, bits uint) (token.Key, error) {
	return nil, errors.New("n/a")
}
func (t *vhTok) ListKeys(opts token.ListOptions) error { return nil }

type vhRW struct {
	hdr    http.Header
	status int
	body   bytes.Buffer
}

func (w *vhRW) Header() http.Header { return w.hdr }
func (w *vhRW) WriteHeader(c int) {
	if w.status == 0 {
		w.status = c
	}
}
func (w *vhRW) Write(p []byte) (int, error) {
	if w.status == 0 {
		w.status = 200
	}
	return w.body.Write(p)
}

// H15.worker: the worker process' request handler. A request whose
// Auth-Cookie differs from the per-process secret in any byte or in length
// (or is absent) gets 403 and the token is not touched. With the right
// secret: a pinned key identifier reaches the backend with the request's
// context, the digest handed to the key is the request's, a key-usage error
// comes back classified (not retryable, Usage set, key named), a
// not-implemented error is not retryable, any other failure is retryable,
// and Err is empty exactly when the operation succeeded.
func VH_C15_WorkerHandler() {
	secret := vhBytes("secret", 2)
	tok := &vhTok{}
	h := &handler{token: tokencache.New(tok, time.Duration(0)), cookie: secret, shutdown: func() {}}

	hdr := http.Header{}
	present := vhBool("cookie-present")
	var sent []byte
	if present {
		sent = vhBytes("sent-cookie", vhConcretize(vhInt("sent-len", 0, 3), 4))
		hdr["Auth-Cookie"] = []string{string(sent)}
	}
	op := vhConcretize(vhInt("op", 0, 2), 3)
	path := []string{workerrpc.Ping, workerrpc.GetKey, workerrpc.Sign}[op]
	pin := vhBool("key-id-pinned")
	rr := workerrpc.Request{KeyName: "k", Digest: []byte{0xd1}, Hash: uint(crypto.SHA256)}
	if pin {
		rr.KeyID = []byte{0x77}
	}
	blob, _ := json.Marshal(rr)
	switch vhConcretize(vhInt("backend-outcome", 0, 3), 4) {
	case 1:
		tok.getErr = errors.New("transient")
	case 2:
		tok.getErr = token.KeyUsageError{Key: "k", Err: errors.New("bad pin")}
	case 3:
		tok.getErr = token.NotImplementedError{Op: "x", Type: "y"}
	}
	if vhBool("sign-fails") {
		tok.signErr = errors.New("sign failed")
	}
	req := &http.Request{Method: "POST", URL: &url.URL{Path: path}, Header: hdr, Body: io.NopCloser(bytes.NewReader(blob))}
	req = req.WithContext(context.Background())
	rw := &vhRW{hdr: http.Header{}}
	h.ServeHTTP(rw, req)

	if !present || !bytes.Equal(sent, secret) {
		vhReach("refused") // vh:require refused
		vhAssert(rw.status == http.StatusForbidden, "wrong-or-missing-secret-gets-403")
		vhAssert(tok.calls == 0 && tok.signs == 0, "token-untouched-without-the-secret")
		vhAssert(rw.body.Len() == 0, "nothing-disclosed-without-the-secret")
		return
	}
	vhReach("authenticated") // vh:require authenticated
	vhAssert(rw.status == 200, "answered")
	var resp workerrpc.Response
	err := json.Unmarshal(rw.body.Bytes(), &resp)
	vhAssert(err == nil, "reply-is-a-response-object")
	if err != nil {
		return
	}
	// the fake key has no public key, so a GetKey request always ends in a
	// marshalling error after the backend call: an "other" failure
	failed := tok.getErr != nil || (op == 2 && tok.signErr != nil) || op == 1
	vhAssert((resp.Err == "") == !failed, "success-reported-only-when-the-operation-succeeded")
	if op >= 1 {
		vhAssert(tok.sawName == "k", "requested-key-name-reaches-the-backend")
		if pin {
			vhAssert(bytes.Equal(tok.sawKeyID, []byte{0x77}), "pinned-key-id-reaches-the-backend")
		} else {
			vhAssert(len(tok.sawKeyID) == 0, "no-key-id-invented")
		}
	}
	if failed {
		switch tok.getErr.(type) {
		case token.KeyUsageError:
			vhAssert(!resp.Retryable && resp.Usage && resp.Key == "k" && resp.Err == "bad pin", "key-usage-error-classified")
		case token.NotImplementedError:
			vhAssert(!resp.Retryable && !resp.Usage, "not-implemented-is-permanent")
		default:
			vhAssert(resp.Retryable && !resp.Usage, "other-failures-are-retryable")
		}
		vhAssert(len(resp.Value) == 0, "no-signature-on-failure")
	} else if op == 2 {
		vhAssert(tok.signs == 1 && bytes.Equal(tok.signedDigest, []byte{0xd1}), "request-digest-is-what-gets-signed")
		vhAssert(bytes.Equal(resp.Value, []byte{0x51, 0x9}), "signature-returned")
	}
}
