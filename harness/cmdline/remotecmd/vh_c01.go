//go:build verif

package remotecmd

import (
	"bytes"
	"crypto"
	"errors"
	"io"
	"net/http"
	"net/url"
	"os"

	"github.com/spf13/pflag"

	"github.com/sassoftware/relic/v8/lib/audit"
	"github.com/sassoftware/relic/v8/lib/binpatch"
	"github.com/sassoftware/relic/v8/lib/certloader"
	"github.com/sassoftware/relic/v8/signers"
	"github.com/sassoftware/relic/v8/signers/sigerrors"
)

// H01.remote / H09.remote / H08.remote: the `relic remote sign` command
// (transform -> upload -> server signs the stream -> Apply), with the HTTP
// exchange replaced by a stub that plays the server: it reads the upload the
// client produces, runs the (stub) format module on exactly those bytes and
// answers with the module's blob under the module's content type. For a file
// with symbolic content, in place or to another path, already "signed" or
// not, with and without --if-unsigned, server failure allowed: the server
// sees exactly the file's bytes and the key, base file name and signature
// type the user named; on success the output is what the module prescribed
// (the same as the standalone command produces: VH_C06_StandaloneSignAudit);
// a server failure leaves the input as it was; --if-unsigned on a signed
// file uploads nothing and changes nothing.
func VH_C01_RemoteSignPipeline() {
	// vh:stubbed
	vhMaxLen(4096)
	vhLoopBound(600)
	data := vhBytes("file", 3)
	in := vhFSPath("dir/pkg.bin")
	vhFSPut(in, data)
	out := in
	if vhBool("output-elsewhere") {
		out = vhFSPath("signed.bin")
	}
	alreadySigned := vhBool("already-signed")
	serverFails := vhBool("server-fails")
	patchAnswer := vhBool("module-answers-with-a-patch")
	sigBlob := vhBytes("signature", 2)
	var failed error
	vhStub("github.com/sassoftware/relic/v8/cmdline/shared.Fail", func(err error) error {
		if err != nil && failed == nil {
			failed = err
		}
		return err
	})
	mod := &signers.Signer{Name: "fake"}
	mod.Sign = func(r io.Reader, cert *certloader.Certificate, opts signers.SignOpts) ([]byte, error) {
		body, _ := io.ReadAll(r)
		if patchAnswer {
			p := binpatch.New()
			p.Add(int64(len(body)), 0, sigBlob)
			return opts.SetBinPatch(p)
		}
		return append(append([]byte{}, body...), sigBlob...), nil
	}
	mod.Verify = func(f *os.File, opts signers.VerifyOpts) ([]*signers.Signature, error) {
		if alreadySigned {
			return nil, nil
		}
		return nil, sigerrors.NotSignedError{Type: "fake"}
	}
	vhStub("github.com/sassoftware/relic/v8/signers.ByFile", func(name, sigtype string) (*signers.Signer, error) { return mod, nil })
	vhStub("(*github.com/sassoftware/relic/v8/signers.Signer).FlagsFromCmdline", func(s *signers.Signer, fs *pflag.FlagSet) (*signers.FlagValues, error) {
		return &signers.FlagValues{Values: map[string]string{}}, nil
	})
	vhStub("github.com/sassoftware/relic/v8/cmdline/shared.GetDigest", func() (crypto.Hash, error) { return crypto.SHA256, nil })
	uploads := 0
	var uploaded []byte
	var query url.Values
	vhStub("github.com/sassoftware/relic/v8/cmdline/remotecmd.CallRemote", func(endpoint, method string, q *url.Values, body ReaderGetter) (*http.Response, error) {
		uploads++
		query = *q
		r, err := body.GetReader()
		vhAssert(err == nil, "upload-stream-opens")
		uploaded, _ = io.ReadAll(r)
		if serverFails {
			return nil, errors.New("HTTP 500")
		}
		// the server: the module signs the uploaded stream
		opts := signers.SignOpts{Hash: crypto.SHA256, Audit: &audit.Info{Attributes: map[string]interface{}{}}}
		blob, err := mod.Sign(bytes.NewReader(uploaded), nil, opts)
		vhAssert(err == nil, "server-side-signing-succeeds")
		resp := &http.Response{StatusCode: 200, Header: http.Header{}, Body: io.NopCloser(bytes.NewReader(blob))}
		resp.Header.Set("Content-Type", opts.Audit.GetMimeType())
		return resp, nil
	})
	argFile, argKeyName, argOutput, argSigType = in, "k1", out, ""
	if out == in {
		argOutput = ""
	}
	argIfUnsigned = vhBool("if-unsigned")
	err := signCmd(SignCmd, nil)
	if failed != nil && err == nil {
		err = failed
	}
	vhReach("returned") // vh:require returned
	want := append(append([]byte{}, data...), sigBlob...)
	final, _ := vhFSGet(out)
	orig, _ := vhFSGet(in)
	switch {
	case argIfUnsigned && alreadySigned:
		vhAssert(err == nil && uploads == 0, "already-signed-file-skipped-without-upload")
		vhAssert(bytes.Equal(orig, data), "skipped-file-untouched")
		vhReach("skipped") // vh:require skipped
	case serverFails:
		vhAssert(err != nil && uploads == 1, "server-failure-fails-the-command")
		vhAssert(bytes.Equal(orig, data), "failed-signing-leaves-the-input")
	default:
		vhAssert(err == nil && uploads == 1 && bytes.Equal(uploaded, data), "server-is-handed-exactly-the-file")
		vhAssert(query.Get("key") == "k1" && query.Get("filename") == "pkg.bin" && query.Get("sigtype") == "fake", "request-names-key-file-and-type")
		vhAssert(bytes.Equal(final, want), "output-is-what-the-module-prescribed")
		if out != in {
			vhAssert(bytes.Equal(orig, data), "input-kept-when-writing-elsewhere")
		}
		vhReach("signed") // vh:require signed
	}
}

func VH_C09_RemoteUploadIsTheFile()   { VH_C01_RemoteSignPipeline() }
func VH_C08_RemoteIfUnsigned()        { VH_C01_RemoteSignPipeline() }
