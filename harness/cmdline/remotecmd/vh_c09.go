//go:build verif

package remotecmd

import (
	"bytes"
	"io"
	"net/http"
	"os"
	"syscall"

	"github.com/sassoftware/relic/v8/cmdline/shared"
	"github.com/sassoftware/relic/v8/config"
)

// a transform-like body source: a fresh complete stream per call
type vhBodySource struct {
	data  []byte
	calls int
}

func (b *vhBodySource) GetReader() (io.Reader, error) {
	b.calls++
	return bytes.NewReader(b.data), nil
}

type vhServers struct {
	outcomes []int
	hosts    []string
	bodies   [][]byte
}

const (
	sOK = iota
	sBusy503
	sRefused
	sBad400
	sCount
)

func (s *vhServers) RoundTrip(req *http.Request) (*http.Response, error) {
	o := vhConcretize(vhInt("server-outcome", 0, sCount-1), sCount)
	s.outcomes = append(s.outcomes, o)
	s.hosts = append(s.hosts, req.URL.Host)
	var got []byte
	if req.Body != nil {
		got, _ = io.ReadAll(req.Body)
	}
	s.bodies = append(s.bodies, got)
	resp := &http.Response{StatusCode: 200, Status: "200 OK", Header: http.Header{}, Request: req, Body: io.NopCloser(bytes.NewReader([]byte("sig")))}
	switch o {
	case sBusy503:
		resp.StatusCode, resp.Status = 503, "503 Service Unavailable"
	case sBad400:
		resp.StatusCode, resp.Status = 400, "400 Bad Request"
	case sRefused:
		return nil, &os.SyscallError{Syscall: "connect", Err: syscall.ECONNREFUSED}
	}
	return resp, nil
}

// H09.failover: the remote client's request loop. Servers are tried in the
// order the directory listed them (the list repeated to reach the configured
// number of attempts); after a transient failure (503, connection refused)
// the next one is tried and receives the complete upload again, byte for
// byte, from a fresh read of the transform; a permanent failure (400) ends
// the operation at once; success returns that server's response. Per-attempt
// outcomes are symbolic; the upload is symbolic; no compression negotiated.
func VH_C09_RemoteFailover() {
	nbases := vhConcretize(vhInt("servers", 1, 2), 3)
	retries := vhConcretize(vhInt("configured-attempts", 1, 3), 4)
	shared.CurrentConfig = &config.Config{Remote: &config.RemoteConfig{Retries: retries}}
	bases := []string{"https://s0.example/", "https://s1.example/"}[:nbases]
	tr := &vhServers{}
	cli := &client{config: shared.CurrentConfig.Remote, cli: &http.Client{Transport: tr}}
	body := &vhBodySource{data: vhBytes("upload", 3)}
	resp, err := cli.doRequest(bases, "sign", "POST", "", nil, body)
	vhReach("returned") // vh:require returned
	n := len(tr.outcomes)
	limit := nbases
	for limit < retries {
		limit += nbases
	}
	vhAssert(n >= 1 && n <= limit, "attempts-within-the-repeated-server-list")
	vhAssert(body.calls == n, "transform-read-afresh-for-every-attempt")
	for i := 0; i < n; i++ {
		vhAssert(tr.hosts[i] == []string{"s0.example", "s1.example"}[i%nbases], "servers-tried-in-directory-order")
		vhAssert(bytes.Equal(tr.bodies[i], body.data), "every-attempt-uploads-the-complete-stream")
		if i < n-1 {
			vhAssert(tr.outcomes[i] == sBusy503 || tr.outcomes[i] == sRefused, "next-server-only-after-a-transient-failure")
		}
	}
	last := tr.outcomes[n-1]
	if err == nil {
		vhReach("signed") // vh:require signed
		vhAssert(last == sOK && resp != nil && resp.StatusCode == 200, "success-is-the-last-servers-response")
	} else {
		vhAssert(last != sOK, "a-successful-attempt-is-not-reported-as-failure")
		if last == sBusy503 || last == sRefused {
			vhAssert(n == limit, "transient-failures-exhaust-the-list-before-giving-up")
		}
	}
}
