//go:build verif

package worker

import (
	"bytes"
	"context"
	"crypto"
	"encoding/json"
	"io"
	"net/http"

	"github.com/sassoftware/relic/v8/config"
	"github.com/sassoftware/relic/v8/internal/workerrpc"
)

type vhRecTransport struct {
	failFirst int
	seen      []workerrpc.Request
	cookies   []string
	paths     []string
}

func (t *vhRecTransport) RoundTrip(req *http.Request) (*http.Response, error) {
	t.cookies = append(t.cookies, req.Header.Get("Auth-Cookie"))
	t.paths = append(t.paths, req.URL.Path)
	var rr workerrpc.Request
	if req.Body != nil {
		blob, _ := io.ReadAll(req.Body)
		json.Unmarshal(blob, &rr)
	}
	t.seen = append(t.seen, rr)
	resp := &http.Response{StatusCode: 200, Status: "200 OK", Header: http.Header{}, Request: req}
	out := workerrpc.Response{Value: []byte{0x51}}
	if len(t.seen) <= t.failFirst {
		out = workerrpc.Response{Err: "token busy", Retryable: true}
	}
	blob, _ := json.Marshal(out)
	resp.Body = io.NopCloser(bytes.NewReader(blob))
	return resp, nil
}

// H15.client: what the server-side stub of a worker key sends. Every attempt
// of a Sign request - the first and each retry after a transient failure -
// goes to the sign endpoint, carries the per-process secret, names the key
// by its configured name, pins the identifier the key object was created
// with, and carries the caller's digest and hash; the value the worker
// returns is what the caller gets.
func VH_C15_WorkerClientRequest() {
	vhTimerBudget(8)
	conf := &config.Config{}
	kc := conf.NewKey("k0")
	kc.Token = "t0"
	t := &WorkerToken{config: conf, tconf: &config.TokenConfig{Retries: 3}, addr: "127.0.0.1:1", cookie: "s3cret"}
	tr := &vhRecTransport{failFirst: vhConcretize(vhInt("transient-failures-first", 0, 2), 3)}
	saved := http.DefaultClient.Transport
	http.DefaultClient.Transport = tr
	defer func() { http.DefaultClient.Transport = saved }()
	id := vhBytes("key-identifier", 2)
	digest := vhBytes("digest", 2)
	k := &workerKey{token: t, kconf: kc, id: id}
	sig, err := k.SignContext(context.Background(), digest, crypto.SHA256)
	vhReach("returned") // vh:require returned
	vhAssert(err == nil && bytes.Equal(sig, []byte{0x51}), "workers-value-returned")
	vhAssert(len(tr.seen) == tr.failFirst+1, "one-attempt-per-transient-failure-plus-the-successful-one")
	for i, rr := range tr.seen {
		vhAssert(tr.cookies[i] == "s3cret", "every-attempt-carries-the-secret")
		vhAssert(tr.paths[i] == workerrpc.Sign, "every-attempt-goes-to-the-sign-endpoint")
		vhAssert(rr.KeyName == "k0" && bytes.Equal(rr.KeyID, id), "every-attempt-pins-the-key-identifier")
		vhAssert(bytes.Equal(rr.Digest, digest) && rr.Hash == uint(crypto.SHA256), "every-attempt-carries-the-digest")
	}
}
