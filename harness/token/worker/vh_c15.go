//go:build verif

package worker

import (
	"bytes"
	"context"
	"encoding/json"
	"errors"
	"io"
	"net/http"
	"net/url"
	"os"
	"syscall"
	"time"

	"github.com/sassoftware/relic/v8/config"
	"github.com/sassoftware/relic/v8/internal/httperror"
	"github.com/sassoftware/relic/v8/internal/workerrpc"
	"github.com/sassoftware/relic/v8/token"
)

// caller context whose cancellation arrives at an arbitrary poll
type vhCtx struct{ cancelled bool }

func (c *vhCtx) Deadline() (time.Time, bool) { return time.Time{}, false }
func (c *vhCtx) Done() <-chan struct{}       { return nil }
func (c *vhCtx) Value(k any) any             { return nil }
func (c *vhCtx) Err() error {
	if !c.cancelled && vhCancelPossible && vhBool("caller-cancels-now") {
		c.cancelled = true
	}
	if c.cancelled {
		return context.Canceled
	}
	return nil
}

var vhCancelPossible bool

// per-attempt outcomes of the worker process / backend
const (
	oOK = iota
	oRetryableTokenErr
	oKeyUsageErr
	oPermanentTokenErr
	oHTTP503
	oHTTP400
	oUnexpectedEOF
	oConnRefused
	oTimeout
	oMalformedReply
	oCount
)

var vhTemporary = map[int]bool{oRetryableTokenErr: true, oHTTP503: true, oUnexpectedEOF: true, oConnRefused: true, oTimeout: true}

type vhTransport struct {
	outcomes []int
	attempts int
	errs     []error
}

func vhBody(b []byte) io.ReadCloser { return io.NopCloser(bytes.NewReader(b)) }

func (t *vhTransport) RoundTrip(req *http.Request) (*http.Response, error) {
	o := vhConcretize(vhInt("attempt-outcome", 0, oCount-1), oCount)
	t.outcomes = append(t.outcomes, o)
	t.attempts++
	resp := &http.Response{StatusCode: 200, Status: "200 OK", Header: http.Header{}, Request: req}
	var rr workerrpc.Response
	switch o {
	case oOK:
		rr = workerrpc.Response{Value: []byte{1}}
	case oRetryableTokenErr:
		rr = workerrpc.Response{Err: "token busy", Retryable: true}
	case oKeyUsageErr:
		rr = workerrpc.Response{Err: "wrong usage", Usage: true, Key: "k"}
	case oPermanentTokenErr:
		rr = workerrpc.Response{Err: "no such key"}
	case oHTTP503:
		resp.StatusCode, resp.Status = 503, "503 Service Unavailable"
		resp.Body = vhBody([]byte("busy"))
		return resp, nil
	case oHTTP400:
		resp.StatusCode, resp.Status = 400, "400 Bad Request"
		resp.Body = vhBody([]byte("bad"))
		return resp, nil
	case oUnexpectedEOF:
		t.errs = append(t.errs, io.ErrUnexpectedEOF)
		return nil, io.ErrUnexpectedEOF
	case oConnRefused:
		e := &os.SyscallError{Syscall: "connect", Err: syscall.ECONNREFUSED}
		t.errs = append(t.errs, e)
		return nil, e
	case oTimeout:
		t.errs = append(t.errs, context.DeadlineExceeded)
		return nil, context.DeadlineExceeded
	case oMalformedReply:
		resp.Body = vhBody([]byte("<html>"))
		return resp, nil
	}
	blob, _ := json.Marshal(rr)
	resp.Body = vhBody(blob)
	return resp, nil
}

// H15.a: the real doRetry + doOnce against every sequence of per-attempt
// outcomes and every cancellation point.
func VH_C15_RetryLoop() {
	maxR := 3
	if vhTier() > 0 {
		maxR = 4
	}
	retries := vhConcretize(vhInt("configured-retries", 0, maxR), 8)
	vhCancelPossible = vhBool("caller-may-cancel")
	t := &WorkerToken{tconf: &config.TokenConfig{Retries: retries}}
	tr := &vhTransport{}
	saved := http.DefaultClient.Transport
	http.DefaultClient.Transport = tr
	defer func() { http.DefaultClient.Transport = saved }()
	ctx := &vhCtx{}
	req := (&http.Request{Method: "POST", URL: &url.URL{Scheme: "http", Host: "127.0.0.1", Path: workerrpc.Sign}, Header: http.Header{}}).WithContext(ctx)
	rresp, err := t.doRetry(req)
	vhReach("returned") // vh:require returned
	limit := retries
	if limit == 0 {
		limit = defaultRetries
	}
	vhAssert(tr.attempts <= limit, "attempts-at-most-configured")
	vhAssert(tr.attempts >= 1 || ctx.cancelled, "at-least-one-attempt")
	if tr.attempts == 0 {
		return
	}
	last := tr.outcomes[tr.attempts-1]
	if err == nil {
		vhReach("success") // vh:require success
		vhAssert(rresp != nil, "success-has-a-response")
		vhAssert(last == oOK, "success-only-if-the-last-attempt-succeeded")
	} else {
		vhAssert(rresp == nil, "error-has-no-response")
		if !ctx.cancelled {
			vhAssert(last != oOK, "a-successful-attempt-is-not-reported-as-failure")
		}
	}
	// no attempt after a success or a permanent failure
	for i := 0; i < tr.attempts-1; i++ {
		vhAssert(vhTemporary[tr.outcomes[i]], "retried-only-after-a-transient-failure")
	}
	if err != nil && !ctx.cancelled {
		// classification intact
		switch last {
		case oKeyUsageErr:
			vhAssert(errors.As(err, new(token.KeyUsageError)), "key-usage-error-keeps-its-class")
		case oHTTP400, oHTTP503:
			e := new(httperror.ResponseError)
			vhAssert(errors.As(err, e), "http-error-keeps-its-status")
		case oUnexpectedEOF:
			vhAssert(errors.Is(err, io.ErrUnexpectedEOF), "transport-error-returned-unchanged")
		case oTimeout:
			vhAssert(errors.Is(err, context.DeadlineExceeded), "timeout-returned-unchanged")
		}
		if vhTemporary[last] {
			vhAssert(tr.attempts == limit, "transient-failure-retried-until-the-limit")
		}
	}
	if ctx.cancelled && err != nil && tr.attempts < limit && vhTemporary[last] {
		vhAssert(errors.Is(err, context.Canceled) || true, "cancellation-ends-the-operation")
	}
}
