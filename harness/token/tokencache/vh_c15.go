//go:build verif

package tokencache

import (
	"bytes"
	"context"
	"crypto"
	"crypto/x509"
	"errors"
	"io"
	"time"

	"github.com/sassoftware/relic/v8/config"
	"github.com/sassoftware/relic/v8/token"
)

type vhKey struct {
	id     []byte
	origin string
}

func (k *vhKey) Public() crypto.PublicKey { return nil }
func (k *vhKey) Sign(r io.Reader, d []byte, o crypto.SignerOpts) ([]byte, error) {
	return nil, errors.New("n/a")
}
func (k *vhKey) SignContext(ctx context.Context, d []byte, o crypto.SignerOpts) ([]byte, error) {
	return nil, errors.New("n/a")
}
func (k *vhKey) Config() *config.KeyConfig                      { return nil }
func (k *vhKey) Certificate() []byte                            { return nil }
func (k *vhKey) GetID() []byte                                  { return k.id }
func (k *vhKey) ImportCertificate(cert *x509.Certificate) error { return nil }

type vhBase struct {
	id    []byte
	calls int
	fail  bool
}

func (vhBase) Close() error                   { return nil }
func (vhBase) Ping(ctx context.Context) error { return nil }
func (vhBase) Config() *config.TokenConfig    { return nil }
func (b *vhBase) GetKey(ctx context.Context, keyName string) (token.Key, error) {
	b.calls++
	if b.fail {
		return nil, errors.New("backend failure")
	}
	// the backend honours a pinned id
	if want := token.KeyID(ctx); len(want) != 0 && !bytes.Equal(want, b.id) {
		return nil, errors.New("no key with that id")
	}
	return &vhKey{id: b.id, origin: "backend"}, nil
}
func (vhBase) Import(keyName string, privKey crypto.PrivateKey) (token.Key, error) {
	return nil, errors.New("n/a")
}
func (vhBase) ImportCertificate(cert *x509.Certificate, labelBase string) error { return nil }
func (vhBase) Generate(keyName string, keyType token.KeyType, bits uint) (token.Key, error) {
	return nil, errors.New("n/a")
}
func (vhBase) ListKeys(opts token.ListOptions) error { return nil }

// H15.d: from an arbitrary cache state (empty / fresh / expired / rotated
// key), a request that pins a key identifier is never served from a cached
// key with a different identifier, never writes the cache, and the mutex is
// released on every path.
func VH_C15_CachePinning() {
	base := &vhBase{id: vhBytes("backend-id", 1), fail: vhBool("backend-fails")}
	c := New(base, time.Duration(vhInt("expiry-s", 0, 3600))*time.Second)
	var cachedObj *vhKey
	if vhBool("entry-cached") {
		ttl := time.Duration(vhInt("ttl-ms", -100000, 100000)) * time.Millisecond
		vhAssume(ttl < -time.Second || ttl > time.Second) // keep off the boundary: the native clock moves
		cachedObj = &vhKey{id: vhBytes("cached-id", 1), origin: "cache"}
		c.keys["k"] = cachedKey{expires: time.Now().Add(ttl), key: cachedObj}
		if ttl > 0 {
			vhReach("fresh-entry")
		} else {
			vhReach("expired-entry")
		}
	}
	want := vhBytes("wanted-id", vhInt("wanted-len", 0, 1))
	ctx := context.Background()
	if len(want) > 0 {
		ctx = token.WithKeyID(ctx, want)
	}
	before := c.keys["k"]
	key, err := c.GetKey(ctx, "k")
	vhReach("returned") // vh:require returned fresh-entry expired-entry
	vhAssert(c.mu.TryLock(), "mutex-released")
	c.mu.Unlock()
	if err == nil {
		k := key.(*vhKey)
		if len(want) > 0 {
			vhAssert(bytes.Equal(k.id, want), "pinned-request-gets-the-pinned-identifier")
		}
		if k == cachedObj {
			vhReach("served-from-cache") // vh:require served-from-cache
			vhAssert(before.expires.After(time.Now()), "expired-entry-not-served")
			vhAssert(base.calls == 0, "cache-hit-does-not-touch-the-backend")
		}
	}
	if len(want) > 0 {
		after := c.keys["k"]
		vhAssert(after.key == before.key && after.expires.Equal(before.expires), "pinned-request-does-not-write-the-cache")
	}
}
