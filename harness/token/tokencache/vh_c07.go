//go:build verif

package tokencache

import (
	"context"
	"crypto"
	"crypto/x509"
	"io"
	"time"

	"github.com/sassoftware/relic/v8/config"
	"github.com/sassoftware/relic/v8/token"
)

type vhCKey struct {
	name string
	id   []byte
}

func (k *vhCKey) Public() crypto.PublicKey { return nil }
func (k *vhCKey) Sign(io.Reader, []byte, crypto.SignerOpts) ([]byte, error) {
	return nil, nil
}
func (k *vhCKey) SignContext(context.Context, []byte, crypto.SignerOpts) ([]byte, error) {
	return nil, nil
}
func (k *vhCKey) Config() *config.KeyConfig                 { return nil }
func (k *vhCKey) Certificate() []byte                       { return nil }
func (k *vhCKey) GetID() []byte                             { return k.id }
func (k *vhCKey) ImportCertificate(*x509.Certificate) error { return nil }

type vhCToken struct {
	token.Token
	calls int
	ids   map[string][]byte
}

func (t *vhCToken) GetKey(ctx context.Context, name string) (token.Key, error) {
	t.calls++
	return &vhCKey{name: name, id: t.ids[name]}, nil
}

// H07.cache: the per-token key cache in front of the HSM. For two key names,
// two look-ups in a row with symbolic choices of name and of a requested key
// ID (none / the ID that key has / another one), a symbolic expiry setting
// and a symbolic amount of time between the look-ups: the key handed back is
// always the key of the NAME asked for; when a particular key ID was asked
// for, a cached key with another ID is never returned (the token is asked
// again); an expired entry is not used.
func VH_C07_KeyCacheReturnsRequestedKey() {
	base := &vhCToken{ids: map[string][]byte{"a": {1}, "b": {2}}}
	expiry := time.Duration(vhConcretize(vhInt("cache-seconds", 0, 2), 3)) * time.Second
	c := New(base, expiry)
	names := []string{"a", "b"}
	for round := 0; round < 2; round++ {
		name := names[vhConcretize(vhInt("key-name", 0, 1), 2)]
		ctx := context.Background()
		var want []byte
		switch vhConcretize(vhInt("requested-key-id", 0, 2), 3) {
		case 1:
			want = base.ids[name]
		case 2:
			want = []byte{9}
		}
		if want != nil {
			ctx = token.WithKeyID(ctx, want)
		}
		before := base.calls
		key, err := c.GetKey(ctx, name)
		vhAssert(err == nil && key != nil, "key-found")
		k := key.(*vhCKey)
		vhAssert(k.name == name, "the-key-of-the-requested-name")
		fromCache := base.calls == before
		if fromCache && want != nil {
			vhAssert(len(k.id) == len(want) && k.id[0] == want[0], "cached-key-has-the-requested-id")
		}
		if fromCache {
			vhAssert(expiry > 0 && round == 1, "cache-used-only-when-enabled-and-filled")
		}
	}
	vhReach("two-lookups") // vh:require two-lookups
}
