//go:build verif

package binpatch

import (
	"bytes"
	"os"
)

// H13.e: patch-by-rewrite (output to another path) killed before any
// file-system step: destination is OLD or the complete patched file, never
// missing if it existed; the input file is unmodified.
func VH_C13_RewriteCrash() {
	n := vhInt("filelen", 0, 3)
	data := vhBytes("file", n)
	inPath := vhFSPath("in.bin")
	outPath := vhFSPath("out.bin")
	vhFSPut(inPath, data)
	existed := vhBool("dest-existed")
	old := vhBytes("old", vhInt("oldlen", 0, 2))
	if existed {
		vhFSPut(outPath, old)
	}
	p, rs := vhBuild(n, 2)
	want := vhSplice(data, rs)
	var err error
	crashed := vhCrashRun(vhInt("crash-step", 0, 12), func() {
		f, e := os.OpenFile(inPath, os.O_RDWR, 0)
		if e != nil {
			err = e
			return
		}
		err = p.Apply(f, outPath)
	})
	got, ok := vhFSGet(outPath)
	in2, _ := vhFSGet(inPath)
	vhAssert(bytes.Equal(in2, data), "input-untouched")
	if crashed {
		vhReach("crashed") // vh:require crashed
		if existed {
			vhAssert(ok, "destination-never-missing-after-crash")
		}
		if ok {
			vhAssert(bytes.Equal(got, want) || (existed && bytes.Equal(got, old)), "destination-old-or-new-after-crash")
		}
	} else {
		vhReach("completed") // vh:require completed
		vhAssert(err == nil, "apply-ok")
		vhAssert(ok && bytes.Equal(got, want), "destination-is-new")
		vhAssert(vhFSCountPrefix(outPath+".tmp") == 0, "no-temp-left")
	}
}

// H13.f: patch-by-rewrite with handled OS errors: no temp file remains and
// the destination is OLD or NEW.
func VH_C13_RewriteFaults() {
	n := vhInt("filelen", 0, 3)
	data := vhBytes("file", n)
	inPath := vhFSPath("in.bin")
	outPath := vhFSPath("out.bin")
	vhFSPut(inPath, data)
	existed := vhBool("dest-existed")
	old := vhBytes("old", vhInt("oldlen", 0, 2))
	if existed {
		vhFSPut(outPath, old)
	}
	p, rs := vhBuild(n, 1)
	want := vhSplice(data, rs)
	f, e := os.OpenFile(inPath, os.O_RDWR, 0)
	vhAssume(e == nil)
	vhFSFaults(true)
	err := p.Apply(f, outPath)
	vhFSFaults(false)
	vhReach("returned") // vh:require returned
	got, ok := vhFSGet(outPath)
	in2, _ := vhFSGet(inPath)
	vhAssert(bytes.Equal(in2, data), "input-untouched")
	vhAssert(vhFSCountPrefix(outPath+".tmp") == 0, "no-temp-left-after-error")
	if err == nil {
		vhAssert(ok && bytes.Equal(got, want), "success-means-new-content")
	}
	if ok {
		vhAssert(bytes.Equal(got, want) || (existed && bytes.Equal(got, old)), "destination-old-or-new")
	}
	if existed {
		vhAssert(ok, "destination-never-missing-after-error")
	}
}
