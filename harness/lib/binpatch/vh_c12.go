//go:build verif

package binpatch

// H12.c: Load on arbitrary bytes: no panic, no header-sized allocation.
func VH_C12_LoadGarbage() {
	n := vhInt("len", 0, 40)
	b := vhBytes("blob", n)
	vhAllocLimit(16*len(b) + 4096)
	p, err := Load(b)
	if err == nil {
		vhReach("load-ok")
		vhAssert(len(p.Patches) == len(p.Blobs), "patches-blobs-same-len")
	} else {
		vhReach("load-err")
	}
}

