//go:build verif

package binpatch

import (
	"bytes"
	"os"
)

// H12.c: Load on arbitrary bytes: no panic, no header-sized allocation,
// truncated input rejected.
func VH_C12_LoadGarbage() {
	n := vhInt("len", 0, 40)
	b := vhBytes("blob", n)
	vhAllocLimit(16*len(b) + 4096)
	p, err := Load(b)
	if err == nil {
		vhReach("load-ok") // vh:require load-ok
		vhAssert(len(p.Patches) == len(p.Blobs), "patches-blobs-same-len")
		total := 8 + 16*len(p.Patches)
		for i := range p.Patches {
			vhAssert(int(p.Patches[i].NewSize) == len(p.Blobs[i]), "newsize-is-blob-len")
			total += len(p.Blobs[i])
		}
		vhAssert(total <= len(b), "accepted-blob-not-truncated")
	} else {
		vhReach("load-err") // vh:require load-err
	}
}

type vhRange struct {
	off, old int64
	blob     []byte
}

// reference splice: walk ranges, copy gap, emit blob
func vhSplice(data []byte, rs []vhRange) []byte {
	var want []byte
	pos := int64(0)
	for _, r := range rs {
		want = append(want, data[pos:r.off]...)
		want = append(want, r.blob...)
		pos = r.off + r.old
	}
	return append(want, data[pos:]...)
}

func vhBuild(n int, k int) (*PatchSet, []vhRange) {
	p := New()
	var rs []vhRange
	pos := int64(0)
	np := vhInt("npatches", 0, k)
	for i := 0; i < np; i++ {
		// constrain first, then enumerate: only feasible (off, old) pairs fork
		offS, oldS := vhInt("off", 0, n), vhInt("old", 0, n)
		vhAssume(int64(offS) >= pos)
		vhAssume(offS+oldS <= n)
		off := int64(vhConcretize(offS, 8))
		old := int64(vhConcretize(oldS, 8))
		blob := vhBytes("blob", vhInt("bloblen", 0, 2))
		p.Add(off, old, blob)
		rs = append(rs, vhRange{off, old, blob})
		pos = off + old
	}
	return p, rs
}

// H12.a: Add* then Apply (in place or by rewrite, same path / other path /
// hard-linked path) yields exactly the reference splice.
func VH_C12_AddApply() {
	maxN, k := 4, 2
	if vhTier() > 0 {
		maxN, k = 6, 3
	}
	n := vhInt("filelen", 0, maxN)
	data := vhBytes("file", n)
	inPath := vhFSPath("in.bin")
	vhFSPut(inPath, data)
	samePath := vhBool("same")
	linked := vhBool("hardlink")
	outPath := inPath
	if !samePath {
		outPath = vhFSPath("out.bin")
		if vhBool("out-exists") {
			vhFSPut(outPath, []byte{0xEE})
		}
	}
	otherPath := vhFSPath("other.bin")
	if linked {
		vhFSLink(inPath, otherPath)
	}
	p, rs := vhBuild(n, k)
	want := vhSplice(data, rs)
	roundTrip := vhBool("dump-load")
	if roundTrip {
		q, err := Load(p.Dump())
		vhAssert(err == nil, "load-of-dump-ok")
		if err != nil {
			return
		}
		p = q
	}
	f, err := os.OpenFile(inPath, os.O_RDWR, 0)
	vhAssume(err == nil)
	err = p.Apply(f, outPath)
	vhAssert(err == nil, "apply-ok")
	got, ok := vhFSGet(outPath)
	vhAssert(ok, "output-exists")
	vhAssert(bytes.Equal(got, want), "output-equals-splice")
	vhReach("applied") // vh:require applied
	if !samePath {
		in2, _ := vhFSGet(inPath)
		vhAssert(bytes.Equal(in2, data), "input-untouched")
	}
	if linked {
		o, _ := vhFSGet(otherPath)
		if samePath {
			vhAssert(bytes.Equal(o, data), "hardlinked-sibling-untouched")
		}
	}
	vhAssert(vhFSCountPrefix(outPath+".tmp") == 0, "no-temp-left")
}

// canonical edit script: merge adjacent ranges
func vhCanon(rs []vhRange) []vhRange {
	var out []vhRange
	for _, r := range rs {
		if n := len(out); n > 0 && out[n-1].off+out[n-1].old == r.off {
			out[n-1].old += r.old
			out[n-1].blob = append(append([]byte{}, out[n-1].blob...), r.blob...)
			continue
		}
		out = append(out, vhRange{r.off, r.old, append([]byte{}, r.blob...)})
	}
	return out
}

// H12.d: Add with fully symbolic 64-bit offsets and sizes (covers > 4 GiB
// ranges and the coalescing / uint32Max splitting logic): the stored patch
// list describes the same edit script as the calls, and the representation
// invariant holds.
func VH_C12_AddSymbolic() {
	k := 2
	lim := int64(1) << 34 // offsets/sizes up to 16 GiB: crosses the uint32 split (4 pieces)
	if vhTier() > 0 {
		// three patches do not finish in 10 minutes; the thorough tier doubles
		// the size range instead (up to 8 pieces per range)
		lim = int64(1) << 35
	}
	vhUnwind(40)
	p := New()
	var rs []vhRange
	pos := int64(0)
	np := vhInt("npatches", 1, k)
	for i := 0; i < np; i++ {
		off := int64(vhU64("off"))
		old := int64(vhU64("old"))
		vhAssume(off >= pos && off <= lim && old >= 0 && old <= lim)
		blob := vhBytes("blob", vhInt("bloblen", 0, 2))
		p.Add(off, old, blob)
		rs = append(rs, vhRange{off, old, blob})
		pos = off + old
	}
	vhAssert(len(p.Patches) == len(p.Blobs), "patches-blobs-same-len")
	var got []vhRange
	prevEnd := int64(-1)
	for i, h := range p.Patches {
		vhAssert(int(h.NewSize) == len(p.Blobs[i]), "newsize-is-blob-len")
		vhAssert(h.Offset >= prevEnd, "ascending-non-overlapping")
		prevEnd = h.Offset + int64(h.OldSize)
		got = append(got, vhRange{h.Offset, int64(h.OldSize), p.Blobs[i]})
	}
	a, b := vhCanon(rs), vhCanon(got)
	vhAssert(len(a) == len(b), "same-number-of-canonical-ranges")
	if len(a) == len(b) {
		for i := range a {
			vhAssert(a[i].off == b[i].off && a[i].old == b[i].old, "same-range")
			vhAssert(bytes.Equal(a[i].blob, b[i].blob), "same-blob")
		}
	}
	vhReach("added") // vh:require added
}

// H12.b: Dump sorts by offset keeping blobs attached; Load(Dump(p)) is p
// sorted, also after out-of-order Add calls.
func VH_C12_DumpLoad() {
	k := 3
	p := New()
	np := vhInt("npatches", 0, k)
	type ent struct {
		off  int64
		old  uint32
		blob []byte
	}
	var ents []ent
	for i := 0; i < np; i++ {
		off := int64(vhU32("off"))
		old := vhU32("old")
		blob := vhBytes("blob", vhInt("bloblen", 0, 2))
		// build the set directly: out-of-order, no coalescing
		p.Patches = append(p.Patches, PatchHeader{off, old, uint32(len(blob))})
		p.Blobs = append(p.Blobs, blob)
		for _, e := range ents {
			vhAssume(e.off != off) // distinct offsets: sorted order is unique
		}
		ents = append(ents, ent{off, old, blob})
	}
	q, err := Load(p.Dump())
	vhAssert(err == nil, "load-of-dump-ok")
	if err != nil {
		return
	}
	vhAssert(len(q.Patches) == np && len(q.Blobs) == np, "count-preserved")
	for i := 0; i < len(q.Patches); i++ {
		if i > 0 {
			vhAssert(q.Patches[i-1].Offset < q.Patches[i].Offset, "sorted-by-offset")
		}
		// the entry with this offset keeps its own size and blob
		found := false
		for _, e := range ents {
			if e.off == q.Patches[i].Offset {
				found = true
				vhAssert(e.old == q.Patches[i].OldSize, "oldsize-follows-header")
				vhAssert(bytes.Equal(e.blob, q.Blobs[i]), "blob-follows-header")
			}
		}
		vhAssert(found, "no-invented-offset")
	}
	vhReach("roundtrip") // vh:require roundtrip
}

// ApplyBinPatch-level rule: a truncated or unparsable patch is rejected by
// Load, i.e. before the target is opened for writing (signers.ApplyBinPatch
// calls Load first). Here: every strict prefix of a valid dump is rejected.
func VH_C12_TruncatedRejected() {
	p := New()
	blob := vhBytes("blob", vhInt("bloblen", 0, 3))
	p.Add(int64(vhU32("off")), int64(vhU16("old")), blob)
	d := p.Dump()
	cut := vhConcretize(vhInt("cut", 0, len(d)-1), 64)
	vhAssume(cut < len(d))
	_, err := Load(d[:cut])
	vhAssert(err != nil, "truncated-dump-rejected")
	vhReach("cut") // vh:require cut
}
