//go:build verif

package signxap

// H11.xap: removeSignature on an arbitrary central-directory blob (uploaded
// by the client in the tar stream).
func VH_C11_XapRemoveSignature() {
	n := vhConcretize(vhInt("len", 0, 24), 32)
	cd := vhBytes("cd", n)
	vhLoopBound(len(cd) + 8)
	out := removeSignature(cd)
	vhAssert(len(out) <= len(cd), "result-is-a-prefix")
	vhReach("returned") // vh:require returned
}
