//go:build verif

package signxap

import (
	"bytes"
	"context"
	"crypto"
	"crypto/sha256"
	"errors"

	"github.com/sassoftware/relic/v8/lib/authenticode"
	"github.com/sassoftware/relic/v8/lib/certloader"
	"github.com/sassoftware/relic/v8/lib/pkcs7"
	"github.com/sassoftware/relic/v8/lib/pkcs9"
	"github.com/sassoftware/relic/v8/lib/x509tools"
)

// the CMS layer as a stub: any blob decodes to an Authenticode structure that
// vouches for `digest`; the signature verifies unless `bad`
func vhXapCms(digest []byte, bad *bool) {
	vhStub("github.com/sassoftware/relic/v8/lib/pkcs7.Unmarshal", func(blob []byte) (*pkcs7.ContentInfoSignedData, error) {
		psd := &pkcs7.ContentInfoSignedData{}
		psd.Content.ContentInfo.ContentType = authenticode.OidSpcIndirectDataContent
		psd.Content.SignerInfos = make([]pkcs7.SignerInfo, 1)
		return psd, nil
	})
	vhStub("(*github.com/sassoftware/relic/v8/lib/pkcs7.SignedData).Verify", func(sd *pkcs7.SignedData, ext []byte, skip bool) (pkcs7.Signature, error) {
		if *bad {
			return pkcs7.Signature{}, errors.New("pkcs7: signature mismatch")
		}
		return pkcs7.Signature{SignerInfo: &sd.SignerInfos[0]}, nil
	})
	vhStub("github.com/sassoftware/relic/v8/lib/pkcs9.VerifyOptionalTimestamp", func(sig pkcs7.Signature) (pkcs9.TimestampedSignature, error) {
		return pkcs9.TimestampedSignature{Signature: sig}, nil
	})
	alg, _ := x509tools.PkixDigestAlgorithm(crypto.SHA256)
	vhStub("(github.com/sassoftware/relic/v8/lib/pkcs7.ContentInfo).Unmarshal", func(ci pkcs7.ContentInfo, dest interface{}) error {
		d := dest.(*authenticode.SpcIndirectDataContentMsi)
		d.MessageDigest.DigestAlgorithm = alg
		d.MessageDigest.Digest = digest
		return nil
	})
	vhStub("github.com/sassoftware/relic/v8/lib/authenticode.GetOpusInfo", func(si *pkcs7.SignerInfo) (*authenticode.SpcSpOpusInfo, error) {
		return nil, nil
	})
}

// H11.xap-verify: signxap.Verify on an arbitrary byte string of every length
// around its fixed-size reads (10-byte trailer, 22-byte end record, 8-byte
// header): an error, "not signed" or a signature - no panic, no buffer sized
// by the trailer's (untrusted) size fields beyond the limit. The CMS layer
// behind the byte-level code is a stub.
func VH_C11_XapVerify() {
	// vh:stubbed
	lens := []int{0, 9, 10, 14, 18, 21, 22, 26, 30}
	n := lens[vhConcretize(vhInt("lenidx", 0, len(lens)-1), 16)]
	b := vhBytes("xap", n)
	bad := false
	vhXapCms(make([]byte, 32), &bad)
	vhAllocLimit(4<<20 + 16*len(b))
	vhLoopBound(64)
	vhMaxLen(64)
	sig, err := Verify(bytes.NewReader(b), int64(len(b)), vhBool("skip-digests"))
	if err == nil {
		vhAssert(sig != nil, "result-non-nil")
		vhReach("accepted")
	} else {
		vhReach("rejected") // vh:require rejected
	}
}

// H02.xap: a signed XAP is the zip, an 8-byte header, the CMS blob and a
// 10-byte trailer. Verify accepts it when the CMS layer (stub) accepts and
// the digest it vouches for is the SHA-256 of the zip part; it rejects the
// package after ONE changed byte anywhere in the zip part (symbolic position
// and value), a bad CMS signature, or a header/trailer size disagreement; an
// unsigned zip is reported as not signed.
func VH_C02_XapVerifyComparesDigest() {
	// vh:stubbed
	zipPart, _ := vhMiniZip([]byte{0xca, 0xfe})
	cms := []byte("cms-blob")
	var f bytes.Buffer
	f.Write(zipPart)
	f.Write([]byte{0, 0, 0, 0, byte(len(cms)), 0, 0, 0}) // header: two unknown words, blob size
	f.Write(cms)
	m := uint32(trailerMagic)
	f.Write([]byte{byte(m), byte(m >> 8), byte(m >> 16), byte(m >> 24), 1, 0, byte(len(cms) + 8), 0, 0, 0})
	file := f.Bytes()
	sum := sha256.Sum256(zipPart)
	bad := false
	vhXapCms(sum[:], &bad)
	vhMaxLen(4096)
	vhLoopBound(256)
	sig, err := Verify(bytes.NewReader(file), int64(len(file)), false)
	vhAssert(err == nil && sig != nil, "signed-package-verifies")
	switch vhConcretize(vhInt("alteration", 0, 3), 4) {
	case 0:
		t := append([]byte{}, file...)
		p := vhConcretize(vhInt("changed-byte", 0, len(zipPart)-1), 256)
		t[p] = vhU8("new-value")
		vhAssume(t[p] != file[p])
		_, err = Verify(bytes.NewReader(t), int64(len(t)), false)
		vhAssert(err != nil, "changed-zip-byte-rejected")
	case 1:
		bad = true
		_, err = Verify(bytes.NewReader(file), int64(len(file)), false)
		vhAssert(err != nil, "bad-cms-signature-rejected")
	case 2:
		t := append([]byte{}, file...)
		t[len(zipPart)+4]++ // header says one more byte than the trailer accounts for
		_, err = Verify(bytes.NewReader(t), int64(len(t)), false)
		vhAssert(err != nil, "size-disagreement-rejected")
	case 3:
		_, err = Verify(bytes.NewReader(zipPart), int64(len(zipPart)), false)
		vhAssert(err != nil, "unsigned-zip-is-not-a-signature")
	}
	vhReach("checked") // vh:require checked
}

// H01.xap: sign, then verify, then sign again and verify again - with the
// Authenticode/CMS construction stubbed on both sides (sign: a blob of
// symbolic length is returned; verify: the stub vouches for the digest the
// signer was given). DigestXapTar -> XapDigest.Sign -> patch applied ->
// signxap.Verify with digest checking: accepted after the first and after the
// second round, the second signature replaces the first (file length follows
// the new blob), and the zip part is byte-identical throughout.
func VH_C01_XapSignedVerifies() {
	// vh:stubbed
	vhMaxLen(8192)
	vhLoopBound(1100)
	zipFile, dirLoc := vhMiniZip([]byte{0xca, 0xfe})
	var signedOver []byte
	blobs := [][]byte{vhBytes("first-signature", vhConcretize(vhInt("first-signature-bytes", 1, 3), 4)), vhBytes("second-signature", vhConcretize(vhInt("second-signature-bytes", 1, 3), 4))}
	round := 0
	vhStub("github.com/sassoftware/relic/v8/lib/authenticode.SignSip", func(ctx context.Context, imprint []byte, hash crypto.Hash, sipInfo authenticode.SpcSipInfo, cert *certloader.Certificate, params *authenticode.OpusParams) (*pkcs9.TimestampedSignature, error) {
		signedOver = imprint
		ts := &pkcs9.TimestampedSignature{}
		ts.Raw = blobs[round]
		return ts, nil
	})
	bad := false
	file := zipFile
	for round = 0; round < 2; round++ {
		d, err := DigestXapTar(vhXapTar(file, dirLoc), crypto.SHA256, false)
		vhAssert(err == nil, "package-digests")
		patch, _, err := d.Sign(context.Background(), nil, nil)
		vhAssert(err == nil, "package-signs")
		var out []byte
		pos := int64(0)
		for i, h := range patch.Patches {
			out = append(out, file[pos:h.Offset]...)
			out = append(out, patch.Blobs[i]...)
			pos = h.Offset + int64(h.OldSize)
		}
		file = append(out, file[pos:]...)
		vhAssert(len(file) == len(zipFile)+8+len(blobs[round])+10, "one-signature-frame-after-the-zip")
		vhAssert(bytes.Equal(file[:len(zipFile)], zipFile), "zip-part-untouched")
		vhXapCms(signedOver, &bad)
		sig, err := Verify(bytes.NewReader(file), int64(len(file)), false)
		vhAssert(err == nil && sig != nil, "own-signature-verifies-with-digest-checking")
	}
	vhReach("twice-signed") // vh:require twice-signed
}

func VH_C08_XapResignReplaces() { VH_C01_XapSignedVerifies() }
