//go:build verif

package signxap

import (
	"archive/tar"
	"bytes"
	"crypto"
	"encoding/binary"
	"os"

	"github.com/sassoftware/relic/v8/lib/zipslicer"
)

// one stored member, a directory entry and an end record
func vhMiniZip(data []byte) (file []byte, dirLoc int) {
	var f bytes.Buffer
	le := binary.LittleEndian
	w := func(v interface{}) { binary.Write(&f, le, v) }
	// local header
	w(uint32(0x04034b50))
	w([]uint16{20, 0, 0, 0, 0})
	w([]uint32{0, uint32(len(data)), uint32(len(data))})
	w([]uint16{1, 0})
	f.WriteString("a")
	f.Write(data)
	dirLoc = f.Len()
	w(uint32(0x02014b50))
	w([]uint16{20, 20, 0, 0, 0, 0})
	w([]uint32{0, uint32(len(data)), uint32(len(data))})
	w([]uint16{1, 0, 0, 0, 0})
	w([]uint32{0, 0})
	f.WriteString("a")
	cdSize := f.Len() - dirLoc
	w(uint32(0x06054b50))
	w([]uint16{0, 0, 1, 1})
	w([]uint32{uint32(cdSize), uint32(dirLoc)})
	w(uint16(0))
	return f.Bytes(), dirLoc
}

func vhXapTar(file []byte, dirLoc int) *bytes.Buffer {
	var out bytes.Buffer
	tw := tar.NewWriter(&out)
	tw.WriteHeader(&tar.Header{Name: zipslicer.TarMemberCD, Mode: 0644, Size: int64(len(file) - dirLoc)})
	tw.Write(file[dirLoc:])
	tw.WriteHeader(&tar.Header{Name: zipslicer.TarMemberZip, Mode: 0644, Size: int64(len(file))})
	tw.Write(file)
	tw.Close()
	return &out
}

// H08.xap: the XAP content digest ignores an existing signature (header,
// PKCS#7 blob, trailer appended after the zip end record): it equals the
// digest of the unsigned file, and the patch it leads to replaces exactly the
// old signature. The upload stream is the directory-first tar the design
// describes (directory member = everything from the central directory to the
// end of the file). Also: the client-side transform that produces that stream
// must accept the signed file.
func VH_C08_XapDigestIgnoresSignature() {
	vhMaxLen(8192)
	vhLoopBound(1100)
	zipFile, dirLoc := vhMiniZip(vhBytes("data", 2))
	d1, err := DigestXapTar(vhXapTar(zipFile, dirLoc), crypto.SHA256, false)
	vhAssert(err == nil, "unsigned-xap-digests")
	if err != nil {
		return
	}
	vhAssert(d1.PatchStart == int64(len(zipFile)) && d1.PatchLen == 0, "unsigned-patch-appends-at-end")
	nsig := vhConcretize(vhInt("signature-bytes", 1, 3), 4)
	blob := vhBytes("pkcs7", nsig)
	var signed bytes.Buffer
	signed.Write(zipFile)
	binary.Write(&signed, binary.LittleEndian, xapHeader{Unknown1: 1, Unknown2: 1, SignatureSize: uint32(nsig)})
	signed.Write(blob)
	binary.Write(&signed, binary.LittleEndian, xapTrailer{Magic: trailerMagic, Unknown1: 1, TrailerSize: uint32(nsig + 8)})
	d2, err := DigestXapTar(vhXapTar(signed.Bytes(), dirLoc), crypto.SHA256, false)
	vhAssert(err == nil, "signed-xap-digests")
	if err != nil {
		return
	}
	vhAssert(bytes.Equal(d1.Imprint, d2.Imprint), "digest-ignores-existing-signature")
	vhAssert(d2.PatchStart == int64(len(zipFile)) && d2.PatchLen == int64(signed.Len()-len(zipFile)), "patch-replaces-the-old-signature")
	vhReach("digested") // vh:require digested

	// the real client-side transform on the signed file
	p := vhFSPath("signed.xap")
	vhFSPut(p, signed.Bytes())
	f, err := os.Open(p)
	if err != nil {
		return
	}
	var t bytes.Buffer
	err = zipslicer.ZipToTar(f, &t)
	vhAssert(err == nil, "signed-xap-can-be-transformed-for-re-signing")
	if err != nil {
		return
	}
	d3, err := DigestXapTar(&t, crypto.SHA256, false)
	vhAssert(err == nil && bytes.Equal(d3.Imprint, d1.Imprint), "transform-then-digest-ignores-existing-signature")
}
