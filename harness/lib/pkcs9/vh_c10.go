//go:build verif

package pkcs9

import (
	"bytes"
	"errors"
	"math/big"

	"github.com/sassoftware/relic/v8/lib/pkcs7"
)

// H10.a: a time-stamp reply is accepted only if every conjunct holds: the
// reply decodes with no trailing bytes, its status grants the request, the
// token's signature verifies, the token echoes the request nonce and carries
// the request's imprint. The ASN.1 decoder and the CMS signature check are
// nondeterministic stubs (arbitrary result of the right type, constrained
// only by the harness inputs), so the decision covers every authority
// behaviour expressible at that interface.
func VH_C10_ParseResponse() {
	// vh:stubbed
	status := vhInt("pki-status", 0, 6)
	trailing := vhConcretize(vhInt("trailing-bytes", 0, 2), 4)
	decodeErr := vhBool("reply-decode-error")
	sigOK := vhBool("token-signature-verifies")
	contentErr := vhBool("econtent-error")
	content := vhBytes("econtent", vhInt("econtent-len", 0, 2))
	infoErr := vhBool("tstinfo-decode-error")
	unwrapErr := vhBool("octet-string-unwrap-error")
	tokNonce, reqNonce := vhU64("token-nonce"), vhU64("request-nonce")
	tokImprint := vhBytes("token-imprint", 2)
	reqImprint := vhBytes("request-imprint", 2)
	vhStub("encoding/asn1.Unmarshal", func(b []byte, val interface{}) ([]byte, error) {
		switch v := val.(type) {
		case *TimeStampResp:
			if decodeErr {
				return nil, errors.New("asn1: syntax error")
			}
			v.Status.Status = status
			return make([]byte, trailing), nil
		case *TSTInfo:
			if infoErr {
				return nil, errors.New("asn1: structure error")
			}
			v.Nonce = new(big.Int).SetUint64(tokNonce)
			v.MessageImprint.HashedMessage = tokImprint
			return nil, nil
		case *[]byte:
			if unwrapErr {
				return nil, errors.New("asn1: syntax error")
			}
			return nil, nil
		}
		return nil, errors.New("unexpected decode target")
	})
	vhStub("(*github.com/sassoftware/relic/v8/lib/pkcs7.SignedData).Verify", func(sd *pkcs7.SignedData, ext []byte, skip bool) (pkcs7.Signature, error) {
		if !sigOK {
			return pkcs7.Signature{}, errors.New("pkcs7: signature mismatch")
		}
		return pkcs7.Signature{}, nil
	})
	vhStub("(github.com/sassoftware/relic/v8/lib/pkcs7.ContentInfo).Bytes", func(ci pkcs7.ContentInfo) ([]byte, error) {
		if contentErr {
			return nil, errors.New("asn1: structure error")
		}
		return content, nil
	})
	req := &TimeStampReq{Nonce: new(big.Int).SetUint64(reqNonce), MessageImprint: MessageImprint{HashedMessage: reqImprint}}
	tok, err := req.ParseResponse([]byte{0x30})
	if err == nil {
		vhReach("accepted") // vh:require accepted
		vhAssert(tok != nil, "accepted-reply-yields-a-token")
		vhAssert(!decodeErr, "undecodable-reply-not-accepted")
		vhAssert(trailing == 0, "trailing-bytes-not-accepted")
		vhAssert(status <= StatusGrantedWithMods, "only-granted-status-accepted")
		vhAssert(sigOK, "token-with-bad-signature-not-accepted")
		vhAssert(!contentErr && !infoErr, "undecodable-token-info-not-accepted")
		vhAssert(tokNonce == reqNonce, "nonce-mismatch-not-accepted")
		vhAssert(bytes.Equal(tokImprint, reqImprint), "imprint-mismatch-not-accepted")
	} else {
		vhReach("rejected") // vh:require rejected
		vhAssert(tok == nil, "rejected-reply-yields-no-token")
	}
}
