//go:build verif

package tsclient

import (
	"context"
	"crypto"
	_ "crypto/sha256"
	"errors"
	"net/url"

	"github.com/sassoftware/relic/v8/config"
	"github.com/sassoftware/relic/v8/lib/pkcs7"
	"github.com/sassoftware/relic/v8/lib/pkcs9"
)

type vhCtx struct {
	context.Context
	cancelled bool
}

func (c *vhCtx) Err() error {
	if c.cancelled {
		return context.Canceled
	}
	return nil
}

// H10.b: failover over the configured authorities. The per-URL exchange
// (HTTP + reply parsing, checked separately in VH_C10_ParseResponse) is a
// stub whose outcome per call is arbitrary: the result is the token of the
// first authority, in configured order, that yields one; no authority is
// contacted after a success; if every authority fails the operation fails
// (never "no error, no token"); a cancelled caller stops the scan, but an
// authority's own time-out (deadline error while the caller is still waiting)
// does not.
func VH_C10_Failover() {
	// vh:stubbed
	nurls := vhConcretize(vhInt("configured-urls", 0, 3), 4)
	urls := []string{"http://tsa0", "http://tsa1", "http://tsa2"}[:nurls]
	legacy := vhBool("legacy-microsoft-style")
	conf := &config.TimestampConfig{URLs: urls, MsURLs: urls}
	named := vhBool("named-pool")
	reqName := ""
	if named {
		reqName = "pool"
		conf.URLs, conf.MsURLs = nil, nil
		conf.NamedURLs = map[string][]string{"pool": urls}
	}
	ctx := &vhCtx{Context: context.Background()}
	var contacted []string
	tokens := map[string]*pkcs7.ContentInfoSignedData{}
	vhStub("(github.com/sassoftware/relic/v8/lib/pkcs9/tsclient.tsClient).do", func(c tsClient, cx context.Context, u string, req *pkcs9.Request, imprint []byte) (*pkcs7.ContentInfoSignedData, error) {
		contacted = append(contacted, u)
		if vhBool("caller-cancels-during-this-exchange") {
			ctx.cancelled = true
		}
		if vhBool("authority-yields-a-token") {
			t := new(pkcs7.ContentInfoSignedData)
			tokens[u] = t
			return t, nil
		}
		// an authority that hangs until the per-request timeout fires fails
		// with a deadline error although the caller is still waiting
		if vhBool("authority-times-out") {
			return nil, &url.Error{Op: "Post", URL: u, Err: context.DeadlineExceeded}
		}
		return nil, errors.New("exchange failed")
	})
	c := tsClient{conf: conf}
	tok, err := c.Timestamp(ctx, &pkcs9.Request{EncryptedDigest: []byte{1, 2}, Hash: crypto.SHA256, Legacy: legacy, Name: reqName})
	vhReach("returned") // vh:require returned
	vhAssert((tok == nil) != (err == nil), "exactly-one-of-token-and-error")
	for i, u := range contacted {
		vhAssert(i < len(urls) && u == urls[i], "authorities-tried-in-configured-order")
	}
	if err == nil {
		vhReach("stamped") // vh:require stamped
		last := contacted[len(contacted)-1]
		vhAssert(tokens[last] == tok, "token-comes-from-the-last-contacted-authority")
		for _, u := range contacted[:len(contacted)-1] {
			vhAssert(tokens[u] == nil, "no-authority-contacted-after-a-success")
		}
	} else {
		for _, u := range contacted {
			vhAssert(tokens[u] == nil, "a-granted-token-is-not-discarded")
		}
		if !ctx.cancelled {
			vhAssert(len(contacted) == len(urls), "every-authority-tried-before-giving-up")
		}
	}
}
