//go:build verif

package pkcs9

import (
	"bytes"
	"context"
	"crypto"
	"encoding/asn1"
	"errors"

	"github.com/sassoftware/relic/v8/lib/pkcs7"
	"github.com/sassoftware/relic/v8/lib/x509tools"
)

type vhStamper struct {
	fail  bool
	calls int
	req   *Request
	token *pkcs7.ContentInfoSignedData
}

func (t *vhStamper) Timestamp(ctx context.Context, req *Request) (*pkcs7.ContentInfoSignedData, error) {
	t.calls++
	t.req = req
	if t.fail {
		return nil, errors.New("all authorities failed")
	}
	return t.token, nil
}

// H10.attach / H01.self-check: TimestampAndMarshal - the last step of every
// PKCS#7-based signer. With a time-stamper configured the signing fails when
// the time-stamper fails (the stamp is never silently left out); the request
// it sends carries exactly this signature value and the signer's digest; the
// token is attached once, under the attribute the signature style calls for,
// before the finished signature is verified; nothing is returned unless that
// self-check, including the check of the attached countersignature, passes;
// what is returned is the marshalled structure. ASN.1 encoding and the CMS /
// countersignature verifiers are stubs.
func VH_C10_TimestampAttachedOrSigningFails() {
	// vh:stubbed
	configured := vhBool("timestamper-configured")
	authenticode := vhBool("authenticode-style")
	selfOK := vhBool("self-verification-passes")
	stampOK := vhBool("countersignature-verifies")
	marshalOK := vhBool("marshal-succeeds")
	sigValue := vhBytes("signature-value", 2)
	ts := &vhStamper{fail: vhBool("timestamper-fails"), token: &pkcs7.ContentInfoSignedData{}}
	alg, _ := x509tools.PkixDigestAlgorithm(crypto.SHA256)
	psd := &pkcs7.ContentInfoSignedData{}
	psd.Content.SignerInfos = []pkcs7.SignerInfo{{DigestAlgorithm: alg, EncryptedDigest: sigValue}}
	var added []asn1.ObjectIdentifier
	var order []string
	vhStub("(*github.com/sassoftware/relic/v8/lib/pkcs7.AttributeList).Add", func(l *pkcs7.AttributeList, oid asn1.ObjectIdentifier, obj interface{}) error {
		added = append(added, oid)
		order = append(order, "attach")
		return nil
	})
	vhStub("(*github.com/sassoftware/relic/v8/lib/pkcs7.SignedData).Verify", func(sd *pkcs7.SignedData, ext []byte, skip bool) (pkcs7.Signature, error) {
		order = append(order, "self-check")
		if !selfOK {
			return pkcs7.Signature{}, errors.New("pkcs7: signature mismatch")
		}
		return pkcs7.Signature{SignerInfo: &sd.SignerInfos[0]}, nil
	})
	cs := &CounterSignature{}
	vhStub("github.com/sassoftware/relic/v8/lib/pkcs9.VerifyPkcs7", func(sig pkcs7.Signature) (*CounterSignature, error) {
		order = append(order, "stamp-check")
		if !stampOK {
			return nil, errors.New("verifying timestamp imprint: digest check failed")
		}
		if len(added) == 0 {
			return nil, nil
		}
		return cs, nil
	})
	vhStub("(*github.com/sassoftware/relic/v8/lib/pkcs7.ContentInfoSignedData).Marshal", func(p *pkcs7.ContentInfoSignedData) ([]byte, error) {
		if !marshalOK {
			return nil, errors.New("asn1: structure error")
		}
		return []byte{0x30, 0x2a}, nil
	})
	var stamper Timestamper
	if configured {
		stamper = ts
	}
	res, err := TimestampAndMarshal(context.Background(), psd, stamper, authenticode)
	if err == nil {
		vhReach("signed") // vh:require signed
		vhAssert(selfOK && stampOK && marshalOK, "nothing-returned-unless-the-self-check-passes")
		vhAssert(res != nil && bytes.Equal(res.Raw, []byte{0x30, 0x2a}), "result-is-the-marshalled-structure")
		if configured {
			vhAssert(!ts.fail && ts.calls == 1, "timestamper-asked-once")
			vhAssert(ts.req != nil && bytes.Equal(ts.req.EncryptedDigest, sigValue) && ts.req.Hash == crypto.SHA256, "request-carries-this-signature-value-and-digest")
			want := OidAttributeTimeStampToken
			if authenticode {
				want = OidSpcTimeStampToken
			}
			vhAssert(len(added) == 1 && added[0].Equal(want), "token-attached-once-under-the-right-attribute")
			vhAssert(len(order) >= 2 && order[0] == "attach" && order[1] == "self-check", "attached-before-the-self-check")
			vhAssert(res.CounterSignature == cs, "countersignature-reported")
		} else {
			vhAssert(len(added) == 0 && ts.calls == 0, "no-stamp-without-a-timestamper")
		}
	} else {
		vhReach("refused") // vh:require refused
		vhAssert(res == nil, "no-signature-on-error")
		vhAssert((configured && ts.fail) || !selfOK || !stampOK || !marshalOK, "good-inputs-produce-a-signature")
	}
}

func VH_C01_Pkcs7SelfCheckedBeforeReturn() { VH_C10_TimestampAttachedOrSigningFails() }
