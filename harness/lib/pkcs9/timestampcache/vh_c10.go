//go:build verif

package timestampcache

import (
	"crypto"

	"github.com/sassoftware/relic/v8/lib/pkcs9"
)

// H10.cache-key: a cached timestamp token is handed out for every later
// request with the same cache key, without looking at the token again - so
// two requests may share a key only if they ask for the same thing. Two
// arbitrary requests (signature bytes of 0..2 symbolic bytes, RFC 3161 or
// legacy protocol, digest algorithm from the five relic accepts, timestamper
// name of 0..2 characters from an alphabet that contains the key's own
// separator and digits): equal keys imply equal signature bytes, protocol,
// algorithm and name (SHA-256 modelled as injective).
func VH_C10_CacheKeyInjective() {
	const alphabet = "a-15"
	mk := func(tag string) *pkcs9.Request {
		r := &pkcs9.Request{}
		r.EncryptedDigest = vhBytes(tag+"-signature", vhConcretize(vhInt(tag+"-signature-bytes", 0, 2), 3))
		r.Legacy = vhBool(tag + "-legacy")
		r.Hash = []crypto.Hash{crypto.SHA1, crypto.SHA224, crypto.SHA256, crypto.SHA384, crypto.SHA512}[vhConcretize(vhInt(tag+"-hash", 0, 4), 5)]
		raw := vhBytes(tag+"-name", vhConcretize(vhInt(tag+"-name-len", 0, 2), 3))
		name := make([]byte, len(raw))
		for i, c := range raw {
			name[i] = alphabet[int(c)%len(alphabet)]
		}
		r.Name = string(name)
		return r
	}
	a, b := mk("a"), mk("b")
	if cacheKey(a) != cacheKey(b) {
		vhReach("distinct") // vh:require distinct
		return
	}
	vhReach("same-key") // vh:require same-key
	vhAssert(string(a.EncryptedDigest) == string(b.EncryptedDigest), "same-key-same-signature-bytes")
	vhAssert(a.Legacy == b.Legacy, "same-key-same-protocol")
	vhAssert(a.Hash == b.Hash, "same-key-same-digest-algorithm")
	vhAssert(a.Name == b.Name, "same-key-same-timestamper")
}
