//go:build verif

package pkcs9

import (
	"crypto"
	"crypto/x509"
	"crypto/x509/pkix"
	"encoding/asn1"
	"errors"
	"time"

	"github.com/sassoftware/relic/v8/lib/pkcs7"
	"github.com/sassoftware/relic/v8/lib/x509tools"
)

// H10.v1: a time-stamp token is accepted as a countersignature of a given
// signature value only if it has exactly one signer, its imprint is the
// digest (under the algorithm the token names) of exactly that signature
// value, and the token's own signature verifies; the attested time reported
// is the token's. The ASN.1 decoder, certificate parser and the CMS
// signer-info check are nondeterministic stubs; the hash is the engine's
// injective model, so "imprint of another value" covers every other value.
func VH_C10_VerifyToken() {
	// vh:stubbed
	nsigners := vhConcretize(vhInt("signer-infos", 0, 2), 3)
	sigOK := vhBool("token-signature-verifies")
	sigValue := vhBytes("signature-value", 2)
	stamped := vhBytes("value-the-authority-stamped", 2)
	knownAlg := vhBool("imprint-algorithm-known")
	infoErr := vhBool("tstinfo-decode-error")
	d := crypto.SHA256.New()
	d.Write(stamped)
	imprint := d.Sum(nil)
	alg, _ := x509tools.PkixDigestAlgorithm(crypto.SHA256)
	if !knownAlg {
		alg = pkix.AlgorithmIdentifier{Algorithm: asn1.ObjectIdentifier{1, 2, 3}}
	}
	tsCert := &x509.Certificate{}
	vhStub("encoding/asn1.Unmarshal", func(b []byte, val interface{}) ([]byte, error) {
		switch v := val.(type) {
		case *TSTInfo:
			if infoErr {
				return nil, errors.New("asn1: structure error")
			}
			v.MessageImprint = MessageImprint{HashAlgorithm: alg, HashedMessage: imprint}
			v.GenTime = asn1.RawValue{Tag: asn1.TagGeneralizedTime}
			return nil, nil
		}
		return nil, errors.New("unexpected decode target")
	})
	attested := time.Unix(1500000000, 0)
	vhStub("github.com/sassoftware/relic/v8/lib/pkcs7.ParseTime", func(raw asn1.RawValue) (time.Time, error) {
		return attested, nil
	})
	vhStub("(github.com/sassoftware/relic/v8/lib/pkcs7.ContentInfo).Bytes", func(ci pkcs7.ContentInfo) ([]byte, error) {
		return []byte{0x30, 0x00}, nil
	})
	vhStub("(github.com/sassoftware/relic/v8/lib/pkcs7.RawCertificates).Parse", func(rc pkcs7.RawCertificates) ([]*x509.Certificate, error) {
		return []*x509.Certificate{tsCert}, nil
	})
	vhStub("(*github.com/sassoftware/relic/v8/lib/pkcs7.SignerInfo).Verify", func(si *pkcs7.SignerInfo, content []byte, skip bool, certs []*x509.Certificate) (*x509.Certificate, error) {
		if !sigOK {
			return nil, errors.New("pkcs7: signature mismatch")
		}
		return tsCert, nil
	})
	tst := &pkcs7.ContentInfoSignedData{}
	tst.Content.SignerInfos = make([]pkcs7.SignerInfo, nsigners)
	cs, err := Verify(tst, sigValue, nil)
	if err == nil {
		vhReach("accepted") // vh:require accepted
		vhAssert(nsigners == 1, "exactly-one-signer")
		vhAssert(knownAlg && !infoErr, "undecodable-or-unknown-imprint-not-accepted")
		vhAssert(string(sigValue) == string(stamped), "countersignature-covers-this-exact-signature-value")
		vhAssert(sigOK, "token-with-bad-signature-not-accepted")
		vhAssert(cs != nil && cs.SigningTime.Equal(attested) && cs.Certificate == tsCert, "attested-time-and-signer-reported")
	} else {
		vhReach("rejected") // vh:require rejected
		vhAssert(cs == nil, "rejected-token-yields-nothing")
		vhAssert(!(nsigners == 1 && knownAlg && !infoErr && sigOK && string(sigValue) == string(stamped)), "genuine-matching-token-accepted")
	}
}

// H10.v2: certificate chains are judged at the attested time. With a
// countersignature present the time-stamp's own chain is checked first (for
// the time-stamping usage, at its own signing time) and its failure fails the
// whole verification; the primary chain is then judged at exactly the
// attested time. Without one the primary chain is judged "now" (zero time).
// x509 chain building is a stub that implements only the validity window.
func VH_C10_ChainAtAttestedTime() {
	// vh:stubbed
	hasTS := vhBool("timestamp-present")
	tsChainOK := vhBool("timestamp-chain-valid")
	notBefore, notAfter := int64(vhU32("cert-not-before")), int64(vhU32("cert-not-after"))
	attested, now := int64(vhU32("attested-time")), int64(vhU32("now"))
	vhAssume(notBefore <= notAfter && attested > 0 && now > 0)
	primarySI, tsSI := &pkcs7.SignerInfo{Version: 1}, &pkcs7.SignerInfo{Version: 3}
	var tsCalls, primaryCalls int
	var tsUsage x509.ExtKeyUsage
	var order []int
	vhStub("(github.com/sassoftware/relic/v8/lib/pkcs7.Signature).VerifyChain", func(s pkcs7.Signature, roots *x509.CertPool, extra []*x509.Certificate, usage x509.ExtKeyUsage, at time.Time) error {
		if s.SignerInfo == tsSI {
			tsCalls++
			order = append(order, 1)
			tsUsage = usage
			if !tsChainOK || !at.Equal(time.Unix(attested, 0)) {
				return errors.New("x509: timestamp chain invalid")
			}
			return nil
		}
		primaryCalls++
		order = append(order, 2)
		t := at.Unix()
		if at.IsZero() {
			t = now
		}
		if t < notBefore || t > notAfter {
			return errors.New("x509: certificate has expired or is not yet valid")
		}
		return nil
	})
	sig := TimestampedSignature{Signature: pkcs7.Signature{SignerInfo: primarySI}}
	if hasTS {
		sig.CounterSignature = &CounterSignature{Signature: pkcs7.Signature{SignerInfo: tsSI}, SigningTime: time.Unix(attested, 0)}
	}
	err := sig.VerifyChain(nil, nil, x509.ExtKeyUsageCodeSigning)
	inWindow := func(t int64) bool { return t >= notBefore && t <= notAfter }
	if err == nil {
		vhReach("valid") // vh:require valid
		if hasTS {
			vhAssert(tsChainOK, "invalid-timestamp-never-extends-validity")
			vhAssert(inWindow(attested), "signer-certificate-valid-at-the-attested-time")
			vhAssert(tsCalls == 1 && tsUsage == x509.ExtKeyUsageTimeStamping, "timestamp-chain-checked-for-timestamping")
			vhAssert(len(order) == 2 && order[0] == 1, "timestamp-chain-checked-first")
		} else {
			vhAssert(inWindow(now), "without-timestamp-judged-now")
			vhAssert(tsCalls == 0, "no-timestamp-no-timestamp-check")
		}
		vhAssert(primaryCalls == 1, "primary-chain-checked-once")
	} else {
		vhReach("invalid") // vh:require invalid
		if hasTS {
			vhAssert(!(tsChainOK && inWindow(attested)), "valid-timestamp-within-lifetime-accepted")
		} else {
			vhAssert(!inWindow(now), "valid-now-accepted")
		}
	}
}
