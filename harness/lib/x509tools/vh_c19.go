//go:build verif

package x509tools

import (
	"bytes"
	"math/big"
)

// H19.ecdsa: the r||s packing used for XML signature values is fixed width:
// 2*ceil(bits(curve)/8) bytes for every r, s below the group order, and
// unpacking gives back r and s. big.Int is a 64-bit stand-in, so the "curve"
// sizes here are 1..8 bytes (the real ones are 32, 48, 66).
func VH_C19_EcdsaFixedWidth() {
	n := vhConcretize(vhInt("curve-bytes", 1, 8), 8)
	rb := vhBytes("r", n)
	sb := vhBytes("s", n)
	sig := EcdsaSignature{R: new(big.Int).SetBytes(rb), S: new(big.Int).SetBytes(sb)}
	packed, err := sig.PackFixed(n) // what lib/xmldsig finishSignature emits
	vhAssert(err == nil, "in-range-signature-packs")
	vhAssert(len(packed) == 2*n, "signature-value-has-fixed-width")
	if len(packed) == 2*n {
		vhAssert(bytes.Equal(packed[:n], rb) && bytes.Equal(packed[n:], sb), "packed-is-r-then-s-big-endian")
	}
	back, err := UnpackEcdsaSignature(packed)
	vhAssert(err == nil && back.R.Cmp(sig.R) == 0 && back.S.Cmp(sig.S) == 0, "unpack-inverts-pack")
	vhReach("packed") // vh:require packed
}
