//go:build verif

package x509tools

import (
	"crypto"
	"crypto/ecdsa"
	"crypto/rsa"
	"errors"
	"io"
	"math/big"
)

type vhSigner struct{ pub crypto.PublicKey }

func (s vhSigner) Public() crypto.PublicKey { return s.pub }
func (s vhSigner) Sign(r io.Reader, d []byte, o crypto.SignerOpts) ([]byte, error) {
	return nil, errors.New("n/a")
}

// a symbolic public key: RSA (modulus, exponent) or ECDSA (x, y); big
// integers are 64-bit stand-ins. Returns the key, its algorithm and the
// component values for the reference comparison.
func vhPubKey(tag string) (key interface{}, alg int, a, b uint64) {
	alg = vhConcretize(vhInt(tag+"-alg", 0, 2), 4)
	a, b = vhU64(tag+"-a"), vhU64(tag+"-b")
	switch alg {
	case 0:
		vhAssume(b < 1<<31)
		key = &rsa.PublicKey{N: new(big.Int).SetUint64(a), E: int(b)}
	case 1:
		key = &ecdsa.PublicKey{X: new(big.Int).SetUint64(a), Y: new(big.Int).SetUint64(b)}
	default:
		key = "not a key" // unsupported key type
	}
	if vhBool(tag + "-wrapped-in-signer") {
		key = vhSigner{key}
	}
	return
}

// H07.samekey: SameKey(a, b) holds exactly when both are RSA with equal
// modulus and exponent, or both ECDSA with equal point; a private key
// (crypto.Signer) is compared through its public half; mismatched or
// unsupported algorithms never match. This is the guard that
// LoadTokenCertificates / LoadX509KeyPair / the PKCS#7 builder / xmldsig use
// to refuse a certificate that does not belong to the key.
func VH_C07_SameKey() {
	k1, alg1, a1, b1 := vhPubKey("k1")
	k2, alg2, a2, b2 := vhPubKey("k2")
	got := SameKey(k1, k2)
	want := alg1 == alg2 && alg1 != 2 && a1 == a2 && b1 == b2
	vhAssert(got == want, "samekey-iff-same-algorithm-and-components")
	vhAssert(SameKey(k2, k1) == got, "samekey-symmetric")
	vhReach("compared") // vh:require compared
}
