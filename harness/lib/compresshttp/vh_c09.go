//go:build verif

package compresshttp

import (
	"bytes"
	"io"
	"net/http"
)

type vhRW struct {
	hdr    http.Header
	status int
	body   bytes.Buffer
}

func (w *vhRW) Header() http.Header { return w.hdr }
func (w *vhRW) WriteHeader(c int)   { w.status = c }
func (w *vhRW) Write(p []byte) (int, error) {
	return w.body.Write(p)
}

// H09.negotiation: which content coding is negotiated and what it does to
// the bytes when none is. The best mutually supported coding is chosen from
// an Accept-Encoding list whatever the order, spacing and quality suffixes;
// codings relic does not implement are never chosen; with no common coding
// request and response bodies travel unchanged (symbolic body), no
// Content-Encoding is announced and a stale one is removed; a body announced
// with an unknown coding is refused rather than passed through as if plain.
// (The gzip / snappy codecs themselves are library code and not encoded.)
func VH_C09_EncodingNegotiation() {
	accepts := []struct{ header, want string }{
		{"", ""},
		{"identity", ""},
		{"gzip", EncodingGzip},
		{"x-snappy-framed", EncodingSnappy},
		{"gzip, x-snappy-framed", EncodingSnappy},
		{"x-snappy-framed,gzip", EncodingSnappy},
		{" gzip ;q=0.5 , br", EncodingGzip},
		{"br, deflate", ""},
		{AcceptedEncodings, EncodingSnappy},
	}
	a := accepts[vhConcretize(vhInt("accept-encoding", 0, len(accepts)-1), 16)]
	vhAssert(selectEncoding(a.header) == a.want, "best-common-coding-chosen")
	body := vhBytes("body", 3)
	if a.want == "" {
		// response side
		rw := &vhRW{hdr: http.Header{"Content-Encoding": []string{"stale"}, "Content-Length": []string{"3"}}}
		err := CompressResponse(bytes.NewReader(body), a.header, rw, 201)
		vhAssert(err == nil && rw.status == 201 && bytes.Equal(rw.body.Bytes(), body), "response-body-unchanged-without-a-common-coding")
		vhAssert(rw.hdr.Get("Content-Encoding") == "", "no-coding-announced")
		// request side
		req := &http.Request{Header: http.Header{}, Body: io.NopCloser(bytes.NewReader(body)), ContentLength: 3}
		vhAssert(CompressRequest(req, a.header) == nil && req.Header.Get("Content-Encoding") == "", "request-left-alone")
		got, _ := io.ReadAll(req.Body)
		vhAssert(bytes.Equal(got, body), "request-body-unchanged-without-a-common-coding")
	}
	// receiving side: plain bodies pass, unknown codings are refused
	for _, enc := range []string{"", "identity"} {
		req := &http.Request{Header: http.Header{"Content-Encoding": []string{enc}}, Body: io.NopCloser(bytes.NewReader(body))}
		vhAssert(DecompressRequest(req) == nil, "plain-request-accepted")
		got, _ := io.ReadAll(req.Body)
		vhAssert(bytes.Equal(got, body), "plain-request-body-unchanged")
		resp := &http.Response{Header: http.Header{"Content-Encoding": []string{enc}}, Body: io.NopCloser(bytes.NewReader(body))}
		vhAssert(DecompressResponse(resp) == nil, "plain-response-accepted")
		got, _ = io.ReadAll(resp.Body)
		vhAssert(bytes.Equal(got, body), "plain-response-body-unchanged")
	}
	req := &http.Request{Header: http.Header{"Content-Encoding": []string{"br"}}, Body: io.NopCloser(bytes.NewReader(body))}
	vhAssert(DecompressRequest(req) == ErrUnacceptableEncoding, "unknown-request-coding-refused")
	resp := &http.Response{Header: http.Header{"Content-Encoding": []string{"br"}}, Body: io.NopCloser(bytes.NewReader(body))}
	vhAssert(DecompressResponse(resp) == ErrUnacceptableEncoding, "unknown-response-coding-refused")
	vhReach("negotiated") // vh:require negotiated
}
