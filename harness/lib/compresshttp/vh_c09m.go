//go:build verif

package compresshttp

import (
	"bytes"
	"io"
	"net/http"
	"net/url"
)

// a stand-in codec: bytes are visibly transformed (xor 0x55) so that a body
// announced with one coding and sent with another cannot go unnoticed
type vhCodec struct {
	w      io.Writer
	closed *bool
}

func (c vhCodec) Write(p []byte) (int, error) {
	q := make([]byte, len(p))
	for i, b := range p {
		q[i] = b ^ 0x55
	}
	_, err := c.w.Write(q)
	return len(p), err
}
func (c vhCodec) Close() error { *c.closed = true; return nil }

// H09.response: the server-side middleware compresses what a handler writes.
// The gzip / snappy codecs are a stub (a visible byte transform); the
// negotiation, header bookkeeping and the wrapper around the handler's
// ResponseWriter are the real code. For every Accept-Encoding among none /
// gzip / snappy / identity / unknown, every handler behaviour (explicit
// status 200, 404 or 500 or none; 0..2 writes of symbolic bytes; a flush in
// between): the client - decoding by the Content-Encoding it is given -
// recovers exactly the bytes the handler wrote; error responses (>= 300) go
// out uncompressed and unannounced; a coding is announced exactly when the
// body is transformed; the codec is closed when it was opened.
func VH_C09_ResponseCompression() {
	// vh:stubbed
	closed := false
	opened := ""
	vhStub("github.com/sassoftware/relic/v8/lib/compresshttp.setupCompression", func(encoding string, w io.Writer) (io.WriteCloser, error) {
		switch encoding {
		case EncodingIdentity, "":
			return nopCloseWriter{Writer: w}, nil
		case EncodingGzip, EncodingSnappy:
			opened = encoding
			return vhCodec{w: w, closed: &closed}, nil
		}
		return nil, ErrUnacceptableEncoding
	})
	accept := []string{"", EncodingGzip, EncodingSnappy + ", " + EncodingGzip, EncodingIdentity, "br"}[vhConcretize(vhInt("accept-encoding", 0, 4), 5)]
	status := []int{0, 200, 404, 500}[vhConcretize(vhInt("explicit-status", 0, 3), 4)]
	writes := vhConcretize(vhInt("writes", 0, 2), 3)
	flush := vhBool("flush-between")
	var sent []byte
	handler := http.HandlerFunc(func(w http.ResponseWriter, r *http.Request) {
		if status != 0 {
			w.WriteHeader(status)
		}
		for i := 0; i < writes; i++ {
			chunk := vhBytes("chunk", 2)
			sent = append(sent, chunk...)
			n, err := w.Write(chunk)
			vhAssert(err == nil && n == len(chunk), "handler-write-succeeds")
			if flush {
				if f, ok := w.(http.Flusher); ok {
					f.Flush()
				}
			}
		}
	})
	rw := &vhRW{hdr: http.Header{}}
	req := &http.Request{Method: "POST", URL: &url.URL{Path: "/sign"}, Header: http.Header{}, Body: io.NopCloser(bytes.NewReader(nil)), RemoteAddr: "192.0.2.1:9"}
	if accept != "" {
		req.Header.Set("Accept-Encoding", accept)
	}
	Middleware(handler).ServeHTTP(rw, req)
	vhReach("served") // vh:require served
	announced := rw.hdr.Get("Content-Encoding")
	body := rw.body.Bytes()
	decoded := body
	if announced == EncodingGzip || announced == EncodingSnappy {
		decoded = make([]byte, len(body))
		for i, b := range body {
			decoded[i] = b ^ 0x55
		}
	} else {
		vhAssert(announced == "" || announced == EncodingIdentity, "only-implemented-codings-announced")
	}
	vhAssert(bytes.Equal(decoded, sent), "client-recovers-exactly-what-the-handler-wrote")
	if status >= 300 {
		vhAssert(announced == "" && opened == "", "error-responses-uncompressed-and-unannounced")
	}
	vhAssert((opened != "") == (announced == EncodingGzip || announced == EncodingSnappy) || writes == 0, "coding-announced-iff-body-transformed")
	if opened != "" {
		vhAssert(opened == announced && closed, "announced-coding-is-the-one-used-and-it-is-closed")
	}
	if status != 0 {
		vhAssert(rw.status == status, "handler-status-passed-through")
	}
}
