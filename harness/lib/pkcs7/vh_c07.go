//go:build verif

package pkcs7

import (
	"bytes"
	"crypto"
	"crypto/ecdsa"
	"crypto/rsa"
	"crypto/x509"
	"errors"
	"io"
	"math/big"
)

type vhSigner struct {
	pub    crypto.PublicKey
	calls  int
	signed []byte
	fail   bool
}

func (s *vhSigner) Public() crypto.PublicKey { return s.pub }
func (s *vhSigner) Sign(r io.Reader, d []byte, o crypto.SignerOpts) ([]byte, error) {
	s.calls++
	s.signed = d
	if s.fail {
		return nil, errors.New("token failure")
	}
	return []byte{0x5, 0x16}, nil
}

func vhPub(tag string) (key crypto.PublicKey, alg int, a, b uint64) {
	alg = vhConcretize(vhInt(tag+"-alg", 0, 1), 2)
	a, b = vhU64(tag+"-a"), vhU64(tag+"-b")
	if alg == 0 {
		vhAssume(b < 1<<31)
		return &rsa.PublicKey{N: new(big.Int).SetUint64(a), E: int(b)}, alg, a, b
	}
	return &ecdsa.PublicKey{X: new(big.Int).SetUint64(a), Y: new(big.Int).SetUint64(b)}, alg, a, b
}

// H07.builder: the PKCS#7 builder emits a SignedData only when the first
// certificate it was given belongs to the signing key; otherwise it returns
// an error without asking the key to sign. What it emits lists that
// certificate first, names it as the signer (issuer and serial number) and
// carries exactly the value the key returned, computed over the content
// digest it was given. A failing key yields an error, not a structure.
func VH_C07_BuilderRefusesMismatch() {
	keyPub, kalg, ka, kb := vhPub("signing-key")
	certPub, calg, ca, cb := vhPub("first-certificate-key")
	ncerts := vhConcretize(vhInt("certificates", 0, 2), 3)
	signer := &vhSigner{pub: keyPub, fail: vhBool("key-fails")}
	leaf := &x509.Certificate{PublicKey: certPub, Raw: []byte{0x30, 1}, RawIssuer: []byte{0x30, 7}, SerialNumber: big.NewInt(77)}
	other := &x509.Certificate{PublicKey: keyPub, Raw: []byte{0x30, 2}, RawIssuer: []byte{0x30, 8}, SerialNumber: big.NewInt(88)}
	certs := []*x509.Certificate{leaf, other}[:ncerts]
	sb := NewBuilder(signer, certs, crypto.SHA256)
	digest := vhBytes("content-digest", 32)
	err := sb.SetDetachedContent(OidData, digest)
	vhAssert(err == nil, "detached-content-accepted")
	psd, err := sb.Sign()
	match := ncerts >= 1 && kalg == calg && ka == ca && kb == cb
	if err == nil {
		vhReach("signed") // vh:require signed
		vhAssert(match, "certificate-for-another-key-refused")
		vhAssert(!signer.fail && signer.calls == 1, "key-signed-once")
		vhAssert(bytes.Equal(signer.signed, digest), "signature-over-the-content-digest")
		sd := psd.Content
		vhAssert(len(sd.Certificates) == ncerts && bytes.Equal(sd.Certificates[0].FullBytes, leaf.Raw), "embedded-chain-begins-with-the-leaf")
		vhAssert(len(sd.SignerInfos) == 1, "one-signer-info")
		si := sd.SignerInfos[0]
		vhAssert(bytes.Equal(si.IssuerAndSerialNumber.IssuerName.FullBytes, leaf.RawIssuer) && si.IssuerAndSerialNumber.SerialNumber.Cmp(leaf.SerialNumber) == 0, "signer-info-names-the-leaf")
		vhAssert(bytes.Equal(si.EncryptedDigest, []byte{0x5, 0x16}), "signature-value-is-the-keys")
	} else {
		vhReach("refused") // vh:require refused
		vhAssert(psd == nil, "no-structure-on-error")
		if !match {
			vhAssert(signer.calls == 0, "key-not-used-under-a-foreign-certificate")
		} else {
			vhAssert(signer.fail, "matching-pair-signs")
		}
	}
}
