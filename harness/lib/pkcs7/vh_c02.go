//go:build verif

package pkcs7

import (
	"bytes"
	"crypto"
	"crypto/sha256"
	"crypto/x509"
	"crypto/x509/pkix"
	"encoding/asn1"
	"errors"

	"github.com/sassoftware/relic/v8/lib/x509tools"
)

// H02.signerinfo: what SignedData.Verify / SignerInfo.Verify demand before a
// CMS signature counts. The ASN.1 layer (attribute decoding, the SET OF
// re-encoding, certificate parsing) and the public-key operation are stubs:
// the attribute list yields an ARBITRARY messageDigest value and arbitrary
// attribute bytes, and the key operation accepts exactly one digest value
// (the one "the signer signed"). The control flow and the comparisons are the
// real code. For embedded or detached content (symbolic bytes), with and
// without signed attributes, one or two signer infos: success is returned
// only if - for EVERY signer info - the messageDigest attribute equals the
// digest of the content actually presented AND the value the key operation
// was asked about is the digest of the attribute bytes (or of the content
// itself when there are no attributes) AND that value is the one signed;
// conflicting embedded and external content, no signer info, an unknown
// signer certificate are errors.
func VH_C02_SignerInfoChecks() {
	// vh:stubbed
	content := vhBytes("content", 2)
	presented := vhBytes("presented-content", 2)
	detached := vhBool("detached")
	attrs := vhBool("signed-attributes")
	nsigners := vhConcretize(vhInt("signer-infos", 0, 2), 3)
	md := [][]byte{vhBytes("message-digest-attribute-1", 32), vhBytes("message-digest-attribute-2", 32)}
	attrBytes := [][]byte{vhBytes("attribute-bytes-1", 3), vhBytes("attribute-bytes-2", 3)}
	signedValue := vhBytes("digest-the-signer-signed", 32)
	certKnown := vhBool("signer-certificate-present")

	vhStub("(github.com/sassoftware/relic/v8/lib/pkcs7.ContentInfo).Bytes", func(ci ContentInfo) ([]byte, error) {
		if detached {
			return nil, nil
		}
		return content, nil
	})
	vhStub("(github.com/sassoftware/relic/v8/lib/pkcs7.RawCertificates).Parse", func(raw RawCertificates) ([]*x509.Certificate, error) {
		return []*x509.Certificate{{Raw: []byte("leaf")}}, nil
	})
	vhStub("(*github.com/sassoftware/relic/v8/lib/pkcs7.AttributeList).GetOne", func(l *AttributeList, oid asn1.ObjectIdentifier, dest interface{}) error {
		idx := int((*l)[0].Values.Bytes[0])
		*(dest.(*[]byte)) = md[idx]
		return nil
	})
	vhStub("(github.com/sassoftware/relic/v8/lib/pkcs7.SignerInfo).AuthenticatedAttributesBytes", func(i SignerInfo) ([]byte, error) {
		return attrBytes[int(i.AuthenticatedAttributes[0].Values.Bytes[0])], nil
	})
	vhStub("(*github.com/sassoftware/relic/v8/lib/pkcs7.SignerInfo).FindCertificate", func(si *SignerInfo, certs []*x509.Certificate) (*x509.Certificate, error) {
		if !certKnown {
			return nil, MissingCertificateError{}
		}
		return certs[0], nil
	})
	var asked [][]byte
	vhStub("github.com/sassoftware/relic/v8/lib/x509tools.PkixVerify", func(pub crypto.PublicKey, digestAlg, sigAlg pkix.AlgorithmIdentifier, digest, sig []byte) error {
		asked = append(asked, digest)
		if bytes.Equal(digest, signedValue) {
			return nil
		}
		return errors.New("crypto: verification error")
	})
	alg, _ := x509tools.PkixDigestAlgorithm(crypto.SHA256)
	sd := &SignedData{}
	for i := 0; i < nsigners; i++ {
		si := SignerInfo{DigestAlgorithm: alg}
		if attrs {
			si.AuthenticatedAttributes = AttributeList{{Values: asn1.RawValue{Bytes: []byte{byte(i)}}}}
		}
		sd.SignerInfos = append(sd.SignerInfos, si)
	}
	var ext []byte
	if detached || vhBool("external-content-also-given") {
		ext = presented
	}
	sig, err := sd.Verify(ext, false)
	vhReach("decided") // vh:require decided
	if err != nil {
		vhReach("rejected") // vh:require rejected
		return
	}
	vhReach("accepted") // vh:require accepted
	vhAssert(nsigners > 0 && certKnown && sig.SignerInfo != nil && sig.Certificate != nil, "acceptance-needs-a-signer-and-its-certificate")
	actual := content
	if detached {
		actual = presented
	} else if ext != nil {
		vhAssert(bytes.Equal(presented, content), "conflicting-embedded-and-external-content-never-accepted")
	}
	want := sha256.Sum256(actual)
	vhAssert(len(asked) == nsigners, "every-signer-info-checked-cryptographically")
	for i := 0; i < nsigners; i++ {
		if attrs {
			vhAssert(bytes.Equal(md[i], want[:]), "message-digest-attribute-is-the-digest-of-the-presented-content")
			ad := sha256.Sum256(attrBytes[i])
			vhAssert(bytes.Equal(asked[i], ad[:]), "signature-checked-over-the-attribute-bytes")
		} else {
			vhAssert(bytes.Equal(asked[i], want[:]), "signature-checked-over-the-content-digest")
		}
		vhAssert(bytes.Equal(asked[i], signedValue), "only-the-signed-value-verifies")
	}
}
