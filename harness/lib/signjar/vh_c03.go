//go:build verif

package signjar

import (
	"bytes"
	"crypto"
	"crypto/x509"
	"encoding/binary"

	"github.com/sassoftware/relic/v8/lib/binpatch"
	"github.com/sassoftware/relic/v8/lib/zipslicer"
)

type vhJarMember struct {
	name string
	data []byte
	off  int
}

// stored members, optional leading bytes (a launcher script) and an optional
// gap before the second member
func vhJarZip(prefix, gap, tail []byte, ms []*vhJarMember) []byte {
	var f bytes.Buffer
	le := binary.LittleEndian
	f.Write(prefix)
	for i, m := range ms {
		if i == 1 {
			f.Write(gap)
		}
		m.off = f.Len()
		binary.Write(&f, le, uint32(0x04034b50))
		binary.Write(&f, le, []uint16{20, 0, 0, 0, 0})
		binary.Write(&f, le, []uint32{0, uint32(len(m.data)), uint32(len(m.data))})
		binary.Write(&f, le, []uint16{uint16(len(m.name)), 0})
		f.WriteString(m.name)
		f.Write(m.data)
	}
	f.Write(tail)
	cd := f.Len()
	for _, m := range ms {
		binary.Write(&f, le, uint32(0x02014b50))
		binary.Write(&f, le, []uint16{20, 20, 0, 0, 0, 0})
		binary.Write(&f, le, []uint32{0, uint32(len(m.data)), uint32(len(m.data))})
		binary.Write(&f, le, []uint16{uint16(len(m.name)), 0, 0, 0, 0})
		binary.Write(&f, le, []uint32{0, uint32(m.off)})
		f.WriteString(m.name)
	}
	size := f.Len() - cd
	binary.Write(&f, le, uint32(0x06054b50))
	binary.Write(&f, le, []uint16{0, 0, uint16(len(ms)), uint16(len(ms))})
	binary.Write(&f, le, []uint32{uint32(size), uint32(cd)})
	binary.Write(&f, le, uint16(0))
	return f.Bytes()
}

// independent reading of an archive: name -> data of every directory entry,
// taken from where the directory says the member is; ok=false if any entry
// does not point at a local header with its own name
func vhJarRead(file []byte) (map[string][]byte, []string, bool) {
	le := binary.LittleEndian
	if len(file) < 22 || le.Uint32(file[len(file)-22:]) != 0x06054b50 {
		return nil, nil, false
	}
	end := file[len(file)-22:]
	n, cd := int(le.Uint16(end[10:])), int(le.Uint32(end[16:]))
	out := map[string][]byte{}
	var order []string
	for i := 0; i < n; i++ {
		if cd+46 > len(file) || le.Uint32(file[cd:]) != 0x02014b50 {
			return nil, nil, false
		}
		csize := int(le.Uint32(file[cd+20:]))
		nl, el, cl := int(le.Uint16(file[cd+28:])), int(le.Uint16(file[cd+30:])), int(le.Uint16(file[cd+32:]))
		off := int(le.Uint32(file[cd+42:]))
		name := string(file[cd+46 : cd+46+nl])
		cd += 46 + nl + el + cl
		if off+30 > len(file) || le.Uint32(file[off:]) != 0x04034b50 {
			return nil, nil, false
		}
		lnl, lel := int(le.Uint16(file[off+26:])), int(le.Uint16(file[off+28:]))
		if off+30+lnl+lel+csize > len(file) || string(file[off+30:off+30+lnl]) != name {
			return nil, nil, false
		}
		out[name] = file[off+30+lnl+lel : off+30+lnl+lel+csize]
		order = append(order, name)
	}
	return out, order, true
}

func vhJarApply(x []byte, p *binpatch.PatchSet) []byte {
	var out []byte
	pos := int64(0)
	for i, h := range p.Patches {
		out = append(out, x[pos:h.Offset]...)
		out = append(out, p.Blobs[i]...)
		pos = h.Offset + int64(h.OldSize)
	}
	return append(out, x[pos:]...)
}

// H03.jar / H08.jar: inserting the signature files into a JAR (new META-INF/
// entry, manifest, .SF and signature block in front; old signature files
// dropped; everything else re-indexed, not rewritten) gives an archive in
// which an independent reader finds every kept member with its own bytes and
// the new files with theirs, and no old signature file - or the input is
// refused. Inputs: contiguous archives, archives with leading bytes (a
// launcher script), with a gap between members and with bytes between the
// last member and the directory; unsigned and already signed. Stored members (the deflater is not encoded).
func VH_C03_JarInsertSignature() {
	vhMaxLen(4096)
	vhLoopBound(400)
	vhClockConcrete() // member timestamps are not part of the claim
	manifest := []byte("Manifest-Version: 1.0\r\n\r\n")
	ms := []*vhJarMember{{name: manifestName, data: manifest}, {name: "a.class", data: vhBytes("class-bytes", 2)}}
	signed := vhBool("already-signed")
	if signed {
		ms = append(ms, &vhJarMember{name: metaInf + "OLD.SF", data: vhBytes("old-signature-file", 1)})
	}
	ms = append(ms, &vhJarMember{name: "META-INF/services/x", data: vhBytes("kept-meta-inf-file", 1)})
	prefix := vhBytes("launcher-script", vhConcretize(vhInt("leading-bytes", 0, 1), 2))
	gap := vhBytes("gap", vhConcretize(vhInt("gap-bytes", 0, 1), 2))
	tail := vhBytes("bytes-before-directory", vhConcretize(vhInt("tail-bytes", 0, 1), 2))
	file := vhJarZip(prefix, gap, tail, ms)
	inz, err := zipslicer.Read(bytes.NewReader(file), int64(len(file)))
	vhAssert(err == nil, "archive-parses")
	if err != nil {
		return
	}
	jd := &JarDigest{Hash: crypto.SHA256, Manifest: manifest, inz: inz}
	sf, sig := vhBytes("signature-file", 2), vhBytes("signature-block", 2)
	patch, err := jd.insertSignature(&x509.Certificate{}, "relic", sf, sig)
	if err != nil {
		vhReach("refused")
		vhAssert(len(prefix) != 0 || len(gap) != 0 || len(tail) != 0, "contiguous-archive-not-refused")
		return
	}
	out := vhJarApply(file, patch)
	got, order, ok := vhJarRead(out)
	vhReach("rewritten") // vh:require rewritten
	if len(prefix) == 0 && len(gap) == 0 && len(tail) == 0 {
		vhAssert(ok, "every-entry-points-at-its-member")
	} else {
		vhAssert(ok, "every-entry-points-at-its-member/leading-data-or-gaps")
	}
	if !ok {
		return
	}
	vhAssert(bytes.Equal(got["a.class"], ms[1].data) && bytes.Equal(got["META-INF/services/x"], ms[len(ms)-1].data), "kept-members-have-their-bytes")
	vhAssert(bytes.Equal(got[manifestName], manifest) && bytes.Equal(got[metaInf+"SIG-RELIC.SF"], sf) && bytes.Equal(got[metaInf+"SIG-RELIC.SIG"], sig), "new-files-have-their-bytes")
	_, old := got[metaInf+"OLD.SF"]
	vhAssert(!old, "old-signature-file-gone")
	vhAssert(len(order) == 6 && order[0] == metaInf && order[1] == manifestName, "meta-inf-and-manifest-lead-the-archive")
}

func VH_C08_JarResignReplacesSignatureFiles() { VH_C03_JarInsertSignature() }
