//go:build verif

package signjar

import (
	"bytes"
	"crypto"
)

// H05.jar-fold: manifest attributes are written the way the JAR specification
// prescribes ("no line may be longer than 72 bytes" including the line
// break; a continuation line starts with exactly one space): for every value
// length around the folding boundaries, with symbolic value bytes, every
// physical line is at most 72 bytes, continuation lines begin with one space,
// unfolding gives back "key: value", and relic's own section parser reads the
// value back.
func VH_C05_JarAttributeFolding() {
	vhMaxLen(600)
	vhLoopBound(400)
	lens := []int{0, 1, 63, 64, 65, 132, 133, 134, 135}
	n := lens[vhConcretize(vhInt("value-length-index", 0, len(lens)-1), 16)]
	raw := vhBytes("value", n)
	const letters = "ABCDEFGHIJKLMNOPQRSTUVWXYZabcdef"
	val := make([]byte, n)
	for i, c := range raw {
		val[i] = letters[int(c)%len(letters)]
	}
	var out bytes.Buffer
	writeAttribute(&out, "Name", string(val))
	text := out.Bytes()
	vhAssert(len(text) >= 2 && bytes.HasSuffix(text, []byte("\r\n")), "ends-with-a-line-break")
	// split into physical lines
	var unfolded []byte
	start := 0
	lines := 0
	for i := 0; i+1 < len(text); i++ {
		if text[i] == '\r' && text[i+1] == '\n' {
			line := text[start : i+2]
			vhAssert(len(line) <= 72, "no-line-longer-than-72-bytes")
			if lines == 0 {
				unfolded = append(unfolded, line[:len(line)-2]...)
			} else {
				vhAssert(len(line) >= 3 && line[0] == ' ', "continuation-starts-with-one-space")
				unfolded = append(unfolded, line[1:len(line)-2]...)
			}
			lines++
			start = i + 2
			i++
		}
	}
	vhAssert(start == len(text), "nothing-after-the-last-line-break")
	vhAssert(bytes.Equal(unfolded, append([]byte("Name: "), val...)), "unfolding-gives-key-and-value")
	hdr, err := parseSection(text)
	vhAssert(err == nil && hdr.Get("Name") == string(val), "own-parser-reads-the-value-back")
	vhReach("folded") // vh:require folded
}

// H05.jar-sf: the .SF file DigestManifest writes carries the digests the JAR
// specification prescribes - of the main attributes (first section including
// its blank line), of the whole manifest (unless sections-only was asked for)
// and of each individual section as it stands in the manifest - under the
// "<ALG>-Digest..." names, names the section after its Name attribute, and is
// accepted by relic's own .SF verifier for that manifest. One section name
// letter is symbolic (digests of symbolic text go through the hash model).
func VH_C05_JarSignatureFileDigests() {
	vhMaxLen(4096)
	vhLoopBound(600)
	const letters = "abcdefgh"
	name := string([]byte{letters[int(vhU8("member-name-letter"))%len(letters)]}) + ".class"
	main := "Manifest-Version: 1.0\r\nCreated-By: test\r\n\r\n"
	sec := "Name: " + name + "\r\nSHA-256-Digest: " + vhB64([]byte("class bytes")) + "\r\n\r\n"
	manifest := []byte(main + sec)
	sectionsOnly := vhBool("sections-only")
	apk := vhBool("apk-v2-marker")
	sf, err := DigestManifest(manifest, crypto.SHA256, sectionsOnly, apk)
	vhAssert(err == nil, "signature-file-written")
	if err != nil {
		return
	}
	parsed, err := ParseManifest(sf)
	vhAssert(err == nil, "signature-file-is-a-manifest")
	if err != nil {
		return
	}
	vhAssert(parsed.Main.Get("Signature-Version") == "1.0", "signature-version-present")
	vhAssert(parsed.Main.Get("SHA-256-Digest-Manifest-Main-Attributes") == vhB64([]byte(main)), "main-attributes-digest-per-specification")
	if sectionsOnly {
		vhAssert(parsed.Main.Get("SHA-256-Digest-Manifest") == "", "no-whole-manifest-digest-when-sections-only")
	} else {
		vhAssert(parsed.Main.Get("SHA-256-Digest-Manifest") == vhB64(manifest), "whole-manifest-digest-per-specification")
	}
	vhAssert((parsed.Main.Get("X-Android-APK-Signed") == "2") == apk, "apk-marker-only-when-asked")
	s := parsed.Files[name]
	vhAssert(len(parsed.Files) == 1 && s != nil && s.Get("SHA-256-Digest") == vhB64([]byte(sec)), "section-digest-per-specification")
	_, err = verifySigFile(sf, manifest)
	vhAssert(err == nil, "own-verifier-accepts-it")
	vhReach("digested") // vh:require digested
}
