//go:build verif

package signjar

import (
	"crypto/sha256"
	"encoding/base64"
)

func vhB64(b []byte) string {
	s := sha256.Sum256(b)
	return base64.StdEncoding.EncodeToString(s[:])
}

// H02.jar-sf: the signed .SF file protects the manifest. With the default
// .SF (whole-manifest digest, main-attributes digest, one digest per
// section), verifySigFile accepts the manifest it was made for and rejects
// every altered one: a byte changed inside a section, a section removed, a
// section appended for a member nobody signed. The changed byte and the
// appended section's name are symbolic; digests of symbolic text go through
// the injective hash model.
func VH_C02_JarSignatureFileCoversManifest() {
	vhMaxLen(4096)
	main := "Manifest-Version: 1.0\r\n\r\n"
	secA := "Name: a.class\r\nSHA-256-Digest: " + vhB64([]byte("class a")) + "\r\n\r\n"
	secB := "Name: b.class\r\nSHA-256-Digest: " + vhB64([]byte("class b")) + "\r\n\r\n"
	manifest := main + secA + secB
	sf := "Signature-Version: 1.0\r\n" +
		"SHA-256-Digest-Manifest-Main-Attributes: " + vhB64([]byte(main)) + "\r\n" +
		"SHA-256-Digest-Manifest: " + vhB64([]byte(manifest)) + "\r\n\r\n" +
		"Name: a.class\r\nSHA-256-Digest: " + vhB64([]byte(secA)) + "\r\n\r\n" +
		"Name: b.class\r\nSHA-256-Digest: " + vhB64([]byte(secB)) + "\r\n\r\n"
	hdr, err := verifySigFile([]byte(sf), []byte(manifest))
	vhAssert(err == nil && hdr != nil, "untouched-manifest-verifies")
	tampered := []byte(manifest)
	switch vhConcretize(vhInt("alteration", 0, 2), 3) {
	case 0:
		// one byte of the digest value recorded for a.class replaced by another base64 letter
		pos := len(main) + len("Name: a.class\r\nSHA-256-Digest: ") + vhConcretize(vhInt("position", 0, 2), 3)
		const letters = "ABCDEFGHabcdefgh01234567"
		c := letters[int(vhU8("letter"))%len(letters)]
		vhAssume(c != tampered[pos])
		tampered[pos] = c
	case 1:
		tampered = []byte(main + secA)
	case 2:
		const letters = "cdefghij"
		name := string([]byte{letters[int(vhU8("new-member-name"))%len(letters)]}) + ".class"
		tampered = []byte(manifest + "Name: " + name + "\r\nSHA-256-Digest: " + vhB64([]byte("unsigned class")) + "\r\n\r\n")
	}
	_, err = verifySigFile([]byte(sf), tampered)
	vhReach("checked") // vh:require checked
	vhAssert(err != nil, "altered-manifest-rejected")
}
