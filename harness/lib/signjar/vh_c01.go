//go:build verif

package signjar

import (
	"archive/zip"
	"bytes"
	"crypto"
	"crypto/sha1"
	"crypto/x509"
	"encoding/base64"
	"errors"

	"github.com/sassoftware/relic/v8/lib/pkcs7"
	"github.com/sassoftware/relic/v8/lib/pkcs9"
	"github.com/sassoftware/relic/v8/lib/zipslicer"
)

// the CMS layer as a stub: any blob decodes, the signature over the .SF
// verifies unless told otherwise
func vhJarCms(bad *bool) {
	vhStub("github.com/sassoftware/relic/v8/lib/pkcs7.Unmarshal", func(blob []byte) (*pkcs7.ContentInfoSignedData, error) {
		psd := &pkcs7.ContentInfoSignedData{}
		psd.Content.SignerInfos = make([]pkcs7.SignerInfo, 1)
		return psd, nil
	})
	vhStub("(*github.com/sassoftware/relic/v8/lib/pkcs7.SignedData).Verify", func(sd *pkcs7.SignedData, ext []byte, skip bool) (pkcs7.Signature, error) {
		if *bad {
			return pkcs7.Signature{}, errors.New("pkcs7: signature mismatch")
		}
		return pkcs7.Signature{SignerInfo: &sd.SignerInfos[0]}, nil
	})
	vhStub("github.com/sassoftware/relic/v8/lib/pkcs9.VerifyOptionalTimestamp", func(sig pkcs7.Signature) (pkcs9.TimestampedSignature, error) {
		return pkcs9.TimestampedSignature{Signature: sig}, nil
	})
}

// H01.jar / H02.jar: the whole JAR path with only the CMS layer stubbed:
// digest the members and bring the manifest up to date (updateManifest: entry
// missing / present with the right digest / present with another algorithm's
// digest only / present with a wrong digest), write the .SF (DigestManifest),
// insert manifest, .SF and block (insertSignature), then read the result with
// the standard library's zip reader and run relic's own Verify with digest
// checking. The manifest entry is the base64
// SHA-256 of the member; a stale digest is refused at signing; the signed JAR
// verifies; with one member byte changed after signing (symbolic value), or a
// bad CMS signature, it does not.
func VH_C01_JarSignedVerifies() {
	// vh:stubbed
	vhMaxLen(4096)
	vhLoopBound(600)
	vhClockConcrete()
	data := []byte{0xca, 0xfe} // concrete: the manifest text carries its digest and is parsed again
	right := vhB64(data) // base64 of the SHA-256 of its argument
	var manifest string
	shape := vhConcretize(vhInt("manifest-shape", 0, 3), 4)
	switch shape {
	case 0:
		manifest = "Manifest-Version: 1.0\r\n\r\n"
	case 1:
		manifest = "Manifest-Version: 1.0\r\n\r\nName: a.class\r\nSHA-256-Digest: " + right + "\r\n\r\n"
	case 2:
		s1 := sha1.Sum(data)
		manifest = "Manifest-Version: 1.0\r\n\r\nName: a.class\r\nSHA1-Digest: " + base64.StdEncoding.EncodeToString(s1[:]) + "\r\n\r\n"
	case 3:
		manifest = "Manifest-Version: 1.0\r\n\r\nName: a.class\r\nSHA-256-Digest: " + vhB64(append([]byte{'x'}, data...)) + "\r\n\r\n"
	}
	ms := []*vhJarMember{{name: manifestName, data: []byte(manifest)}, {name: "a.class", data: data}, {name: "META-INF/OLD.SF", data: []byte("x")}}
	file := vhJarZip(nil, nil, nil, ms)
	inz, err := zipslicer.Read(bytes.NewReader(file), int64(len(file)))
	vhAssert(err == nil, "archive-parses")
	jd, err := updateManifest(inz, crypto.SHA256)
	if shape == 3 {
		vhAssert(err != nil, "stale-manifest-digest-refused-at-signing")
		vhReach("refused") // vh:require refused
		return
	}
	vhAssert(err == nil && jd != nil, "manifest-brought-up-to-date")
	parsed, err := ParseManifest(jd.Manifest)
	vhAssert(err == nil && len(parsed.Files) == 1 && parsed.Files["a.class"] != nil, "one-entry-for-the-one-payload-member")
	vhAssert(parsed.Files["a.class"].Get("SHA-256-Digest") == right, "entry-carries-the-member-digest")
	if shape == 1 {
		vhAssert(string(jd.Manifest) == manifest, "up-to-date-manifest-left-byte-identical")
	}
	sf, err := DigestManifest(jd.Manifest, crypto.SHA256, vhBool("sections-only"), false)
	vhAssert(err == nil, "signature-file-written")
	patch, err := jd.insertSignature(&x509.Certificate{}, "relic", sf, []byte("cms"))
	vhAssert(err == nil, "signature-inserted")
	out := vhJarApply(file, patch)

	bad := false
	vhJarCms(&bad)
	zr, err := zip.NewReader(bytes.NewReader(out), int64(len(out)))
	vhAssert(err == nil, "standard-zip-reader-opens-the-signed-jar")
	sigs, err := Verify(zr, false)
	vhAssert(err == nil && len(sigs) == 1, "own-signature-verifies-with-digest-checking")

	switch vhConcretize(vhInt("alteration", 0, 1), 2) {
	case 0:
		tampered := append([]byte{}, out...)
		at := bytes.Index(out, []byte("a.class")) + len("a.class")
		tampered[at] = vhU8("new-value")
		vhAssume(tampered[at] != out[at])
		zt, err := zip.NewReader(bytes.NewReader(tampered), int64(len(tampered)))
		vhAssert(err == nil, "tampered-jar-opens")
		_, err = Verify(zt, false)
		vhAssert(err != nil, "changed-member-byte-rejected")
	case 1:
		bad = true
		_, err = Verify(zr, false)
		vhAssert(err != nil, "bad-cms-signature-rejected")
	}
	vhReach("verified") // vh:require verified
}

func VH_C02_JarAlteredMemberRejected() { VH_C01_JarSignedVerifies() }

// H02.jar-extra: a member added to a signed JAR after signing. verifyManifest
// (the digest pass of Verify, no CMS involved) is given a manifest listing
// a.class with its digest and an archive that also holds a class the manifest
// does not mention: the property wants this reported; relic walks only the
// manifest's entries and accepts - recorded known finding.
func VH_C02_JarUnlistedMemberRejected() {
	vhMaxLen(4096)
	vhLoopBound(600)
	data := []byte{0xca, 0xfe}
	manifest := []byte("Manifest-Version: 1.0\r\n\r\nName: a.class\r\nSHA-256-Digest: " + vhB64(data) + "\r\n\r\n")
	extra := vhBytes("added-class", vhConcretize(vhInt("added-bytes", 1, 2), 3))
	ms := []*vhJarMember{{name: manifestName, data: manifest}, {name: "a.class", data: data}}
	file := vhJarZip(nil, nil, nil, ms)
	zr, err := zip.NewReader(bytes.NewReader(file), int64(len(file)))
	vhAssert(err == nil && verifyManifest(zr, manifest) == nil, "listed-members-verify")
	grown := vhJarZip(nil, nil, nil, append(ms, &vhJarMember{name: "b.class", data: extra}))
	zg, err := zip.NewReader(bytes.NewReader(grown), int64(len(grown)))
	vhAssert(err == nil, "grown-jar-opens")
	vhReach("checked") // vh:require checked
	vhAssert(verifyManifest(zg, manifest) != nil, "member-not-listed-in-the-manifest-rejected")
}

// H02.jar-dup: two archive members with one name (the "master key" shape: a
// verifier that looks at one copy while the consumer uses the other).
// verifyManifest is given a manifest vouching for a.class and an archive in
// which a second a.class with other content sits in front of the genuine
// one: rejected - whichever copy comes first.
func VH_C02_JarDuplicateMemberRejected() {
	vhMaxLen(4096)
	vhLoopBound(600)
	data := []byte{0xca, 0xfe}
	manifest := []byte("Manifest-Version: 1.0\r\n\r\nName: a.class\r\nSHA-256-Digest: " + vhB64(data) + "\r\n\r\n")
	evil := &vhJarMember{name: "a.class", data: vhBytes("other-content", 2)}
	good := &vhJarMember{name: "a.class", data: data}
	ms := []*vhJarMember{{name: manifestName, data: manifest}, evil, good}
	if vhBool("genuine-copy-first") {
		ms[1], ms[2] = good, evil
	}
	file := vhJarZip(nil, nil, nil, ms)
	zr, err := zip.NewReader(bytes.NewReader(file), int64(len(file)))
	vhAssert(err == nil, "archive-opens")
	vhReach("checked") // vh:require checked
	vhAssert(verifyManifest(zr, manifest) != nil, "duplicate-member-name-rejected")
}
