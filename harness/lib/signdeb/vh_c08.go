//go:build verif

package signdeb

import (
	"archive/tar"
	"bytes"
	"crypto"
	_ "crypto/md5"
	_ "crypto/sha1"
	_ "crypto/sha256"
	"io"

	"github.com/ProtonMail/go-crypto/openpgp"
	"github.com/ProtonMail/go-crypto/openpgp/packet"
	"github.com/blakesmith/ar"

	"github.com/sassoftware/relic/v8/lib/binpatch"
)

type vhDebMember struct {
	name string
	data []byte
}

func vhDeb(ms []vhDebMember) []byte {
	var buf bytes.Buffer
	w := ar.NewWriter(&buf)
	w.WriteGlobalHeader()
	for _, m := range ms {
		w.WriteHeader(&ar.Header{Name: m.name, Size: int64(len(m.data)), Mode: 0100644})
		w.Write(m.data)
	}
	return buf.Bytes()
}

// independent walk of an ar archive: 8-byte magic, then 60-byte headers at
// even offsets, each followed by its data and one pad byte if the size is odd
func vhDebWalk(b []byte) ([]vhDebMember, bool) {
	if len(b) < 8 || string(b[:8]) != "!<arch>\n" {
		return nil, false
	}
	var out []vhDebMember
	pos := 8
	for pos < len(b) {
		if pos+60 > len(b) || b[pos+58] != '`' || b[pos+59] != '\n' {
			return out, false
		}
		name := string(bytes.TrimRight(b[pos:pos+16], " /"))
		size := 0
		for _, c := range bytes.TrimRight(b[pos+48:pos+58], " ") {
			if c < '0' || c > '9' {
				return out, false
			}
			size = size*10 + int(c-'0')
		}
		pos += 60
		if pos+size > len(b) {
			return out, false
		}
		out = append(out, vhDebMember{name, b[pos : pos+size]})
		pos += size
		if size%2 == 1 {
			if pos >= len(b) {
				return out, false
			}
			pos++
		}
	}
	return out, true
}

func vhDebApply(x []byte, p *binpatch.PatchSet) []byte {
	var out []byte
	pos := int64(0)
	for i, h := range p.Patches {
		out = append(out, x[pos:h.Offset]...)
		out = append(out, p.Blobs[i]...)
		pos = h.Offset + int64(h.OldSize)
	}
	return append(out, x[pos:]...)
}

// H08.deb / H03.deb: (re-)signing a Debian package under a role. The OpenPGP
// clear-signer is a stub writing a blob of symbolic length (both parities);
// everything around it is the real code, including the control-tarball
// parser fed through a pipe by a goroutine. After the patch the package is a
// well-formed ar archive for an independent walk, every payload member is
// there in order with its bytes, a signature member of another role is kept,
// and there is exactly one member for this role holding the new signature -
// whether the package was unsigned, or already carried a signature for this
// role of odd or even length, last or in the middle.
func VH_C08_DebResignReplacesRole() {
	// vh:stubbed
	vhMaxLen(8192)
	vhLoopBound(1200)
	vhClockConcrete()
	var ctl bytes.Buffer
	tw := tar.NewWriter(&ctl)
	body := []byte("Package: seed\nVersion: 1.0\nArchitecture: all\n")
	tw.WriteHeader(&tar.Header{Name: "./control", Mode: 0644, Size: int64(len(body))})
	tw.Write(body)
	tw.Close()
	payload := []vhDebMember{{"debian-binary", []byte("2.0\n")}, {"control.tar", ctl.Bytes()}, {"data.tar", vhBytes("data", 3)}}
	members := append([]vhDebMember{}, payload...)
	prior := vhConcretize(vhInt("existing-signature", 0, 2), 3) // 0 none, 1 last, 2 followed by another role's
	if prior >= 1 {
		members = append(members, vhDebMember{"_gpgbuilder", vhBytes("old-signature", vhConcretize(vhInt("old-signature-bytes", 1, 2), 3))})
	}
	other := vhDebMember{"_gpgorigin", []byte("other role")}
	if prior == 2 {
		members = append(members, other)
	}
	input := vhDeb(members)
	newSig := vhBytes("new-signature", vhConcretize(vhInt("new-signature-bytes", 1, 2), 3))
	vhStub("github.com/sassoftware/relic/v8/lib/pgptools.ClearSign", func(w io.Writer, signer *openpgp.Entity, message io.Reader, config *packet.Config) error {
		io.Copy(io.Discard, message)
		_, err := w.Write(newSig)
		return err
	})
	sig, err := Sign(bytes.NewReader(input), nil, crypto.SHA256, "builder")
	vhAssert(err == nil, "package-signs")
	if err != nil {
		return
	}
	vhAssert(sig.Info.Package == "seed" && sig.Info.Version == "1.0", "control-file-parsed")
	out := vhDebApply(input, sig.PatchSet)
	got, ok := vhDebWalk(out)
	vhAssert(ok, "output-is-a-well-formed-ar-archive")
	if !ok {
		return
	}
	var roles, rest []vhDebMember
	for _, m := range got {
		if m.name == "_gpgbuilder" {
			roles = append(roles, m)
		} else {
			rest = append(rest, m)
		}
	}
	vhAssert(len(roles) == 1 && bytes.Equal(roles[0].data, newSig), "exactly-one-member-for-the-role-holding-the-new-signature")
	want := payload
	if prior == 2 {
		want = append(append([]vhDebMember{}, payload...), other)
	}
	vhAssert(len(rest) == len(want), "every-other-member-present")
	for i := range rest {
		if i < len(want) {
			vhAssert(rest[i].name == want[i].name && bytes.Equal(rest[i].data, want[i].data), "other-members-in-order-with-their-bytes")
		}
	}
	vhReach("signed") // vh:require signed
}

func VH_C03_DebPayloadKept() { VH_C08_DebResignReplacesRole() }
