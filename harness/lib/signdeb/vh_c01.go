//go:build verif

package signdeb

import (
	"archive/tar"
	"bytes"
	"crypto"
	"crypto/md5"
	"crypto/sha1"
	"fmt"
	"io"
	"strings"

	"github.com/ProtonMail/go-crypto/openpgp"
	"github.com/ProtonMail/go-crypto/openpgp/packet"

	"github.com/sassoftware/relic/v8/lib/pgptools"
)

// what the OpenPGP cleartext framework hands back as the signed text: lines
// end in CR LF and have lost their trailing blanks and tabs (RFC 4880 7.1)
func vhCanonical(msg []byte) []byte {
	var out []byte
	lines := strings.Split(string(msg), "\n")
	for i, l := range lines {
		if i == len(lines)-1 && l == "" {
			break
		}
		out = append(out, strings.TrimRight(l, " \t")...)
		out = append(out, '\r', '\n')
	}
	return out
}

// H01.deb / H02.deb / H05.deb: the Debian signing message. The OpenPGP layer
// is a stub on both sides (sign: records the text it is given and writes a
// blob; verify: hands back that text in canonical cleartext form); the
// archive walk, the digest list the signer writes and the list check the
// verifier performs are the real code. For a package with symbolic payload
// bytes, with or without an older signature for the role: the text is the
// dpkg-sig version-4 layout with one tab line "md5 sha1 size name" per
// payload member (digests recomputed here), the signed package passes
// relic's own Verify with digest checking on, and a package with one payload
// byte changed (symbolic position and value), with a member added after
// signing, or with a second member carrying the name of a signed one in
// front of it, does not.
func VH_C01_DebSignedMessageVerifies() {
	// vh:stubbed
	vhMaxLen(8192)
	vhLoopBound(1500)
	vhClockConcrete()
	var ctl bytes.Buffer
	tw := tar.NewWriter(&ctl)
	body := []byte("Package: seed\nVersion: 1.0\nArchitecture: all\n")
	tw.WriteHeader(&tar.Header{Name: "./control", Mode: 0644, Size: int64(len(body))})
	tw.Write(body)
	tw.Close()
	data := vhBytes("data", vhConcretize(vhInt("data-bytes", 2, 3), 4))
	payload := []vhDebMember{{"debian-binary", []byte("2.0\n")}, {"control.tar", ctl.Bytes()}, {"data.tar", data}}
	members := append([]vhDebMember{}, payload...)
	if vhBool("already-signed") {
		members = append(members, vhDebMember{"_gpgbuilder", []byte("old")})
	}
	input := vhDeb(members)
	var signedText []byte
	vhStub("github.com/sassoftware/relic/v8/lib/pgptools.ClearSign", func(w io.Writer, signer *openpgp.Entity, message io.Reader, config *packet.Config) error {
		signedText, _ = io.ReadAll(message)
		_, err := w.Write([]byte("-----BEGIN PGP SIGNED MESSAGE-----"))
		return err
	})
	vhStub("github.com/sassoftware/relic/v8/lib/pgptools.VerifyClearSign", func(signature io.Reader, cleartext io.Writer, keyring openpgp.EntityList) (*pgptools.PgpSignature, error) {
		if cleartext != nil {
			cleartext.Write(vhCanonical(signedText))
		}
		return &pgptools.PgpSignature{}, nil
	})
	sig, err := Sign(bytes.NewReader(input), nil, crypto.SHA256, "builder")
	vhAssert(err == nil, "package-signs")
	if err != nil {
		return
	}
	want := "Version: 4\nSigner: \nDate: " + sig.CreationTime.Format("Mon Jan _2 15:04:05 2006") + "\nRole: builder\nFiles: \n"
	for _, m := range payload {
		want += fmt.Sprintf("\t%x %x %d %s\n", md5.Sum(m.data), sha1.Sum(m.data), len(m.data), m.name)
	}
	want += "\n"
	vhAssert(string(signedText) == want, "dpkg-sig-version-4-text-with-one-line-per-payload-member")
	out := vhDebApply(input, sig.PatchSet)
	sigs, err := Verify(bytes.NewReader(out), nil, false)
	vhAssert(err == nil && len(sigs) == 1 && sigs["builder"] != nil, "own-signature-verifies-with-digest-checking")

	// alterations after signing
	switch vhConcretize(vhInt("alteration", 0, 2), 3) {
	case 2:
		// a second member with the name of a signed one, placed in front of it
		// (dpkg unpacks the first data member it meets)
		got, _ := vhDebWalk(out)
		var dup []vhDebMember
		for _, m := range got {
			if m.name == "data.tar" {
				dup = append(dup, vhDebMember{"data.tar", []byte("evil")})
			}
			dup = append(dup, m)
		}
		_, err = Verify(bytes.NewReader(vhDeb(dup)), nil, false)
		vhAssert(err != nil, "duplicate-member-name-rejected")
	case 0:
		tampered := append([]byte{}, out...)
		at := bytes.Index(out, []byte("data.tar"))
		pos := at + 60 + vhConcretize(vhInt("changed-byte", 0, len(data)-1), 4)
		tampered[pos] = vhU8("new-value")
		vhAssume(tampered[pos] != out[pos])
		_, err = Verify(bytes.NewReader(tampered), nil, false)
		vhAssert(err != nil, "changed-payload-byte-rejected")
	case 1:
		got, _ := vhDebWalk(out)
		grown := vhDeb(append(got, vhDebMember{"extra.tar", []byte("x")}))
		_, err = Verify(bytes.NewReader(grown), nil, false)
		vhAssert(err != nil, "member-added-after-signing-rejected")
	}
	vhReach("verified") // vh:require verified
}

func VH_C02_DebAlteredPayloadRejected() { VH_C01_DebSignedMessageVerifies() }
func VH_C05_DebSignedMessageLayout()    { VH_C01_DebSignedMessageVerifies() }
