//go:build verif

package magic

import "bytes"

// H11.magic: Detect is the first code to touch every uploaded or named file.
// On an arbitrary short prefix (every length over the structure boundaries:
// the 2-byte MZ test, the 0x3e-byte DOS header read, the e_lfanew reach) it
// returns a type and never panics; with an MZ stub, arbitrary e_lfanew and an
// arbitrary 4 bytes at a symbolic place it says PE exactly when "PE\0\0" sits
// at e_lfanew inside the data.
func VH_C11_MagicDetect() {
	lens := []int{0, 1, 2, 3, 4, 14, 0x3d, 0x3e, 0x40, 0x44}
	n := lens[vhConcretize(vhInt("lenidx", 0, len(lens)-1), 16)]
	b := vhBytes("file", n)
	vhLoopBound(8192)
	t := Detect(bytes.NewReader(b))
	vhAssert(t >= FileTypeUnknown && t <= FileTypeXAR, "known-type-constant")
	if n >= 4 && b[0] == 0xed && b[1] == 0xab && b[2] == 0xee && b[3] == 0xdb {
		vhAssert(t == FileTypeRPM, "rpm-lead-recognised")
	}
	if n < 2 {
		vhAssert(t == FileTypeUnknown || t == FileTypePGP, "too-short-for-anything-but-a-pgp-tag")
	}
	vhReach("classified") // vh:require classified
}

// H11.magic.pe: the DOS stub's pointer to the PE header is untrusted.
func VH_C11_MagicDetectPE() {
	// a short stub, and a file longer than the sniffing buffer (bufio's 4096:
	// Peek beyond it returns the full buffer AND an error)
	n := []int{0x50, 4096 + 0x50}[vhConcretize(vhInt("file-size", 0, 1), 2)]
	vhMaxLen(0x10000 + 8)
	vhLoopBound(3 * 4200)
	b := make([]byte, n)
	b[0], b[1] = 'M', 'Z'
	lo, hi := vhU8("lfanew-lo"), vhU8("lfanew-hi")
	b[0x3c], b[0x3d] = lo, hi
	at := vhConcretize(vhInt("sig-at", 0x40, 0x50-4), 0x60)
	if n > 4096 && vhBool("signature-near-the-buffer-end") {
		at = 4096 - vhConcretize(vhInt("sig-before-buffer-end", 0, 8), 9)
	}
	sig := vhBytes("sig", 4)
	copy(b[at:], sig)
	reloc := int(lo) | int(hi)<<8
	if n > 4096 {
		// around the stub and around the end of the sniffing buffer; the
		// 4000 offsets in between behave like the first group
		vhAssume(reloc < 0x60 || (reloc >= 4096-16 && reloc < 4096+16) || reloc >= 0xfff0)
	}
	t := Detect(bytes.NewReader(b))
	if reloc+4 > 4096 {
		vhReach("beyond-the-sniffing-buffer") // classification not claimed there, only: no panic
		return
	}
	isPE := reloc+4 <= n && b[reloc] == 'P' && b[reloc+1] == 'E' && b[reloc+2] == 0 && b[reloc+3] == 0
	if isPE {
		vhAssert(t == FileTypePECOFF, "pe-signature-at-e_lfanew-recognised")
		vhReach("pe") // vh:require pe
	} else {
		vhAssert(t == FileTypeUnknown, "stub-without-pe-signature-is-unknown")
		vhReach("not-pe") // vh:require not-pe
	}
}
