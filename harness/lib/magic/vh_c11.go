//go:build verif

package magic

import "bytes"

// H11.magic: Detect is the first code to touch every uploaded or named file.
// On an arbitrary short prefix (every length over the structure boundaries:
// the 2-byte MZ test, the 0x3e-byte DOS header read, the e_lfanew reach) it
// returns a type and never panics; with an MZ stub, arbitrary e_lfanew and an
// arbitrary 4 bytes at a symbolic place it says PE exactly when "PE\0\0" sits
// at e_lfanew inside the data.
func VH_C11_MagicDetect() {
	lens := []int{0, 1, 2, 3, 4, 14, 0x3d, 0x3e, 0x40, 0x44}
	n := lens[vhConcretize(vhInt("lenidx", 0, len(lens)-1), 16)]
	b := vhBytes("file", n)
	vhLoopBound(8192)
	t := Detect(bytes.NewReader(b))
	vhAssert(t >= FileTypeUnknown && t <= FileTypeXAR, "known-type-constant")
	if n >= 4 && b[0] == 0xed && b[1] == 0xab && b[2] == 0xee && b[3] == 0xdb {
		vhAssert(t == FileTypeRPM, "rpm-lead-recognised")
	}
	if n < 2 {
		vhAssert(t == FileTypeUnknown || t == FileTypePGP, "too-short-for-anything-but-a-pgp-tag")
	}
	vhReach("classified") // vh:require classified
}

// H11.magic.pe: the DOS stub's pointer to the PE header is untrusted.
func VH_C11_MagicDetectPE() {
	n := 0x50
	vhMaxLen(0x10000 + 8)
	b := make([]byte, n)
	b[0], b[1] = 'M', 'Z'
	lo, hi := vhU8("lfanew-lo"), vhU8("lfanew-hi")
	b[0x3c], b[0x3d] = lo, hi
	at := vhConcretize(vhInt("sig-at", 0x40, n-4), 0x60)
	sig := vhBytes("sig", 4)
	copy(b[at:], sig)
	t := Detect(bytes.NewReader(b))
	reloc := int(lo) | int(hi)<<8
	isPE := reloc+4 <= n && b[reloc] == 'P' && b[reloc+1] == 'E' && b[reloc+2] == 0 && b[reloc+3] == 0
	if isPE {
		vhAssert(t == FileTypePECOFF, "pe-signature-at-e_lfanew-recognised")
		vhReach("pe") // vh:require pe
	} else {
		vhAssert(t == FileTypeUnknown, "stub-without-pe-signature-is-unknown")
		vhReach("not-pe") // vh:require not-pe
	}
}
