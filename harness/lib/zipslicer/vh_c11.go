//go:build verif

package zipslicer

import "bytes"

// H11.zip-a: ReadWithDirectory on an arbitrary central-directory blob (as
// uploaded by a client in the first tar member, or read from the file).
func VH_C11_ZipReadDirectory() {
	lens := []int{0, 1, 3, 4, 21, 22, 26, 45, 46, 50, 54}
	if vhTier() > 0 {
		lens = append(lens, 2, 5, 23, 47, 60) // one full entry + end record (68+) multiplies into >200k paths per length
	}
	n := lens[vhConcretize(vhInt("lenidx", 0, len(lens)-1), 32)]
	vhMaxLen(n + 2)
	cd := vhBytes("cd", n)
	vhAllocLimit(4<<20 + 16*len(cd))
	vhLoopBound(len(cd) + 8)
	size := int64(vhU32("size"))
	d, err := ReadWithDirectory(bytes.NewReader(nil), size, cd)
	if err == nil {
		vhReach("accepted") // vh:require accepted
		vhAssert(d != nil, "result-non-nil")
	} else {
		vhReach("rejected") // vh:require rejected
	}
}

// H11.zip-b: Read (FindDirectory + ReadWithDirectory) on an arbitrary file.
func VH_C11_ZipRead() {
	lens := []int{0, 1, 21, 22, 41, 42, 43, 46, 50}
	if vhTier() > 0 {
		lens = append(lens, 64) // 88+ (two entries) does not finish in 5 minutes
	}
	n := lens[vhConcretize(vhInt("lenidx", 0, len(lens)-1), 32)]
	vhMaxLen(n + 2)
	b := vhBytes("zip", n)
	vhAllocLimit(4<<20 + 16*len(b))
	vhLoopBound(len(b) + 8)
	d, err := Read(bytes.NewReader(b), int64(len(b)))
	if err == nil {
		vhReach("accepted")
		vhAssert(d != nil, "result-non-nil")
	} else {
		vhReach("rejected") // vh:require rejected
	}
}
