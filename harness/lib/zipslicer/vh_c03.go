//go:build verif

package zipslicer

import (
	"bytes"
	"encoding/binary"

	"github.com/sassoftware/relic/v8/lib/binpatch"
)

func vhApply(x []byte, p *binpatch.PatchSet) []byte {
	var out []byte
	pos := int64(0)
	for i, h := range p.Patches {
		out = append(out, x[pos:h.Offset]...)
		out = append(out, p.Blobs[i]...)
		pos = h.Offset + int64(h.OldSize)
	}
	return append(out, x[pos:]...)
}

type vhMember struct {
	name string
	data []byte
	off  int
}

// bytes between the last member and the directory (set by the harness that wants them)
var vhZipTail []byte

// a stored-members archive: [prefix] member0 [gap] member1 [tail] directory end
func vhZip(prefix, gap int, ms []*vhMember) []byte {
	var f bytes.Buffer
	f.Write(vhBytes("prefix", prefix))
	for i, m := range ms {
		if i == 1 {
			f.Write(vhBytes("gap", gap))
		}
		m.off = f.Len()
		binary.Write(&f, binary.LittleEndian, zipLocalHeader{Signature: fileHeaderSignature, ReaderVersion: zip20, CompressedSize: uint32(len(m.data)), UncompressedSize: uint32(len(m.data)), FilenameLen: uint16(len(m.name))})
		f.WriteString(m.name)
		f.Write(m.data)
	}
	f.Write(vhZipTail)
	cdStart := f.Len()
	for _, m := range ms {
		binary.Write(&f, binary.LittleEndian, zipCentralDir{Signature: directoryHeaderSignature, ReaderVersion: zip20, CompressedSize: uint32(len(m.data)), UncompressedSize: uint32(len(m.data)), FilenameLen: uint16(len(m.name)), Offset: uint32(m.off)})
		f.WriteString(m.name)
	}
	cdSize := f.Len() - cdStart
	binary.Write(&f, binary.LittleEndian, zipEndRecord{Signature: directoryEndSignature, DiskCDCount: uint16(len(ms)), TotalCDCount: uint16(len(ms)), CDSize: uint32(cdSize), CDOffset: uint32(cdStart)})
	return f.Bytes()
}

// independent check of an archive: every directory entry points at a local
// header with its name, followed by its data
func vhCheckZip(file []byte, want []*vhMember) bool {
	if len(file) < 22 {
		return false
	}
	end := file[len(file)-22:]
	if binary.LittleEndian.Uint32(end) != directoryEndSignature {
		return false
	}
	n := int(binary.LittleEndian.Uint16(end[10:]))
	cd := int(binary.LittleEndian.Uint32(end[16:]))
	if n != len(want) {
		return false
	}
	for _, m := range want {
		if cd+46 > len(file) || binary.LittleEndian.Uint32(file[cd:]) != directoryHeaderSignature {
			return false
		}
		nl := int(binary.LittleEndian.Uint16(file[cd+28:]))
		off := int(binary.LittleEndian.Uint32(file[cd+42:]))
		name := string(file[cd+46 : cd+46+nl])
		cd += 46 + nl
		if name != m.name || off+30+nl+len(m.data) > len(file) {
			return false
		}
		if binary.LittleEndian.Uint32(file[off:]) != fileHeaderSignature || string(file[off+30:off+30+nl]) != m.name {
			return false
		}
		if !bytes.Equal(file[off+30+nl:off+30+nl+len(m.data)], m.data) {
			return false
		}
	}
	return true
}

// H03.zip / H08.zip: re-indexing an archive (dropping an old signature
// member, keeping the rest) leaves every kept member readable with its own
// bytes at the offset the new directory records - or the input is refused.
func VH_C03_ZipMangle() {
	vhMaxLen(400)
	prefix := vhConcretize(vhInt("leading-bytes", 0, 1), 2)
	gap := vhConcretize(vhInt("gap-bytes", 0, 1), 2)
	tail := vhConcretize(vhInt("bytes-before-directory", 0, 1), 2)
	vhZipTail = vhBytes("tail", tail)
	ms := []*vhMember{{name: "a", data: vhBytes("data0", 1)}, {name: "S", data: vhBytes("data1", 2)}, {name: "b", data: vhBytes("data2", 1)}}
	file := vhZip(prefix, gap, ms)
	vhZipTail = nil
	d, err := Read(bytes.NewReader(file), int64(len(file)))
	vhAssert(err == nil, "archive-parses")
	if err != nil {
		return
	}
	dropSig := vhBool("drop-signature-member")
	m, err := d.Mangle(func(mf *MangleFile) error {
		if dropSig && mf.Name == "S" {
			mf.Delete()
		}
		return nil
	})
	var patch *binpatch.PatchSet
	if err == nil {
		patch, err = m.MakePatch(false)
	}
	if err != nil {
		vhReach("refused") // vh:require refused
		vhAssert(prefix != 0 || gap != 0 || tail != 0, "contiguous-archive-not-refused")
		return
	}
	out := vhApply(file, patch)
	keep := ms
	if dropSig {
		keep = []*vhMember{ms[0], ms[2]}
	}
	vhReach("rewritten") // vh:require rewritten
	if prefix == 0 && gap == 0 && tail == 0 {
		vhAssert(vhCheckZip(out, keep), "kept-members-intact-at-recorded-offsets")
	} else {
		vhAssert(vhCheckZip(out, keep), "kept-members-intact-at-recorded-offsets/leading-data-or-gaps")
	}
}
