//go:build verif

package zipslicer

import (
	"bytes"
	"encoding/binary"
	"io"
)

// fake random-access source: `data` lives at absolute offset `base`
// (symbolic), everything else is absent.
type vhAt struct {
	base int64
	data []byte
}

func (a *vhAt) ReadAt(p []byte, off int64) (int, error) {
	rel := off - a.base
	vhAssert(rel >= 0 && rel <= int64(len(a.data)), "read-inside-the-member")
	r := vhConcretize(int(rel), 64)
	n := copy(p, a.data[r:])
	if n < len(p) {
		return n, io.EOF
	}
	return n, nil
}

func le32(v uint32) []byte { var b [4]byte; binary.LittleEndian.PutUint32(b[:], v); return b[:] }
func le64(v uint64) []byte { var b [8]byte; binary.LittleEndian.PutUint64(b[:], v); return b[:] }
func le16(v uint16) []byte { var b [2]byte; binary.LittleEndian.PutUint16(b[:], v); return b[:] }

// H17.a: for every (CRC, compressed size, uncompressed size) and either
// descriptor width permitted by APPNOTE 4.3.9 (16 bytes; 24 bytes for ZIP64
// entries, and permitted for any entry), followed by arbitrary bytes,
// readDataDesc recognises the descriptor that is present and GetTotalSize is
// the true on-disk size of the member.
func VH_C17_DataDescWidth() {
	csize := vhU64("csize")
	usize := vhU64("usize")
	crc := vhU32("crc")
	vhAssume(csize < 1<<40 && usize < 1<<40)
	wide := vhBool("wide")
	var desc []byte
	desc = append(desc, le32(dataDescriptorSignature)...)
	desc = append(desc, le32(crc)...)
	if wide {
		desc = append(desc, le64(csize)...)
		desc = append(desc, le64(usize)...)
	} else {
		vhAssume(csize < uint32Max && usize < uint32Max)
		desc = append(desc, le32(uint32(csize))...)
		desc = append(desc, le32(uint32(usize))...)
	}
	next := vhBytes("following", 8) // whatever follows the member
	src := &vhAt{base: 30 + int64(csize), data: append(append([]byte{}, desc...), next...)}
	f := &File{CompressedSize: csize, UncompressedSize: usize, Offset: 0, r: src, rs: 1 << 50}
	f.lfh = zipLocalHeader{Signature: fileHeaderSignature, Flags: 0x8}
	err := f.readDataDesc()
	vhAssert(err == nil, "valid-descriptor-accepted")
	if err != nil {
		return
	}
	if wide && uint32(usize) == 0 && csize < uint32Max && usize < uint32Max {
		// 24-byte descriptor whose 8-byte compressed size reads as
		// (csize32, usize32=0): both widths are self-consistent
		vhAssert(len(f.ddb) == len(desc), "descriptor-width-recognised/24-byte-with-zero-usize")
	} else {
		vhAssert(len(f.ddb) == len(desc), "descriptor-width-recognised")
	}
	vhAssert(f.CRC32 == crc, "crc-taken-from-descriptor")
	total, _ := f.GetTotalSize()
	vhAssert(total == 30+int64(csize)+int64(len(desc)), "total-size-is-true-size")
	vhReach("read") // vh:require read
}

// H17.c (directory header): GetDirectoryHeader for a new entry (raw == nil)
// parses back through ReadWithDirectory to the same fields, on both sides of
// the 2^32-1 thresholds, and is idempotent.
func VH_C17_DirHeaderRoundTrip() {
	f := &File{
		CreatorVersion: vhU16("cv"), ReaderVersion: vhU16("rv"), Flags: vhU16("flags"), Method: vhU16("method"),
		ModifiedTime: vhU16("mt"), ModifiedDate: vhU16("md"), CRC32: vhU32("crc"),
		CompressedSize: vhU64("csize"), UncompressedSize: vhU64("usize"), Offset: vhU64("offset"),
		InternalAttrs: vhU16("ia"), ExternalAttrs: vhU32("ea"),
		Name: string(vhBytes("name", vhInt("namelen", 0, 2))),
		Comment: vhBytes("comment", vhInt("commentlen", 0, 1)),
	}
	saved := *f
	h1, err := f.GetDirectoryHeader()
	vhAssert(err == nil, "header-built")
	h1 = append([]byte{}, h1...)
	h2, _ := f.GetDirectoryHeader()
	vhAssert(bytes.Equal(h1, h2), "directory-header-idempotent")
	// parse it back, followed by a plain end record
	var end zipEndRecord
	end.Signature = directoryEndSignature
	var eb bytes.Buffer
	binary.Write(&eb, binary.LittleEndian, end)
	d, err := ReadWithDirectory(bytes.NewReader(nil), 1<<40, append(append([]byte{}, h1...), eb.Bytes()...))
	vhAssert(err == nil, "own-header-parses")
	if err != nil {
		return
	}
	vhAssert(len(d.File) == 1, "one-entry")
	g := d.File[0]
	vhAssert(g.CompressedSize == saved.CompressedSize && g.UncompressedSize == saved.UncompressedSize && g.Offset == saved.Offset, "sizes-and-offset-round-trip")
	vhAssert(g.Name == saved.Name && bytes.Equal(g.Comment, saved.Comment), "name-comment-round-trip")
	vhAssert(g.CRC32 == saved.CRC32 && g.Method == saved.Method && g.Flags == saved.Flags, "fields-round-trip")
	vhReach("roundtrip") // vh:require roundtrip
}

// a well-formed one-entry central directory followed by a plain end record;
// every field that is not structural is symbolic
func vhDirBlob(nameLen int) []byte {
	cd := vhBytes("cd", 46+nameLen+22)
	vhAssume(binary.LittleEndian.Uint32(cd) == directoryHeaderSignature)
	vhAssume(binary.LittleEndian.Uint16(cd[28:]) == uint16(nameLen)) // name length
	vhAssume(binary.LittleEndian.Uint16(cd[30:]) == 0)               // extra length
	vhAssume(binary.LittleEndian.Uint16(cd[32:]) == 0)               // comment length
	// 32-bit sizes and offset below the ZIP64 escape value
	vhAssume(binary.LittleEndian.Uint32(cd[20:]) != uint32Max && binary.LittleEndian.Uint32(cd[24:]) != uint32Max && binary.LittleEndian.Uint32(cd[42:]) != uint32Max)
	end := cd[46+nameLen:]
	vhAssume(binary.LittleEndian.Uint32(end) == directoryEndSignature)
	vhAssume(binary.LittleEndian.Uint16(end[8:]) == 1 && binary.LittleEndian.Uint16(end[10:]) == 1) // one entry
	vhAssume(binary.LittleEndian.Uint32(end[12:]) == uint32(46+nameLen))                              // directory size
	vhAssume(binary.LittleEndian.Uint16(end[20:]) == 0)                                               // no archive comment
	return cd
}

// H17.d: re-serialising an unmodified directory reproduces the original
// bytes: entries, then the end-of-directory records.
func VH_C17_OriginalDirectory() {
	nameLen := vhConcretize(vhInt("namelen", 0, 2), 4)
	cd := vhDirBlob(nameLen)
	d, err := ReadWithDirectory(bytes.NewReader(nil), int64(len(cd))+int64(vhU32("body-size")), cd)
	vhAssert(err == nil, "well-formed-directory-parses")
	if err != nil {
		return
	}
	vhReach("parsed") // vh:require parsed
	entries, eod, err := d.GetOriginalDirectory(false)
	vhAssert(err == nil, "original-directory-re-emitted")
	if err != nil {
		return
	}
	vhAssert(bytes.Equal(append(append([]byte{}, entries...), eod...), cd), "re-emitted-directory-equals-the-original-bytes")
}
