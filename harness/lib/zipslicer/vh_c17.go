//go:build verif

package zipslicer

import (
	"bytes"
	"encoding/binary"
	"io"
)

// fake random-access source: `data` lives at absolute offset `base`
// (symbolic), everything else is absent.
type vhAt struct {
	base int64
	data []byte
}

func (a *vhAt) ReadAt(p []byte, off int64) (int, error) {
	rel := off - a.base
	vhAssert(rel >= 0 && rel <= int64(len(a.data)), "read-inside-the-member")
	r := vhConcretize(int(rel), 64)
	n := copy(p, a.data[r:])
	if n < len(p) {
		return n, io.EOF
	}
	return n, nil
}

func le32(v uint32) []byte { var b [4]byte; binary.LittleEndian.PutUint32(b[:], v); return b[:] }
func le64(v uint64) []byte { var b [8]byte; binary.LittleEndian.PutUint64(b[:], v); return b[:] }
func le16(v uint16) []byte { var b [2]byte; binary.LittleEndian.PutUint16(b[:], v); return b[:] }

// H17.a: for every (CRC, compressed size, uncompressed size) and either
// descriptor width permitted by APPNOTE 4.3.9 (16 bytes; 24 bytes for ZIP64
// entries, and permitted for any entry), followed by arbitrary bytes,
// readDataDesc recognises the descriptor that is present and GetTotalSize is
// the true on-disk size of the member.
func VH_C17_DataDescWidth() {
	csize := vhU64("csize")
	usize := vhU64("usize")
	crc := vhU32("crc")
	vhAssume(csize < 1<<40 && usize < 1<<40)
	wide := vhBool("wide")
	var desc []byte
	desc = append(desc, le32(dataDescriptorSignature)...)
	desc = append(desc, le32(crc)...)
	if wide {
		desc = append(desc, le64(csize)...)
		desc = append(desc, le64(usize)...)
	} else {
		vhAssume(csize < uint32Max && usize < uint32Max)
		desc = append(desc, le32(uint32(csize))...)
		desc = append(desc, le32(uint32(usize))...)
	}
	next := vhBytes("following", 8) // whatever follows the member
	src := &vhAt{base: 30 + int64(csize), data: append(append([]byte{}, desc...), next...)}
	f := &File{CompressedSize: csize, UncompressedSize: usize, Offset: 0, r: src, rs: 1 << 50}
	f.lfh = zipLocalHeader{Signature: fileHeaderSignature, Flags: 0x8}
	// contiguous archive: the directory tells where the next record starts
	contig := vhBool("next-record-position-known")
	if contig {
		f.next = 30 + int64(csize) + int64(len(desc))
	}
	err := f.readDataDesc()
	vhAssert(err == nil, "valid-descriptor-accepted")
	if err != nil {
		return
	}
	if wide && usize == 0 && csize < uint32Max && !contig {
		// 24-byte descriptor whose 8-byte compressed size reads as
		// (csize32, usize32=0): both widths are self-consistent, and with a
		// gap after the member nothing else tells them apart
		vhAssert(len(f.ddb) == len(desc), "descriptor-width-recognised/24-byte-with-zero-usize")
	} else {
		vhAssert(len(f.ddb) == len(desc), "descriptor-width-recognised")
	}
	vhAssert(f.CRC32 == crc, "crc-taken-from-descriptor")
	total, _ := f.GetTotalSize()
	vhAssert(total == 30+int64(csize)+int64(len(desc)), "total-size-is-true-size")
	vhReach("read") // vh:require read
}

// H17.c (directory header): GetDirectoryHeader for a new entry (raw == nil)
// parses back through ReadWithDirectory to the same fields, on both sides of
// the 2^32-1 thresholds, and is idempotent.
func VH_C17_DirHeaderRoundTrip() {
	f := &File{
		CreatorVersion: vhU16("cv"), ReaderVersion: vhU16("rv"), Flags: vhU16("flags"), Method: vhU16("method"),
		ModifiedTime: vhU16("mt"), ModifiedDate: vhU16("md"), CRC32: vhU32("crc"),
		CompressedSize: vhU64("csize"), UncompressedSize: vhU64("usize"), Offset: vhU64("offset"),
		InternalAttrs: vhU16("ia"), ExternalAttrs: vhU32("ea"),
		Name: string(vhBytes("name", vhInt("namelen", 0, 2))),
		Comment: vhBytes("comment", vhInt("commentlen", 0, 1)),
	}
	saved := *f
	h1, err := f.GetDirectoryHeader()
	vhAssert(err == nil, "header-built")
	h1 = append([]byte{}, h1...)
	h2, _ := f.GetDirectoryHeader()
	vhAssert(bytes.Equal(h1, h2), "directory-header-idempotent")
	// parse it back, followed by a plain end record
	var end zipEndRecord
	end.Signature = directoryEndSignature
	var eb bytes.Buffer
	binary.Write(&eb, binary.LittleEndian, end)
	d, err := ReadWithDirectory(bytes.NewReader(nil), 1<<40, append(append([]byte{}, h1...), eb.Bytes()...))
	vhAssert(err == nil, "own-header-parses")
	if err != nil {
		return
	}
	vhAssert(len(d.File) == 1, "one-entry")
	g := d.File[0]
	vhAssert(g.CompressedSize == saved.CompressedSize && g.UncompressedSize == saved.UncompressedSize && g.Offset == saved.Offset, "sizes-and-offset-round-trip")
	vhAssert(g.Name == saved.Name && bytes.Equal(g.Comment, saved.Comment), "name-comment-round-trip")
	vhAssert(g.CRC32 == saved.CRC32 && g.Method == saved.Method && g.Flags == saved.Flags, "fields-round-trip")
	vhReach("roundtrip") // vh:require roundtrip
}

// a well-formed one-entry central directory followed by a plain end record;
// every field that is not structural is symbolic
func vhDirBlob(nameLen int) []byte {
	cd := vhBytes("cd", 46+nameLen+22)
	vhAssume(binary.LittleEndian.Uint32(cd) == directoryHeaderSignature)
	vhAssume(binary.LittleEndian.Uint16(cd[28:]) == uint16(nameLen)) // name length
	vhAssume(binary.LittleEndian.Uint16(cd[30:]) == 0)               // extra length
	vhAssume(binary.LittleEndian.Uint16(cd[32:]) == 0)               // comment length
	// 32-bit sizes and offset below the ZIP64 escape value
	vhAssume(binary.LittleEndian.Uint32(cd[20:]) != uint32Max && binary.LittleEndian.Uint32(cd[24:]) != uint32Max && binary.LittleEndian.Uint32(cd[42:]) != uint32Max)
	end := cd[46+nameLen:]
	vhAssume(binary.LittleEndian.Uint32(end) == directoryEndSignature)
	vhAssume(binary.LittleEndian.Uint16(end[8:]) == 1 && binary.LittleEndian.Uint16(end[10:]) == 1) // one entry
	vhAssume(binary.LittleEndian.Uint32(end[12:]) == uint32(46+nameLen))                              // directory size
	vhAssume(binary.LittleEndian.Uint16(end[20:]) == 0)                                               // no archive comment
	return cd
}

// H17.d: re-serialising an unmodified directory reproduces the original
// bytes: entries, then the end-of-directory records.
func VH_C17_OriginalDirectory() {
	nameLen := vhConcretize(vhInt("namelen", 0, 2), 4)
	cd := vhDirBlob(nameLen)
	d, err := ReadWithDirectory(bytes.NewReader(nil), int64(len(cd))+int64(vhU32("body-size")), cd)
	vhAssert(err == nil, "well-formed-directory-parses")
	if err != nil {
		return
	}
	vhReach("parsed") // vh:require parsed
	entries, eod, err := d.GetOriginalDirectory(false)
	vhAssert(err == nil, "original-directory-re-emitted")
	if err != nil {
		return
	}
	vhAssert(bytes.Equal(append(append([]byte{}, entries...), eod...), cd), "re-emitted-directory-equals-the-original-bytes")
}

// H17.b: ZIP64 extended information per APPNOTE 4.5.3: the record carries,
// in the order uncompressed size, compressed size, local header offset, ONLY
// the fields whose 32-bit counterpart in the header is 0xFFFFFFFF. Every
// combination of escaped fields is parsed to the 64-bit values.
func VH_C17_Zip64ExtraVariants() {
	escU, escC, escO := vhBool("usize-escaped"), vhBool("csize-escaped"), vhBool("offset-escaped")
	vhAssume(escU || escC || escO)
	u64, c64, o64 := vhU64("usize64"), vhU64("csize64"), vhU64("offset64")
	u32, c32, o32 := vhU32("usize32"), vhU32("csize32"), vhU32("offset32")
	vhAssume(u32 != uint32Max && c32 != uint32Max && o32 != uint32Max)
	var ext []byte
	wantU, wantC, wantO := uint64(u32), uint64(c32), uint64(o32)
	if escU {
		ext = append(ext, le64(u64)...)
		wantU, u32 = u64, uint32Max
	}
	if escC {
		ext = append(ext, le64(c64)...)
		wantC, c32 = c64, uint32Max
	}
	if escO {
		ext = append(ext, le64(o64)...)
		wantO, o32 = o64, uint32Max
	}
	extra := append(append(le16(zip64ExtraID), le16(uint16(len(ext)))...), ext...)
	hdr := zipCentralDir{Signature: directoryHeaderSignature, CompressedSize: c32, UncompressedSize: u32, Offset: o32, ExtraLen: uint16(len(extra)), ReaderVersion: zip45}
	var cd bytes.Buffer
	binary.Write(&cd, binary.LittleEndian, hdr)
	cd.Write(extra)
	binary.Write(&cd, binary.LittleEndian, zipEndRecord{Signature: directoryEndSignature})
	d, err := ReadWithDirectory(bytes.NewReader(nil), 1<<40, cd.Bytes())
	vhAssert(err == nil, "valid-zip64-extra-accepted")
	if err != nil {
		return
	}
	f := d.File[0]
	vhAssert(f.UncompressedSize == wantU && f.CompressedSize == wantC && f.Offset == wantO, "zip64-fields-read-in-appnote-order")
	vhReach("parsed") // vh:require parsed
}

// H17.g: locating the end of the central directory. An archive may end with
// a comment of up to 65535 bytes after the end record (APPNOTE 4.3.16).
func VH_C17_FindDirectoryWithComment() {
	k := vhConcretize(vhInt("comment-bytes", 0, 2), 4)
	body := vhBytes("body", 4)
	cdOff := uint32(len(body))
	var end bytes.Buffer
	binary.Write(&end, binary.LittleEndian, zipEndRecord{Signature: directoryEndSignature, CDOffset: cdOff, CommentLength: uint16(k)})
	comment := vhBytes("comment", k)
	for _, c := range comment {
		vhAssume(c != 'P') // keep the comment from imitating a record signature
	}
	file := append(append(append([]byte{}, body...), make([]byte, 20)...), end.Bytes()...) // 20 bytes where a ZIP64 locator would be
	file = append(file, comment...)
	loc, err := FindDirectory(bytes.NewReader(file), int64(len(file)))
	vhReach("searched") // vh:require searched
	if k == 0 {
		vhAssert(err == nil && loc == int64(cdOff), "directory-found")
	} else {
		vhAssert(err == nil && loc == int64(cdOff), "directory-found/archive-with-comment")
	}
}
