//go:build verif

package zipslicer

import (
	"bytes"
	"io"
	"os"
)

// reader that hands out the stream in pieces of a symbolic size
type vhChunked struct {
	r io.Reader
	n int
}

func (c *vhChunked) Read(p []byte) (int, error) {
	if len(p) > c.n {
		p = p[:c.n]
	}
	return c.r.Read(p)
}

// H09.ziptar: the client-side transform of a zip (directory first, then the
// whole file, as a tar stream) read back on the server side gives the member
// list, sizes and contents of the file itself, for every content and every
// read split of the upload stream; reading the transform twice gives the
// same bytes.
func VH_C09_ZipTarTransform() {
	vhMaxLen(4096)
	vhLoopBound(1100) // tar works in 512-byte blocks (checksum, padding)
	ms := []*vhMember{{name: "a", data: vhBytes("data0", 2)}, {name: "b", data: vhBytes("data1", 1)}}
	file := vhZip(0, 0, ms)
	p := vhFSPath("in.zip")
	vhFSPut(p, file)
	f, err := os.Open(p)
	if err != nil {
		return
	}
	var t1, t2 bytes.Buffer
	err = ZipToTar(f, &t1)
	vhAssert(err == nil, "transform-succeeds")
	if err != nil {
		return
	}
	err = ZipToTar(f, &t2)
	vhAssert(err == nil && bytes.Equal(t1.Bytes(), t2.Bytes()), "transform-is-repeatable")
	chunk := vhConcretize(vhInt("read-size", 1, 3), 4)
	var src io.Reader = &t1
	if chunk < 3 {
		src = &vhChunked{r: &t1, n: chunk * 7}
	}
	d, err := ReadZipTar(src)
	vhAssert(err == nil, "upload-stream-parses")
	if err != nil {
		return
	}
	vhAssert(len(d.File) == len(ms), "member-count")
	for i, zf := range d.File {
		if i >= len(ms) {
			break
		}
		vhAssert(zf.Name == ms[i].name && int(zf.Offset) == ms[i].off, "member-name-and-offset")
		rc, err := zf.Open()
		vhAssert(err == nil, "member-opens-in-stream-order")
		if err != nil {
			return
		}
		got, err := io.ReadAll(rc)
		vhAssert(err == nil && bytes.Equal(got, ms[i].data), "member-content-through-the-stream")
		vhAssert(rc.Close() == nil, "member-crc-checks")
	}
	vhReach("streamed") // vh:require streamed
}
