//go:build verif

package zipslicer

import (
	"bytes"
	"io"
	"time"
)

// H01.zip-stream / H03.zip-stream: the shape every local signing of a
// ZIP-based package has - the archive arrives as a forward-only stream
// (ReadStream: contents must be read in zip order) and Mangle's callback
// reads each kept member (the digest pass of the VSIX, JAR and APK signers)
// or drops it. For two stored members of 0..2 symbolic bytes, each with or
// without a data descriptor, each kept or dropped: re-indexing succeeds, the
// callback sees every member's own bytes, and the patch can be made. (The
// regression fixed in da00544 - member size taken before the callback, which
// reads past the data on a stream - fails "re-indexing-a-streamed-archive-
// succeeds" for every member that has a descriptor.)
func VH_C01_ZipStreamedMangle() {
	vhMaxLen(400)
	var body bytes.Buffer
	d := new(Directory)
	n0 := vhConcretize(vhInt("len0", 0, 2), 3)
	n1 := vhConcretize(vhInt("len1", 0, 2), 3)
	cs := [][]byte{vhBytes("content0", n0), vhBytes("content1", n1)}
	desc0 := vhBool("descriptor0")
	desc1 := vhBool("descriptor1")
	drop := []bool{vhBool("drop0"), vhBool("drop1")}
	mtime := time.Date(2020, 1, 2, 3, 4, 6, 0, time.UTC)
	_, err := d.NewFile("a", nil, cs[0], &body, mtime, false, desc0)
	vhAssert(err == nil, "member-written")
	_, err = d.NewFile("b", nil, cs[1], &body, mtime, false, desc1)
	vhAssert(err == nil, "member-written")
	end0 := body.Len()
	if err := d.WriteDirectory(&body, &body, false); err != nil {
		vhAssert(false, "directory-written")
		return
	}
	file := body.Bytes()
	rd, err := ReadStream(bytes.NewReader(file), int64(len(file)), file[end0:])
	vhAssert(err == nil && rd != nil && len(rd.File) == 2, "streamed-archive-parses")
	if err != nil || rd == nil || len(rd.File) != 2 {
		return
	}
	seen := 0
	m, err := rd.Mangle(func(mf *MangleFile) error {
		i := seen
		seen++
		if drop[i] {
			mf.Delete()
			return nil
		}
		r, err := mf.Open()
		if err != nil {
			return err
		}
		got, err := io.ReadAll(r)
		if err != nil {
			return err
		}
		vhAssert(bytes.Equal(got, cs[i]), "callback-reads-the-member's-own-bytes")
		return r.Close()
	})
	vhAssert(err == nil && seen == 2, "re-indexing-a-streamed-archive-succeeds")
	if err != nil {
		return
	}
	_, err = m.MakePatch(false)
	vhAssert(err == nil, "patch-made")
	vhReach("streamed") // vh:require streamed
}

func VH_C03_ZipStreamedMangle() { VH_C01_ZipStreamedMangle() }
