//go:build verif

package zipslicer

import (
	"bytes"
	"time"
)

// H17.w / H08.zip-twice: an archive zipslicer itself wrote (NewFile members
// with and without data descriptors, empty and non-empty, then
// WriteDirectory) is read back by zipslicer with the same member list, and
// every member's on-disk size (local header + data + descriptor) adds up to
// the position of the next member - which is what a second signing round
// (Mangle, AddFile) relies on. Stored members only (the deflater is not
// encoded); contents 0..2 symbolic bytes; two members.
func VH_C17_WrittenArchiveReadBack() {
	vhMaxLen(400)
	var body bytes.Buffer
	d := new(Directory)
	n0 := vhConcretize(vhInt("len0", 0, 2), 3)
	n1 := vhConcretize(vhInt("len1", 0, 2), 3)
	c0 := vhBytes("content0", n0)
	c1 := vhBytes("content1", n1)
	desc0 := vhBool("descriptor0")
	desc1 := vhBool("descriptor1")
	mtime := time.Date(2020, 1, 2, 3, 4, 6, 0, time.UTC)
	_, err := d.NewFile("a", nil, c0, &body, mtime, false, desc0)
	vhAssert(err == nil, "member-written")
	_, err = d.NewFile("b", nil, c1, &body, mtime, false, desc1)
	vhAssert(err == nil, "member-written")
	end0 := body.Len()
	if err := d.WriteDirectory(&body, &body, false); err != nil {
		vhAssert(false, "directory-written")
		return
	}
	file := body.Bytes()
	rd, err := Read(bytes.NewReader(file), int64(len(file)))
	vhAssert(err == nil, "own-archive-parses")
	if err != nil {
		return
	}
	vhAssert(len(rd.File) == 2 && rd.File[0].Name == "a" && rd.File[1].Name == "b", "own-archive-lists-its-members")
	if len(rd.File) != 2 {
		return
	}
	vhAssert(rd.DirLoc == int64(end0), "directory-location-read-back")
	s0, err := rd.File[0].GetTotalSize()
	vhAssert(err == nil, "own-descriptor-accepted")
	s1, err1 := rd.File[1].GetTotalSize()
	vhAssert(err1 == nil, "own-descriptor-accepted")
	if err != nil || err1 != nil {
		return
	}
	vhAssert(int64(rd.File[0].Offset)+s0 == int64(rd.File[1].Offset), "own-member-size-reaches-next-member")
	vhAssert(int64(rd.File[1].Offset)+s1 == rd.DirLoc, "own-member-size-reaches-directory")
	vhAssert(rd.File[0].UncompressedSize == uint64(n0) && rd.File[1].UncompressedSize == uint64(n1), "sizes-read-back")
	// second round: re-index the archive just read, keep everything
	m, err := rd.Mangle(func(mf *MangleFile) error { return nil })
	vhAssert(err == nil, "own-archive-can-be-re-indexed")
	if err != nil {
		return
	}
	patch, err := m.MakePatch(false)
	vhAssert(err == nil, "own-archive-can-be-re-indexed")
	if err != nil {
		return
	}
	out := vhApply(file, patch)
	vhAssert(bytes.Equal(out[:end0], file[:end0]), "members-untouched-by-second-round")
	rd2, err := Read(bytes.NewReader(out), int64(len(out)))
	vhAssert(err == nil && len(rd2.File) == 2 && rd2.DirLoc == int64(end0), "second-round-archive-reads-back")
	vhReach("twice") // vh:require twice
}
