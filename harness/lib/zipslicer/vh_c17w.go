//go:build verif

package zipslicer

import (
	"bytes"
	"encoding/binary"
	"time"
)

// H17.w / H08.zip-twice: an archive zipslicer itself wrote (NewFile members
// with and without data descriptors, empty and non-empty, then
// WriteDirectory) is read back by zipslicer with the same member list, and
// every member's on-disk size (local header + data + descriptor) adds up to
// the position of the next member - which is what a second signing round
// (Mangle, AddFile) relies on. Stored members only (the deflater is not
// encoded); contents 0..2 symbolic bytes; two members.
func VH_C17_WrittenArchiveReadBack() {
	vhMaxLen(400)
	var body bytes.Buffer
	d := new(Directory)
	n0 := vhConcretize(vhInt("len0", 0, 2), 3)
	n1 := vhConcretize(vhInt("len1", 0, 2), 3)
	c0 := vhBytes("content0", n0)
	c1 := vhBytes("content1", n1)
	desc0 := vhBool("descriptor0")
	desc1 := vhBool("descriptor1")
	mtime := time.Date(2020, 1, 2, 3, 4, 6, 0, time.UTC)
	_, err := d.NewFile("a", nil, c0, &body, mtime, false, desc0)
	vhAssert(err == nil, "member-written")
	_, err = d.NewFile("b", nil, c1, &body, mtime, false, desc1)
	vhAssert(err == nil, "member-written")
	end0 := body.Len()
	if err := d.WriteDirectory(&body, &body, false); err != nil {
		vhAssert(false, "directory-written")
		return
	}
	file := body.Bytes()
	rd, err := Read(bytes.NewReader(file), int64(len(file)))
	vhAssert(err == nil, "own-archive-parses")
	if err != nil {
		return
	}
	vhAssert(len(rd.File) == 2 && rd.File[0].Name == "a" && rd.File[1].Name == "b", "own-archive-lists-its-members")
	if len(rd.File) != 2 {
		return
	}
	vhAssert(rd.DirLoc == int64(end0), "directory-location-read-back")
	s0, err := rd.File[0].GetTotalSize()
	vhAssert(err == nil, "own-descriptor-accepted")
	s1, err1 := rd.File[1].GetTotalSize()
	vhAssert(err1 == nil, "own-descriptor-accepted")
	if err != nil || err1 != nil {
		return
	}
	vhAssert(int64(rd.File[0].Offset)+s0 == int64(rd.File[1].Offset), "own-member-size-reaches-next-member")
	vhAssert(int64(rd.File[1].Offset)+s1 == rd.DirLoc, "own-member-size-reaches-directory")
	vhAssert(rd.File[0].UncompressedSize == uint64(n0) && rd.File[1].UncompressedSize == uint64(n1), "sizes-read-back")
	// second round: re-index the archive just read, keep everything
	m, err := rd.Mangle(func(mf *MangleFile) error { return nil })
	vhAssert(err == nil, "own-archive-can-be-re-indexed")
	if err != nil {
		return
	}
	patch, err := m.MakePatch(false)
	vhAssert(err == nil, "own-archive-can-be-re-indexed")
	if err != nil {
		return
	}
	out := vhApply(file, patch)
	vhAssert(bytes.Equal(out[:end0], file[:end0]), "members-untouched-by-second-round")
	rd2, err := Read(bytes.NewReader(out), int64(len(out)))
	vhAssert(err == nil && len(rd2.File) == 2 && rd2.DirLoc == int64(end0), "second-round-archive-reads-back")
	vhReach("twice") // vh:require twice
}

func vhExtra(n int) []byte {
	// n/4 empty records of an application-defined tag
	var e []byte
	for i := 0; i < n/4; i++ {
		e = append(e, 0x77, 0x77, 0, 0)
	}
	return e
}

// H17.extra: the local header's extra field and the central directory's copy
// are separate fields and commonly differ in length (extended timestamps,
// zipalign padding, local-only ZIP64 records). A member's on-disk size is
// governed by the local one: for every combination of the two lengths, with
// and without a data descriptor, each member's size reaches the next member /
// the directory, and re-indexing the untouched archive reproduces it.
func VH_C17_LocalExtraDiffers() {
	vhMaxLen(600)
	lens := []int{0, 4, 8}
	var f bytes.Buffer
	type mem struct {
		name           string
		data           []byte
		lextra, cextra []byte
		desc           bool
		off            int
	}
	ms := []*mem{{name: "a", data: vhBytes("data0", 1)}, {name: "b", data: vhBytes("data1", 2)}}
	for i, m := range ms {
		m.lextra = vhExtra(lens[vhConcretize(vhInt("local-extra", 0, 2), 3)])
		m.cextra = vhExtra(lens[vhConcretize(vhInt("central-extra", 0, 2), 3)])
		m.desc = i == 0 && vhBool("descriptor")
	}
	for _, m := range ms {
		m.off = f.Len()
		h := zipLocalHeader{Signature: fileHeaderSignature, ReaderVersion: zip20, CompressedSize: uint32(len(m.data)), UncompressedSize: uint32(len(m.data)), FilenameLen: uint16(len(m.name)), ExtraLen: uint16(len(m.lextra))}
		if m.desc {
			h.Flags, h.CompressedSize, h.UncompressedSize = 8, 0, 0
		}
		binary.Write(&f, binary.LittleEndian, h)
		f.WriteString(m.name)
		f.Write(m.lextra)
		f.Write(m.data)
		if m.desc {
			binary.Write(&f, binary.LittleEndian, zipDataDesc{Signature: dataDescriptorSignature, CompressedSize: uint32(len(m.data)), UncompressedSize: uint32(len(m.data))})
		}
	}
	cdStart := f.Len()
	for _, m := range ms {
		h := zipCentralDir{Signature: directoryHeaderSignature, ReaderVersion: zip20, CompressedSize: uint32(len(m.data)), UncompressedSize: uint32(len(m.data)), FilenameLen: uint16(len(m.name)), ExtraLen: uint16(len(m.cextra)), Offset: uint32(m.off)}
		if m.desc {
			h.Flags = 8
		}
		binary.Write(&f, binary.LittleEndian, h)
		f.WriteString(m.name)
		f.Write(m.cextra)
	}
	cdSize := f.Len() - cdStart
	binary.Write(&f, binary.LittleEndian, zipEndRecord{Signature: directoryEndSignature, DiskCDCount: 2, TotalCDCount: 2, CDSize: uint32(cdSize), CDOffset: uint32(cdStart)})
	file := f.Bytes()
	d, err := Read(bytes.NewReader(file), int64(len(file)))
	vhAssert(err == nil && len(d.File) == 2, "archive-parses")
	if err != nil || len(d.File) != 2 {
		return
	}
	s0, e0 := d.File[0].GetTotalSize()
	s1, e1 := d.File[1].GetTotalSize()
	vhAssert(e0 == nil && e1 == nil, "sizes-available")
	vhAssert(int64(d.File[0].Offset)+s0 == int64(ms[1].off), "member-size-reaches-next-member")
	vhAssert(int64(d.File[1].Offset)+s1 == int64(cdStart), "member-size-reaches-directory")
	next, err := d.NextFileOffset()
	vhAssert(err == nil && next == int64(cdStart), "next-file-offset-is-the-directory")
	m, err := d.Mangle(func(mf *MangleFile) error { return nil })
	vhAssert(err == nil, "contiguous-archive-can-be-re-indexed")
	if err != nil {
		return
	}
	patch, err := m.MakePatch(false)
	vhAssert(err == nil, "contiguous-archive-can-be-re-indexed")
	if err != nil {
		return
	}
	out := vhApply(file, patch)
	vhAssert(len(out) >= cdStart && bytes.Equal(out[:cdStart], file[:cdStart]), "members-untouched")
	rd, err := Read(bytes.NewReader(out), int64(len(out)))
	vhAssert(err == nil && len(rd.File) == 2 && rd.DirLoc == int64(cdStart) && int(rd.File[1].Offset) == ms[1].off, "re-indexed-archive-reads-back")
	// serialising members one at a time (what the streaming digesters and the
	// truncating writer do) reproduces the archive's own bytes
	d2, err := Read(bytes.NewReader(file), int64(len(file)))
	vhAssert(err == nil, "archive-parses")
	if err != nil {
		return
	}
	var dumped bytes.Buffer
	for i, zf := range d2.File {
		n, err := zf.Dump(&dumped)
		vhAssert(err == nil && int(n) == dumped.Len()-ms[i].off, "dump-reports-what-it-wrote")
	}
	vhAssert(bytes.Equal(dumped.Bytes(), file[:cdStart]), "dumped-members-are-the-archives-bytes")
	// drop the last member: the result is a one-member archive an independent reader accepts
	var tr bytes.Buffer
	vhAssert(d2.Truncate(1, &tr, &tr) == nil, "truncates")
	tb := tr.Bytes()
	vhAssert(len(tb) > ms[1].off && bytes.Equal(tb[:ms[1].off], file[:ms[1].off]), "kept-member-bytes-first")
	end := tb[len(tb)-22:]
	vhAssert(binary.LittleEndian.Uint32(end) == directoryEndSignature && binary.LittleEndian.Uint16(end[10:]) == 1 && int(binary.LittleEndian.Uint32(end[16:])) == ms[1].off, "end-record-counts-one-member-directory-right-after-it")
	rt, err := Read(bytes.NewReader(tb), int64(len(tb)))
	vhAssert(err == nil && len(rt.File) == 1 && rt.File[0].Name == "a" && rt.DirLoc == int64(ms[1].off), "truncated-archive-reads-back")
	vhReach("sized") // vh:require sized
}

// H08.zip-twice: registered under C08 as well - signing a zip-based package a
// second time starts from an archive zipslicer wrote itself.
func VH_C08_ZipSecondRound() { VH_C17_WrittenArchiveReadBack() }

// H03.zip-extra: registered under C03 as well - re-indexing must leave every
// member where it is whatever the local/central extra lengths are.
func VH_C03_ZipLocalExtraKept() { VH_C17_LocalExtraDiffers() }
