//go:build verif

package xmldsig

import (
	"crypto"
	"crypto/ecdsa"
	"crypto/rsa"
	"crypto/x509"
	"encoding/base64"
	"errors"
	"io"
	"math/big"

	"github.com/beevik/etree"
)

type vhSigner struct {
	pub    crypto.PublicKey
	calls  int
	signed []byte
}

func (s *vhSigner) Public() crypto.PublicKey { return s.pub }
func (s *vhSigner) Sign(r io.Reader, d []byte, o crypto.SignerOpts) ([]byte, error) {
	s.calls++
	s.signed = d
	return []byte{0x5, 0x16, 0x27}, nil
}

func vhPub(tag string, alg int) (key crypto.PublicKey, a, b uint64) {
	a, b = vhU64(tag+"-a"), vhU64(tag+"-b")
	if alg == 0 {
		vhAssume(b < 1<<31)
		return &rsa.PublicKey{N: new(big.Int).SetUint64(a), E: int(b)}, a, b
	}
	return &ecdsa.PublicKey{X: new(big.Int).SetUint64(a), Y: new(big.Int).SetUint64(b)}, a, b
}

// H07.xmldsig: the XML signer adds a Signature element only when the first
// certificate belongs to the signing key; otherwise it returns an error, the
// key is not used and the document is left without a Signature. On success
// the SignatureValue is the key's output over the digest of the canonical
// SignedInfo, and a Signature that was already present has been replaced.
// The document is concrete (its canonical form and digests are then real
// values; canonicalisation of symbolic content is VH_C19_CanonicalForm's job).
// RSA keys (the ECDSA branch re-encodes the value and is covered by
// VH_C19_EcdsaFixedWidth).
func VH_C07_XmlSignRefusesMismatch() {
	vhMaxLen(2000)
	keyPub, ka, kb := vhPub("signing-key", 0)
	calg := vhConcretize(vhInt("certificate-key-alg", 0, 1), 2)
	certPub, ca, cb := vhPub("first-certificate-key", calg)
	ncerts := vhConcretize(vhInt("certificates", 0, 1), 2)
	certs := []*x509.Certificate{{PublicKey: certPub, Raw: []byte{0x30, 1}}}[:ncerts]
	signer := &vhSigner{pub: keyPub}
	doc := etree.NewDocument()
	root := doc.CreateElement("assembly")
	root.CreateAttr("xmlns", "urn:x")
	root.CreateElement("file").CreateAttr("name", "a.dll")
	already := vhBool("already-signed")
	if already {
		root.CreateElement("Signature").SetText("old")
	}
	err := Sign(root, root, crypto.SHA256, signer, certs, SignOptions{})
	match := ncerts == 1 && calg == 0 && ka == ca && kb == cb
	sigs := root.SelectElements("Signature")
	if err == nil {
		vhReach("signed") // vh:require signed
		vhAssert(match, "certificate-for-another-key-refused")
		vhAssert(signer.calls == 1, "key-signed-once")
		vhAssert(len(sigs) == 1 && sigs[0].Text() != "old", "exactly-one-signature-the-new-one")
		if len(sigs) == 1 {
			sv := sigs[0].SelectElement("SignatureValue")
			vhAssert(sv != nil && sv.Text() == base64.StdEncoding.EncodeToString([]byte{0x5, 0x16, 0x27}), "signature-value-is-the-keys")
			si := sigs[0].SelectElement("SignedInfo")
			vhAssert(si != nil, "signed-info-present")
			if si != nil {
				canon, cerr := SerializeCanonical(si)
				d := crypto.SHA256.New()
				d.Write(canon)
				vhAssert(cerr == nil && string(d.Sum(nil)) == string(signer.signed), "signature-over-the-canonical-signed-info")
			}
		}
	} else {
		vhReach("refused") // vh:require refused
		vhAssert(!match, "matching-pair-signs")
		vhAssert(signer.calls == 0, "key-not-used-under-a-foreign-certificate")
		if already {
			vhAssert(len(sigs) == 1 && sigs[0].Text() == "old", "document-untouched-on-refusal")
		} else {
			vhAssert(len(sigs) == 0, "document-untouched-on-refusal")
		}
	}
	_ = errors.New
}
