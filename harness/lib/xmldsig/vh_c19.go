//go:build verif

package xmldsig

import (
	"bytes"

	"github.com/beevik/etree"
)

// reference escaping per Canonical XML 1.0 section 2.3 (written from the
// specification, shares nothing with etree)
func vhEscAttr(s string) string {
	var b bytes.Buffer
	for i := 0; i < len(s); i++ {
		switch c := s[i]; c {
		case '&':
			b.WriteString("&amp;")
		case '<':
			b.WriteString("&lt;")
		case '"':
			b.WriteString("&quot;")
		case '\t':
			b.WriteString("&#x9;")
		case '\n':
			b.WriteString("&#xA;")
		case '\r':
			b.WriteString("&#xD;")
		default:
			b.WriteByte(c)
		}
	}
	return b.String()
}

func vhEscText(s string) string {
	var b bytes.Buffer
	for i := 0; i < len(s); i++ {
		switch c := s[i]; c {
		case '&':
			b.WriteString("&amp;")
		case '<':
			b.WriteString("&lt;")
		case '>':
			b.WriteString("&gt;")
		case '\r':
			b.WriteString("&#xD;")
		default:
			b.WriteByte(c)
		}
	}
	return b.String()
}

// every character class the canonical form treats differently, plus two
// ordinary ones; the index is symbolic, so no fork happens here
const vhAlphabet = "\t\n\r &<>\"'ax"

func vhXMLChars(tag string, n int) string {
	b := vhBytes(tag, n)
	out := make([]byte, n)
	for i, c := range b {
		out[i] = vhAlphabet[int(c)%len(vhAlphabet)]
	}
	return string(out)
}

// H19.c14n: the canonical form of a manifest-shaped subtree (default and
// prefixed namespaces declared on an ancestor, attributes, text) equals the
// exclusive canonicalisation written out from the W3C rules for that shape,
// and does not depend on attribute order, comments, processing instructions,
// an unused namespace declaration or where among the ancestors a namespace
// was declared. Attribute values and text are symbolic (every escapable
// character included).
func VH_C19_CanonicalForm()   { vhCanonicalForm(1, 0, 1) }
func VH_C19_CanonicalForm_T() { vhCanonicalForm(1, 0, 2) }

func vhCanonicalForm(nName, nVer, nText int) {
	vhMaxLen(600)
	name := vhXMLChars("attr-name-value", nName)
	ver := "1.0" + vhXMLChars("attr-version-value", nVer)
	text := vhXMLChars("text", nText)

	swap := vhBool("attributes-in-other-order")
	comment := vhBool("comment-present")
	pi := vhBool("processing-instruction-present")
	unused := vhBool("unused-namespace-declared")
	declHigh := vhBool("prefix-declared-on-grandparent")

	doc := etree.NewDocument()
	outer := doc.CreateElement("outer")
	if declHigh {
		outer.CreateAttr("xmlns:asm", "urn:asm")
	}
	root := outer.CreateElement("assembly")
	root.CreateAttr("xmlns", "urn:default")
	if !declHigh {
		root.CreateAttr("xmlns:asm", "urn:asm")
	}
	if unused {
		root.CreateAttr("xmlns:unused", "urn:unused")
	}
	if comment {
		root.CreateComment(" a comment ")
	}
	id := root.CreateElement("assemblyIdentity")
	if swap {
		id.CreateAttr("version", ver)
		id.CreateAttr("name", name)
	} else {
		id.CreateAttr("name", name)
		id.CreateAttr("version", ver)
	}
	if pi {
		root.CreateProcInst("target", "inst")
	}
	dep := root.CreateElement("asm:dependency")
	dep.CreateAttr("asm:kind", "k")
	dep.SetText(text)

	got, err := SerializeCanonical(root)
	vhAssert(err == nil, "canonicalises")
	if err != nil {
		return
	}
	want := `<assembly xmlns="urn:default">` +
		`<assemblyIdentity name="` + vhEscAttr(name) + `" version="` + vhEscAttr(ver) + `"></assemblyIdentity>` +
		`<asm:dependency xmlns:asm="urn:asm" asm:kind="k">` + vhEscText(text) + `</asm:dependency>` +
		`</assembly>`
	vhAssert(string(got) == want, "equals-exclusive-c14n-of-the-subtree")
	vhReach("canonical") // vh:require canonical
}

// H19.attr-order: attributes in two namespaces sort by namespace URI first
// (Canonical XML 1.0 section 2.3 / document order of the attribute axis),
// not by the prefix the document happens to use.
func VH_C19_AttributeOrderByNamespaceURI() {
	vhMaxLen(600)
	v := vhXMLChars("value", 1)
	doc := etree.NewDocument()
	e := doc.CreateElement("e")
	e.CreateAttr("xmlns:a", "urn:2")
	e.CreateAttr("xmlns:b", "urn:1")
	if vhBool("attributes-in-other-order") {
		e.CreateAttr("b:x", v)
		e.CreateAttr("a:y", "2")
	} else {
		e.CreateAttr("a:y", "2")
		e.CreateAttr("b:x", v)
	}
	got, err := SerializeCanonical(e)
	vhAssert(err == nil, "canonicalises")
	if err != nil {
		return
	}
	// namespace nodes by prefix, then attributes by (namespace URI, local name)
	want := `<e xmlns:a="urn:2" xmlns:b="urn:1" b:x="` + vhEscAttr(v) + `" a:y="2"></e>`
	vhReach("canonical") // vh:require canonical
	vhAssert(string(got) == want, "attributes-sorted-by-namespace-uri")
}
