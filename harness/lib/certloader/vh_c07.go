//go:build verif

package certloader

import (
	"crypto"
	"crypto/ecdsa"
	"crypto/rsa"
	"crypto/x509"
	"errors"
	"io"
	"math/big"

	"github.com/ProtonMail/go-crypto/openpgp"
	"github.com/ProtonMail/go-crypto/openpgp/packet"
)

type vhSigner struct{ pub crypto.PublicKey }

func (s vhSigner) Public() crypto.PublicKey { return s.pub }
func (s vhSigner) Sign(r io.Reader, d []byte, o crypto.SignerOpts) ([]byte, error) {
	return nil, errors.New("n/a")
}

// a symbolic public key (RSA or ECDSA; big integers are 64-bit stand-ins)
func vhPub(tag string) (key crypto.PublicKey, alg int, a, b uint64) {
	alg = vhConcretize(vhInt(tag+"-alg", 0, 1), 2)
	a, b = vhU64(tag+"-a"), vhU64(tag+"-b")
	if alg == 0 {
		vhAssume(b < 1<<31)
		return &rsa.PublicKey{N: new(big.Int).SetUint64(a), E: int(b)}, alg, a, b
	}
	return &ecdsa.PublicKey{X: new(big.Int).SetUint64(a), Y: new(big.Int).SetUint64(b)}, alg, a, b
}

// H07.load: LoadTokenCertificates pairs a token key with the configured
// X.509 certificate file / blob and PGP certificate only when the leaf's (or
// PGP primary key's) public key is the token key's; otherwise it returns an
// error and no Certificate. On success the bundle's chain begins with that
// leaf and carries the token key. The PEM/DER and OpenPGP parsers are stubs
// returning a certificate with an arbitrary public key.
func VH_C07_LoadTokenCertificates() {
	// vh:stubbed
	tokPub, talg, ta, tb := vhPub("token-key")
	certPub, calg, ca, cb := vhPub("certificate-key")
	pgpPub, palg, pa, pb := vhPub("pgp-key")
	useFile := vhBool("x509-from-file")
	useBlob := vhBool("x509-from-blob")
	usePGP := vhBool("pgp-configured")
	leaf := &x509.Certificate{PublicKey: certPub, Raw: []byte{1}}
	inter := &x509.Certificate{PublicKey: pgpPub, Raw: []byte{2}}
	vhStub("github.com/sassoftware/relic/v8/lib/certloader.parseCertificates", func(blob []byte) (*Certificate, error) {
		return &Certificate{Leaf: leaf, Certificates: []*x509.Certificate{leaf, inter}}, nil
	})
	vhStub("github.com/sassoftware/relic/v8/lib/certloader.parsePGP", func(blob []byte) (openpgp.EntityList, error) {
		return openpgp.EntityList{&openpgp.Entity{PrimaryKey: &packet.PublicKey{PublicKey: pgpPub}}}, nil
	})
	var x509path, pgppath string
	var blob []byte
	if useFile {
		x509path = vhFSPath("cert.pem")
		vhFSPut(x509path, []byte("x"))
	}
	if useBlob {
		blob = []byte("y")
	}
	if usePGP {
		pgppath = vhFSPath("cert.pgp")
		vhFSPut(pgppath, []byte("z"))
	}
	key := vhSigner{tokPub}
	cert, err := LoadTokenCertificates(key, x509path, pgppath, blob)
	x509Match := talg == calg && ta == ca && tb == cb
	pgpMatch := talg == palg && ta == pa && tb == pb
	hasX509 := useFile || useBlob
	if err == nil {
		vhReach("loaded") // vh:require loaded
		vhAssert(!hasX509 || x509Match, "x509-certificate-for-another-key-refused")
		vhAssert(!usePGP || pgpMatch, "pgp-certificate-for-another-key-refused")
		vhAssert(cert != nil && cert.PrivateKey == crypto.PrivateKey(key), "bundle-carries-the-token-key")
		if hasX509 {
			ch := cert.Chain()
			vhAssert(cert.Leaf == leaf && len(ch) >= 1 && ch[0] == leaf, "chain-begins-with-the-matching-leaf")
		} else {
			vhAssert(cert.Leaf == nil, "no-leaf-invented")
		}
		if usePGP {
			vhAssert(cert.PgpKey != nil && cert.PgpKey.PrivateKey != nil && cert.PgpKey.PrivateKey.PrivateKey == crypto.PrivateKey(key), "pgp-entity-carries-the-token-key")
		}
	} else {
		vhReach("refused") // vh:require refused
		vhAssert(cert == nil, "no-bundle-on-error")
		vhAssert((hasX509 && !x509Match) || (usePGP && !pgpMatch), "matching-configuration-accepted")
	}
}
