//go:build verif

package authenticode

import "bytes"

// H09.pecksum: the PE checksum does not depend on how the stream is split
// into (even-sized) writes, for every position of the checksum field.
func VH_C09_PEChecksumSplit() {
	maxN := 10
	if vhTier() > 0 {
		maxN = 16
	}
	n := 2 * vhConcretize(vhInt("halflen", 0, maxN/2), 16)
	data := vhBytes("data", n)
	// checksum field position: any 4-aligned offset (PE headers are aligned),
	// inside or beyond the data
	pos := 4 * vhConcretize(vhInt("ckpos4", 0, maxN/4+1), 16)
	one := &peChecksum{cksumPos: pos}
	one.Write(data)
	want := one.Sum(nil)
	// three writes at arbitrary even split points
	a := 2 * vhConcretize(vhInt("split1", 0, n/2), 16)
	b := 2 * vhConcretize(vhInt("split2", 0, n/2), 16)
	vhAssume(a <= b && b <= n)
	h := &peChecksum{cksumPos: pos}
	h.Write(data[:a])
	h.Write(data[a:b])
	h.Write(data[b:])
	got := h.Sum(nil)
	vhAssert(bytes.Equal(got, want), "checksum-independent-of-write-split")
	vhReach("compared") // vh:require compared
}
