//go:build verif

package authenticode

import "bytes"

// H09.pecksum: the PE checksum does not depend on how the stream is split
// into (even-sized) writes, for every position of the checksum field.
func VH_C09_PEChecksumSplit() {
	maxN := 10
	if vhTier() > 0 {
		maxN = 16
	}
	n := 2 * vhConcretize(vhInt("halflen", 0, maxN/2), 16)
	data := vhBytes("data", n)
	// checksum field position: any 4-aligned offset (PE headers are aligned),
	// inside or beyond the data
	pos := 4 * vhConcretize(vhInt("ckpos4", 0, maxN/4+1), 16)
	one := &peChecksum{cksumPos: pos}
	one.Write(data)
	want := one.Sum(nil)
	// three writes at arbitrary even split points
	a := 2 * vhConcretize(vhInt("split1", 0, n/2), 16)
	b := 2 * vhConcretize(vhInt("split2", 0, n/2), 16)
	vhAssume(a <= b && b <= n)
	h := &peChecksum{cksumPos: pos}
	h.Write(data[:a])
	h.Write(data[a:b])
	h.Write(data[b:])
	got := h.Sum(nil)
	vhAssert(bytes.Equal(got, want), "checksum-independent-of-write-split")
	vhReach("compared") // vh:require compared
}

// a reader that delivers its data in arbitrary short reads
type vhChunkReader struct {
	data []byte
	pos  int
}

func (r *vhChunkReader) Read(p []byte) (int, error) {
	rem := len(r.data) - r.pos
	if rem == 0 {
		return 0, vhEOF
	}
	max := len(p)
	if rem < max {
		max = rem
	}
	if max == 0 {
		return 0, nil
	}
	n := vhConcretize(vhInt("read-size", 1, max), 16)
	copy(p, r.data[r.pos:r.pos+n])
	r.pos += n
	return n, nil
}

func vhNewHasher(page int) *imageHasher {
	return &imageHasher{hashFunc: vhSHA256, imageDigest: vhSHA256.New(), doPageHash: true,
		zeroPage: make([]byte, page), pageBuf: make([]byte, page)}
}

// H09.pehash: the page hashes and the image digest of a section do not depend
// on how the upload stream is cut into reads (page size scaled to 4 bytes:
// the hasher takes its page size from its buffers).
func VH_C09_PESectionShortReads() {
	const page = 4
	n := vhConcretize(vhInt("section-bytes", 1, 9), 16)
	data := vhBytes("section", n)
	ptr := vhU32("pointer-to-raw-data")
	sh := vhSection(uint32(n), ptr)
	one := vhNewHasher(page)
	err := one.section(bytes.NewReader(data), sh)
	vhAssert(err == nil, "whole-read-ok")
	want, wantPages, _ := one.finish()
	h := vhNewHasher(page)
	err = h.section(&vhChunkReader{data: data}, sh)
	vhAssert(err == nil, "short-reads-ok")
	got, gotPages, _ := h.finish()
	vhAssert(bytes.Equal(got, want), "image-digest-independent-of-read-sizes")
	vhAssert(bytes.Equal(gotPages, wantPages), "page-hashes-independent-of-read-sizes")
	// layout of the table: (offset32 || digest) per page, then a terminator
	pages := (n + page - 1) / page
	vhAssert(len(wantPages) == (pages+1)*(4+32), "one-entry-per-page-plus-terminator")
	vhReach("compared") // vh:require compared
}
