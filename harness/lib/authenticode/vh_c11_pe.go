//go:build verif

package authenticode

import (
	"bytes"
	"crypto"
	_ "crypto/sha256"
)

func vhDigestArbitrary(b []byte) {
	vhAllocLimit(4<<20 + 16*len(b))
	vhLoopBound(len(b) + 16)
	doPageHash := vhBool("pagehash")
	d, err := DigestPE(bytes.NewReader(b), crypto.SHA256, doPageHash)
	if err == nil {
		vhReach("accepted")
		vhAssert(d != nil, "result-non-nil")
	} else {
		vhReach("rejected")
	}
}

// H11.pe (prefixes): DigestPE on arbitrary short byte strings (every length
// around the DOS / COFF header boundaries): error, never a panic.
func VH_C11_PEDigestShort() {
	lens := []int{0, 1, 63, 64, 67, 68, 87, 88, 89, 90, 96}
	n := lens[vhConcretize(vhInt("lenidx", 0, len(lens)-1), 32)]
	vhMaxLen(n + 2)
	b := vhBytes("pe", n)
	vhDigestArbitrary(b) // vh:require rejected
}

// vhPEShape fixes the three layout fields that otherwise multiply paths
// (e_lfanew, SizeOfOptionalHeader, NumberOfSections); every other byte of the
// file stays symbolic, and `slack` extra bytes follow the section table.
func vhPEShape(optSize, nsec, slack int) []byte {
	n := 64 + 24 + optSize + 40*nsec + slack
	vhMaxLen(n + 2)
	b := vhBytes("pe", n)
	vhAssume(b[0x3c] == 64 && b[0x3d] == 0 && b[0x3e] == 0 && b[0x3f] == 0)
	vhAssume(b[64+4+2] == byte(nsec) && b[64+4+3] == 0)
	vhAssume(b[64+4+16] == byte(optSize) && b[64+4+17] == byte(optSize>>8))
	return b
}

// H11.pe (full header, no section)
func VH_C11_PEDigestHdr() {
	optSize := 224
	if vhBool("pe32plus") {
		optSize = 240
	}
	vhDigestArbitrary(vhPEShape(optSize, 0, 5)) // vh:require accepted rejected
}

// H11.pe (one section + a few body/trailer bytes)
func VH_C11_PEDigestSec1() {
	vhDigestArbitrary(vhPEShape(224, 1, 4)) // vh:require accepted rejected
}

// H11.pe (two sections) - thorough tier
func VH_C11_PEDigestSec2_T() {
	b := vhPEShape(224, 2, 2)
	// FileAlignment: symbolic remainder by a symbolic divisor is slow in every
	// back end, so the divisor is one of a few representative values
	fa := uint32(b[64+24+36]) | uint32(b[64+24+37])<<8 | uint32(b[64+24+38])<<16 | uint32(b[64+24+39])<<24
	vhAssume(fa == 0 || fa == 1 || fa == 2 || fa == 512)
	vhDigestArbitrary(b) // vh:require accepted rejected
}

// H11.pe (odd optional header sizes: shorter / longer than the struct)
func VH_C11_PEDigestOddOpt() {
	sizes := []int{0, 1, 2, 95, 96, 223, 225, 239, 241}
	optSize := sizes[vhConcretize(vhInt("optidx", 0, len(sizes)-1), 16)]
	vhDigestArbitrary(vhPEShape(optSize, 0, 3)) // vh:require rejected
}

// H11.pe (certificate table walk): checkSignatures on an arbitrary attribute
// certificate table; the CMS parser is a stub that rejects or accepts each
// entry arbitrarily.
func VH_C11_PECertTableWalk() {
	// vh:stubbed
	n := vhConcretize(vhInt("len", 0, 26), 32)
	blob := vhBytes("table", n)
	vhLoopBound(len(blob) + 8)
	vhStub("github.com/sassoftware/relic/v8/lib/authenticode.checkSignature", func(der []byte) (*PESignature, error) {
		if vhBool("cms-rejects") {
			return nil, errStop
		}
		return &PESignature{Indirect: new(SpcIndirectDataContentPe), ImageHashFunc: vhSHA256}, nil
	})
	_, err := checkSignatures(blob, nil)
	if err == nil {
		vhReach("accepted") // vh:require accepted
	} else {
		vhReach("rejected") // vh:require rejected
	}
}

// H11.pe (verifier entry): VerifyPE / the is-signed probe on an arbitrary PE
// header: the certificate table named by data directory 4 (address and size
// symbolic) is read without allocating by the size field and without panic;
// the CMS parser behind it is a stub.
func VH_C11_PEVerifyEntry() {
	// vh:stubbed
	// a fixed minimal PE32 header (no sections); only data directory 4 - the
	// certificate table's address and size - and the bytes after the header
	// are symbolic
	n := 64 + 24 + 224 + 3
	vhMaxLen(n + 2)
	b := make([]byte, n)
	b[0], b[1], b[0x3c] = 'M', 'Z', 64
	copy(b[64:], []byte{'P', 'E', 0, 0})
	b[64+4+16] = 224
	b[64+24], b[64+24+1] = 0x0b, 0x01
	copy(b[64+24+92:], []byte{16, 0, 0, 0})
	copy(b[64+24+128:], vhBytes("certificate-table-entry", 8))
	copy(b[64+24+224:], vhBytes("after-the-header", 3))
	vhAllocLimit(4<<20 + 16*len(b))
	vhLoopBound(len(b) + 16)
	vhStub("github.com/sassoftware/relic/v8/lib/authenticode.checkSignature", func(der []byte) (*PESignature, error) {
		return nil, errStop
	})
	sigs, err := VerifyPE(bytes.NewReader(b), true)
	if err == nil {
		vhReach("accepted")
		vhAssert(len(sigs) > 0, "accepted-means-signatures")
	} else {
		vhReach("rejected") // vh:require rejected
	}
}
