//go:build verif

package authenticode

import (
	"crypto"
	_ "crypto/sha256"
	"debug/pe"
	"io"
)

var vhEOF = io.EOF

const vhSHA256 = crypto.SHA256

func vhSection(size, ptr uint32) pe.SectionHeader32 {
	return pe.SectionHeader32{SizeOfRawData: size, PointerToRawData: ptr}
}
