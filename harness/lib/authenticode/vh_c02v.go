//go:build verif

package authenticode

import (
	"bytes"
	"crypto"
	"encoding/asn1"
	"encoding/base64"
	"encoding/binary"
	"errors"

	"github.com/sassoftware/relic/v8/lib/cabfile"
	"github.com/sassoftware/relic/v8/lib/comdoc"
	"github.com/sassoftware/relic/v8/lib/pkcs7"
	"github.com/sassoftware/relic/v8/lib/pkcs9"
	"github.com/sassoftware/relic/v8/lib/x509tools"
	"github.com/sassoftware/relic/v8/signers/sigerrors"
)

// the CMS layer as nondeterministic stubs: what the embedded blob decodes to,
// whether its signature verifies, and the digest it vouches for
type vhCms struct {
	wrongType, sigBad bool
	digest            []byte
	digests           [][]byte // when set: the digest vouched for by the n-th blob decoded
	decoded           int
}

func (c *vhCms) current() []byte {
	if c.digests != nil && c.decoded >= 1 && c.decoded <= len(c.digests) {
		return c.digests[c.decoded-1]
	}
	return c.digest
}

func (c *vhCms) install() {
	vhStub("github.com/sassoftware/relic/v8/lib/pkcs7.Unmarshal", func(blob []byte) (*pkcs7.ContentInfoSignedData, error) {
		c.decoded++
		psd := &pkcs7.ContentInfoSignedData{}
		psd.Content.ContentInfo.ContentType = OidSpcIndirectDataContent
		if c.wrongType {
			psd.Content.ContentInfo.ContentType = asn1.ObjectIdentifier{1, 2, 840, 113549, 1, 7, 1}
		}
		psd.Content.SignerInfos = make([]pkcs7.SignerInfo, 1)
		return psd, nil
	})
	vhStub("(*github.com/sassoftware/relic/v8/lib/pkcs7.SignedData).Verify", func(sd *pkcs7.SignedData, ext []byte, skip bool) (pkcs7.Signature, error) {
		if c.sigBad {
			return pkcs7.Signature{}, errors.New("pkcs7: signature mismatch")
		}
		return pkcs7.Signature{SignerInfo: &sd.SignerInfos[0]}, nil
	})
	vhStub("github.com/sassoftware/relic/v8/lib/pkcs9.VerifyOptionalTimestamp", func(sig pkcs7.Signature) (pkcs9.TimestampedSignature, error) {
		return pkcs9.TimestampedSignature{Signature: sig}, nil
	})
	alg, _ := x509tools.PkixDigestAlgorithm(crypto.SHA256)
	vhStub("(github.com/sassoftware/relic/v8/lib/pkcs7.ContentInfo).Unmarshal", func(ci pkcs7.ContentInfo, dest interface{}) error {
		switch d := dest.(type) {
		case *SpcIndirectDataContentMsi:
			d.MessageDigest.DigestAlgorithm = alg
			d.MessageDigest.Digest = c.current()
		case *SpcIndirectDataContentPe:
			d.MessageDigest.DigestAlgorithm = alg
			d.MessageDigest.Digest = c.current()
		}
		return nil
	})
	vhStub("github.com/sassoftware/relic/v8/lib/authenticode.GetOpusInfo", func(si *pkcs7.SignerInfo) (*SpcSpOpusInfo, error) {
		return nil, nil
	})
}

// H02.msi: VerifyMSI with integrity checking accepts a signed container only
// when the embedded blob is an Authenticode structure whose signature
// verifies AND the imprint recomputed from the container's streams (preceded
// by the extended pre-hash when an extended-signature stream is present, which
// must itself equal the recomputed pre-hash) equals the signed digest. One
// changed payload byte (symbolic position and value), a stale extended
// stream, a bad CMS signature or a foreign content type: rejected. No
// signature stream: "not signed". The CMS layer is a stub.
func VH_C02_MsiVerifyComparesDigests() {
	// vh:stubbed
	vhMaxLen(8192)
	vhLoopBound(1100)
	var uid [16]byte
	p := vhMsiStream{"P", append(vhBytes("stream-P", 2), make([]byte, 38)...)}
	q := vhMsiStream{"Q", append(vhBytes("stream-Q", 2), make([]byte, 31)...)}
	extended := vhBool("extended-signature-stream")
	// what the signer saw
	clean, err := comdoc.ReadFile(bytes.NewReader(vhMsiContainer(uid, []vhMsiStream{p, q})))
	vhAssume(err == nil)
	imprint, prehash, err := DigestMSI(clean, crypto.SHA256, extended)
	vhAssume(err == nil)
	cms := &vhCms{wrongType: vhBool("foreign-content-type"), sigBad: vhBool("cms-signature-bad"), digest: imprint}
	cms.install()
	// what the verifier gets
	alteration := vhConcretize(vhInt("alteration", 0, 3), 4) // 0 none, 1 payload byte, 2 stale extended stream, 3 signature removed
	pp := vhMsiStream{"P", append([]byte{}, p.data...)}
	if alteration == 1 {
		pos := vhConcretize(vhInt("changed-byte", 0, 1), 2)
		v := vhU8("new-value")
		vhAssume(v != pp.data[pos])
		pp.data[pos] = v
	}
	streams := []vhMsiStream{pp, q}
	if alteration != 3 {
		streams = append(streams, vhMsiStream{msiDigitalSignature, make([]byte, 40)})
	}
	if extended {
		ex := append([]byte{}, prehash...)
		if alteration == 2 {
			ex[0] ^= 1
		}
		streams = append(streams, vhMsiStream{msiDigitalSignatureEx, ex})
	}
	sig, err := VerifyMSI(bytes.NewReader(vhMsiContainer(uid, streams)), false)
	vhReach("decided") // vh:require decided
	if alteration == 3 {
		_, notSigned := err.(sigerrors.NotSignedError)
		vhAssert(sig == nil && notSigned, "no-signature-stream-means-not-signed")
		return
	}
	// (a stale extended stream only exists when there is an extended stream)
	untouched := alteration == 0 || (alteration == 2 && !extended)
	genuine := untouched && !cms.wrongType && !cms.sigBad
	if err == nil {
		vhReach("accepted") // vh:require accepted
		vhAssert(genuine, "altered-content-or-bad-signature-never-accepted")
		vhAssert(sig != nil && sig.HashFunc == crypto.SHA256, "digest-algorithm-reported")
	} else {
		vhAssert(!genuine, "genuine-signature-accepted")
	}
}

// H02.ps: VerifyPowershell with integrity checking accepts a script only when
// the digest recomputed from the script text equals the signed digest: one
// changed character of the script (symbolic position and value) is rejected,
// as are a bad CMS signature and a foreign content type; a script without a
// signature block is "not signed". The CMS layer is a stub.
func VH_C02_PowershellVerifyComparesDigest() {
	// vh:stubbed
	vhMaxLen(4000)
	vhLoopBound(400)
	style := PsSigStyle(vhConcretize(vhInt("comment-style", 1, 3), 4))
	si := psStyles[style]
	script := []byte("Write-Host 1\r\n")
	d0, err := DigestPowershell(bytes.NewReader(script), style, crypto.SHA256)
	vhAssume(err == nil)
	cms := &vhCms{wrongType: vhBool("foreign-content-type"), sigBad: vhBool("cms-signature-bad"), digest: d0.Imprint}
	cms.install()
	text := append([]byte{}, script...)
	changed := vhBool("script-character-changed")
	if changed {
		pos := vhConcretize(vhInt("changed-position", 0, 2), 3)
		const letters = "abcXYZ019"
		c := letters[int(vhU8("new-character"))%len(letters)]
		vhAssume(c != text[pos])
		text[pos] = c
	}
	signedBlock := vhBool("signature-block-present")
	if signedBlock {
		text = append(text, []byte("\r\n"+si.start+psBegin+si.end+"\r\n"+si.start+base64.StdEncoding.EncodeToString([]byte{0x30, 0x03, 1, 2, 3})+si.end+"\r\n"+si.start+psEnd+si.end+"\r\n")...)
	}
	sig, err := VerifyPowershell(bytes.NewReader(text), style, false)
	vhReach("decided") // vh:require decided
	if !signedBlock {
		_, notSigned := err.(sigerrors.NotSignedError)
		vhAssert(sig == nil && notSigned, "no-signature-block-means-not-signed")
		return
	}
	genuine := !changed && !cms.wrongType && !cms.sigBad
	if err == nil {
		vhReach("accepted") // vh:require accepted
		vhAssert(genuine, "altered-script-or-bad-signature-never-accepted")
	} else {
		vhAssert(!genuine, "genuine-signature-accepted")
	}
}

// H02.pe-verify: VerifyPE with integrity checking accepts a signed image only
// when the image digest recomputed from the file equals the digest the
// embedded (stubbed) CMS structure vouches for: one changed section byte
// (symbolic value) is rejected with a digest mismatch, as are a bad CMS
// signature and a foreign content type.
func VH_C02_PEVerifyComparesDigest() {
	// vh:stubbed
	f := vhPEGap(true, 0, 2, 0, 8)
	x := f.x
	dx, err := DigestPE(bytes.NewReader(x), crypto.SHA256, false)
	vhAssume(err == nil)
	cms := &vhCms{wrongType: vhBool("foreign-content-type"), sigBad: vhBool("cms-signature-bad"), digest: dx.Imprint}
	cms.install()
	y := append([]byte{}, x...)
	changed := vhBool("section-byte-changed")
	if changed {
		p := vhHdrEnd + vhConcretize(vhInt("changed-byte", 0, 1), 2)
		y[p] = vhU8("new-value")
		vhAssume(y[p] != x[p])
	}
	sigs, err := VerifyPE(bytes.NewReader(y), false)
	vhReach("decided") // vh:require decided
	genuine := !changed && !cms.wrongType && !cms.sigBad
	if err == nil {
		vhReach("accepted") // vh:require accepted
		vhAssert(genuine && len(sigs) == 1, "altered-image-or-bad-signature-never-accepted")
	} else {
		vhAssert(!genuine, "genuine-signature-accepted")
	}
}

// H02.cab: VerifyCab with integrity checking accepts a signed cabinet only
// when the embedded blob is an Authenticode structure whose signature
// verifies AND the cabinet digest recomputed from the file equals the signed
// one. One changed byte in the folder table or the data (symbolic position and
// value), a bad CMS signature or a foreign content type: rejected; no
// signature area: "not signed". The CMS layer is a stub.
func VH_C02_CabVerifyComparesDigest() {
	// vh:stubbed
	const hdr, nf, d, s = 36 + 4 + 20, 1, 4, 8
	total := hdr + 8*nf + d
	x := make([]byte, total+s)
	le := binary.LittleEndian
	copy(x, "MSCF")
	le.PutUint32(x[8:], uint32(total))
	le.PutUint32(x[16:], uint32(hdr+8*nf))
	x[24], x[25] = 3, 1
	le.PutUint16(x[26:], nf)
	le.PutUint16(x[30:], 4) // reserve present
	le.PutUint16(x[36:], 20)
	le.PutUint32(x[44:], uint32(total))
	le.PutUint32(x[48:], s)
	le.PutUint32(x[hdr:], uint32(hdr+8*nf))
	copy(x[hdr+8*nf:], "data")
	copy(x[total:], "cmsblob!")
	dx, err := cabfile.Digest(bytes.NewReader(x), crypto.SHA256)
	vhAssert(err == nil, "cabinet-well-formed")
	if err != nil {
		return
	}
	cms := &vhCms{wrongType: vhBool("foreign-content-type"), sigBad: vhBool("cms-signature-bad"), digest: dx.Imprint}
	cms.install()
	y := append([]byte{}, x...)
	changed := vhBool("protected-byte-changed")
	if changed {
		p := hdr + 4 + vhConcretize(vhInt("changed-byte", 0, 4+d-1), 8) // folder entry past its offset word, and the data
		y[p] = vhU8("new-value")
		vhAssume(y[p] != x[p])
	}
	sig, err := VerifyCab(bytes.NewReader(y), false)
	vhReach("decided") // vh:require decided
	genuine := !changed && !cms.wrongType && !cms.sigBad
	if err == nil {
		vhReach("accepted") // vh:require accepted
		vhAssert(genuine && sig != nil, "altered-cabinet-or-bad-signature-never-accepted")
	} else {
		vhAssert(!genuine, "genuine-signature-accepted")
	}
	// the same cabinet as a build tool without signing support writes it: no reserve area
	u := make([]byte, 36+8*nf+d)
	copy(u, "MSCF")
	le.PutUint32(u[8:], uint32(len(u)))
	le.PutUint32(u[16:], uint32(36+8*nf))
	u[24], u[25] = 3, 1
	le.PutUint16(u[26:], nf)
	le.PutUint32(u[36:], uint32(36+8*nf))
	copy(u[36+8*nf:], "data")
	_, err = VerifyCab(bytes.NewReader(u), false)
	_, notSigned := err.(sigerrors.NotSignedError)
	vhAssert(notSigned, "cabinet-without-signature-is-not-signed")
}


// H02.pe-two: a certificate table with TWO signatures using the same digest
// algorithm (dual signing, or a signature grafted from another file next to a
// genuine one). Each signature vouches for its own image digest (the stub
// CMS layer hands out an arbitrary 32-byte value for the first and for the
// second); checkSignatures accepts only if BOTH equal the digest recomputed
// from the image - in either order.
func VH_C02_PETwoSignaturesSameAlgorithm() {
	// vh:stubbed
	f := vhPEGap(false, 0, 2, 0, 0)
	dx, err := DigestPE(bytes.NewReader(f.x), crypto.SHA256, false)
	vhAssume(err == nil)
	d1, d2 := vhBytes("digest-in-first-signature", 32), vhBytes("digest-in-second-signature", 32)
	cms := &vhCms{digests: [][]byte{d1, d2}}
	cms.install()
	entry := func(payload []byte) []byte {
		e := make([]byte, 8+len(payload))
		binary.LittleEndian.PutUint32(e, uint32(len(e)))
		e[4], e[5], e[6], e[7] = 0, 2, 2, 0
		copy(e[8:], payload)
		return e
	}
	table := append(entry([]byte("cms-blob")), entry([]byte("cms-blob"))...)
	sigs, err := checkSignatures(table, bytes.NewReader(f.x))
	vhReach("decided") // vh:require decided
	both := bytes.Equal(d1, dx.Imprint) && bytes.Equal(d2, dx.Imprint)
	if err == nil {
		vhReach("accepted") // vh:require accepted
		vhAssert(both && len(sigs) == 2, "every-signature-must-vouch-for-this-image")
	} else {
		vhAssert(!both, "two-genuine-signatures-accepted")
	}
}
