//go:build verif

package authenticode

import "github.com/sassoftware/relic/v8/lib/comdoc"

// reference order of sibling entries for the MSI imprint, written from the
// description independent verifiers use (osslsigncode dirent_cmp_hash):
// memcmp over the raw little-endian UTF-16 names for the shorter of the two
// byte lengths - which include the terminating NUL - and, if that is equal,
// the LONGER name first.
func vhMsiBefore(a, b *comdoc.DirEnt) bool {
	n := int(a.NameLength)
	if int(b.NameLength) < n {
		n = int(b.NameLength)
	}
	for i := 0; i < n; i++ {
		x, y := a.NameRunes[i/2], b.NameRunes[i/2]
		var xb, yb byte
		if i%2 == 0 {
			xb, yb = byte(x), byte(y)
		} else {
			xb, yb = byte(x>>8), byte(y>>8)
		}
		if xb != yb {
			return xb < yb
		}
	}
	return a.NameLength > b.NameLength
}

// H05.msi-order: the order in which sortMsiFiles feeds sibling streams into
// the MSI imprint is the reference order, for every pair of names (1-2
// symbolic UTF-16 units each, so shared prefixes, a name that is a prefix of
// the other, and differences in the low or high byte all occur), whichever
// way round they arrive.
func VH_C05_MsiStreamOrder() {
	mk := func(tag string) *comdoc.DirEnt {
		e := &comdoc.DirEnt{}
		n := vhConcretize(vhInt(tag+"-units", 1, 2), 3)
		for i := 0; i < n; i++ {
			u := vhU16(tag + "-unit")
			vhAssume(u != 0)
			e.NameRunes[i] = u
		}
		e.NameLength = uint16(2 * (n + 1)) // bytes, counting the terminator
		return e
	}
	a, b := mk("a"), mk("b")
	same := a.NameLength == b.NameLength && a.NameRunes[0] == b.NameRunes[0] && a.NameRunes[1] == b.NameRunes[1]
	vhAssume(!same) // sibling names are distinct
	files := []*comdoc.DirEnt{a, b}
	if vhBool("arrive-in-other-order") {
		files[0], files[1] = b, a
	}
	sortMsiFiles(files)
	vhAssert((files[0] == a) == vhMsiBefore(a, b), "order-is-the-reference-order")
	vhAssert(files[0] != files[1], "both-entries-kept")
	vhReach("sorted") // vh:require sorted
}
