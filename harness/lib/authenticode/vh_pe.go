//go:build verif

package authenticode

import (
	"bytes"
	"crypto"
	"crypto/sha256"
	"encoding/binary"

	"github.com/sassoftware/relic/v8/lib/binpatch"
)

// reference application of a patch set (semantics established by C12)
func vhApply(x []byte, p *binpatch.PatchSet) []byte {
	var out []byte
	pos := int64(0)
	for i, h := range p.Patches {
		out = append(out, x[pos:h.Offset]...)
		out = append(out, p.Blobs[i]...)
		pos = h.Offset + int64(h.OldSize)
	}
	return append(out, x[pos:]...)
}

const (
	vhPEStart   = 64
	vhOptStart  = vhPEStart + 24
	vhCksumOff  = vhOptStart + 64
	vhDD4Off    = vhOptStart + 128 // PE32: data directory entry 4 (certificate table)
	vhSecTbl    = vhOptStart + 224
	vhHdrEnd    = vhSecTbl + 40 // one section
)

type vhPEFile struct {
	x         []byte
	gap       int // bytes between the end of the headers (SizeOfHeaders) and the first section
	bodyLen   int // section body
	overlay   int // bytes after the section (unsigned files only)
	certStart int // 0 if unsigned
	certSize  int
}

// a well-formed PE32 image: DOS header, PE/COFF header, optional header with
// 16 data directories, one section whose body follows the headers directly,
// an optional overlay, and optionally an existing certificate table at the
// (8-aligned) end of the file. Every byte not fixed by the layout is symbolic.
func vhPE(signed bool, body, overlay, oldSig int) vhPEFile {
	return vhPEGap(signed, 0, body, overlay, oldSig)
}

func vhPEGap(signed bool, gap, body, overlay, oldSig int) vhPEFile {
	n := vhHdrEnd + gap + body + overlay
	f := vhPEFile{gap: gap, bodyLen: body, overlay: overlay}
	if signed {
		pad := (8 - n%8) % 8
		f.certStart = n + pad
		f.certSize = 8 + oldSig
		n = f.certStart + f.certSize
	}
	vhMaxLen(n + 64)
	x := vhBytes("pe", n)
	le16 := func(off int) uint16 { return binary.LittleEndian.Uint16(x[off:]) }
	le32 := func(off int) uint32 { return binary.LittleEndian.Uint32(x[off:]) }
	vhAssume(x[0] == 'M' && x[1] == 'Z' && le32(0x3c) == vhPEStart)
	vhAssume(x[vhPEStart] == 'P' && x[vhPEStart+1] == 'E' && x[vhPEStart+2] == 0 && x[vhPEStart+3] == 0)
	vhAssume(le16(vhPEStart+4) == 0x14c)                  // machine: i386 (4 KiB pages)
	vhAssume(le16(vhPEStart+6) == 1)                      // NumberOfSections
	vhAssume(le16(vhPEStart+20) == 224)                   // SizeOfOptionalHeader
	vhAssume(le16(vhOptStart) == optHeaderMagicPE32)      // magic
	vhAssume(le32(vhOptStart+36) == 512)                  // FileAlignment
	vhAssume(le32(vhOptStart+60) == vhHdrEnd)             // SizeOfHeaders
	vhAssume(le32(vhOptStart+92) == 16)                   // NumberOfRvaAndSizes
	vhAssume(le32(vhDD4Off) == uint32(f.certStart) && le32(vhDD4Off+4) == uint32(f.certSize))
	vhAssume(le32(vhSecTbl+16) == uint32(body))           // SizeOfRawData
	vhAssume(le32(vhSecTbl+20) == uint32(vhHdrEnd+gap))   // PointerToRawData
	if signed {
		vhAssume(le32(f.certStart) == uint32(f.certSize)) // WIN_CERTIFICATE.dwLength
	}
	f.x = x
	return f
}

func vhPad8(n int) int { return (n + 7) / 8 * 8 }

// Shared scenario for C01 / C03 / C08 on PE images: sign, look at the result
// the way the verifier does, sign again.
func vhPEScenario(prop string) {
	signed := vhBool("already-signed")
	body := vhConcretize(vhInt("section-bytes", 1, 3), 4)
	overlay := 0
	if !signed {
		overlay = vhConcretize(vhInt("overlay-bytes", 0, 2), 4)
	}
	gap := vhConcretize(vhInt("header-gap-bytes", 0, 1), 2)
	f := vhPEGap(signed, gap, body, overlay, 8)
	x := f.x
	dg, err := DigestPE(bytes.NewReader(x), crypto.SHA256, false)
	if prop == "C01" {
		vhAssert(err == nil, "well-formed-pe-accepted-for-signing")
	}
	if err != nil {
		return
	}
	sig := vhBytes("sig", vhInt("siglen", 1, 9))
	patch, err := dg.MakePatch(sig)
	if prop == "C01" {
		vhAssert(err == nil, "patch-built")
	}
	if err != nil {
		return
	}
	x1 := vhApply(x, patch)
	dg1, err := DigestPE(bytes.NewReader(x1), crypto.SHA256, false)
	if prop == "C01" {
		vhAssert(err == nil, "signed-pe-parses")
	}
	if err != nil {
		return
	}
	vhReach("signed")
	payloadEnd := vhHdrEnd + gap + body + overlay // end of everything that is not signature
	tblStart := vhPad8(payloadEnd)
	tblLen := 8 + vhPad8(len(sig))
	switch prop {
	case "C01":
		vhAssert(bytes.Equal(dg1.Imprint, dg.Imprint), "verifier-recomputes-the-signed-digest")
		// what VerifyPE reads: directory entry 4 -> table -> WIN_CERTIFICATE
		hv, err := findSignatures(bytes.NewReader(x1))
		vhAssert(err == nil, "verifier-finds-the-headers")
		if err == nil {
			vhAssert(int(hv.certStart) == tblStart && int(hv.certSize) == tblLen, "directory-entry-points-at-the-new-table")
			vhAssert(tblStart+tblLen == len(x1), "table-is-the-end-of-the-file")
			tbl := x1[tblStart:]
			vhAssert(binary.LittleEndian.Uint32(tbl) == uint32(tblLen), "win-certificate-length")
			vhAssert(binary.LittleEndian.Uint16(tbl[4:]) == 0x0200 && binary.LittleEndian.Uint16(tbl[6:]) == 0x0002, "win-certificate-revision-and-type")
			vhAssert(bytes.Equal(tbl[8:8+len(sig)], sig), "table-carries-the-signature-blob")
			for _, b := range tbl[8+len(sig):] {
				vhAssert(b == 0, "padding-is-zero")
			}
		}
	case "C03":
		// everything that is not signature metadata is byte-identical
		vhAssert(bytes.Equal(x1[:vhDD4Off], x[:vhDD4Off]), "headers-before-the-directory-entry-unchanged")
		vhAssert(bytes.Equal(x1[vhDD4Off+8:payloadEnd], x[vhDD4Off+8:payloadEnd]), "rest-of-headers-sections-and-overlay-unchanged")
		if signed {
			// the input already had its alignment bytes: they are payload now
			vhAssert(bytes.Equal(x1[payloadEnd:tblStart], x[payloadEnd:f.certStart]), "existing-alignment-bytes-unchanged")
		} else {
			for _, b := range x1[payloadEnd:tblStart] {
				vhAssert(b == 0, "alignment-padding-is-zero")
			}
		}
		vhAssert(len(x1) == tblStart+tblLen, "nothing-else-appended")
	case "C08":
		vhAssert(bytes.Equal(dg1.Imprint, dg.Imprint), "digest-ignores-the-signature")
		sig2 := vhBytes("sig2", vhInt("sig2len", 1, 9))
		patch2, err := dg1.MakePatch(sig2)
		vhAssert(err == nil, "second-patch-built")
		if err != nil {
			return
		}
		x2 := vhApply(x1, patch2)
		dg2, err := DigestPE(bytes.NewReader(x2), crypto.SHA256, false)
		vhAssert(err == nil, "resigned-pe-parses")
		if err != nil {
			return
		}
		vhAssert(bytes.Equal(dg2.Imprint, dg.Imprint), "digest-unchanged-by-resigning")
		vhAssert(len(x2) == tblStart+8+vhPad8(len(sig2)), "old-table-replaced-not-stacked")
		vhAssert(bytes.Equal(x2[tblStart+8:tblStart+8+len(sig2)], sig2), "second-signature-in-place-of-the-first")
		vhAssert(bytes.Equal(x2[vhDD4Off+8:payloadEnd], x[vhDD4Off+8:payloadEnd]), "payload-equals-the-original")
		vhReach("resigned")
	}
}

// H08.pe: the image digest is the same for an unsigned PE, its signed form
// and its re-signed form (second blob of a different padded size); the second
// signature sits where the first was, the directory entry follows it and the
// payload equals the original's.
func VH_C08_PEResign() {
	vhPEScenario("C08") // vh:require signed resigned
}

// H01.pe: for every well-formed PE32 image in the model (one section,
// optional gap after the headers, overlay, optionally already signed; every
// non-layout byte symbolic) and every signature blob, DigestPE -> MakePatch ->
// patch applied -> DigestPE succeeds again, finds exactly the embedded blob in
// the certificate table and recomputes the digest that was signed.
func VH_C01_PESignVerifies() {
	vhPEScenario("C01") // vh:require signed
}

// H03.pe: signing a PE changes only signature metadata: headers (except
// CheckSum and directory entry 4), section bodies, overlay and existing
// alignment bytes are byte-identical; the certificate table lands 8-aligned
// after them.
func VH_C03_PEPayloadIntact() {
	vhPEScenario("C03") // vh:require signed
}

// H05.peimage: relic's streaming Authenticode image hash equals the
// specification's computation on the whole buffer: hash the file without the
// CheckSum field, without the certificate-table directory entry and without
// the certificate table, zero-padded to a multiple of 8 bytes when no table
// is present yet.
func VH_C05_PEImageHashSpec() {
	signed := vhBool("already-signed")
	body := vhConcretize(vhInt("section-bytes", 1, 3), 4)
	overlay := 0
	if !signed {
		overlay = vhConcretize(vhInt("overlay-bytes", 0, 2), 4)
	}
	gap := vhConcretize(vhInt("header-gap-bytes", 0, 2), 4)
	f := vhPEGap(signed, gap, body, overlay, 8)
	x := f.x
	dg, err := DigestPE(bytes.NewReader(x), crypto.SHA256, false)
	vhAssume(err == nil)
	end := len(x)
	if signed {
		end = f.certStart
	}
	ref := sha256.New()
	ref.Write(x[:vhCksumOff])
	ref.Write(x[vhCksumOff+4 : vhDD4Off])
	ref.Write(x[vhDD4Off+8 : end])
	if end%8 != 0 {
		ref.Write(make([]byte, 8-end%8))
	}
	vhAssert(bytes.Equal(dg.Imprint, ref.Sum(nil)), "image-hash-equals-spec-reference")
	vhReach("compared") // vh:require compared
}

// H02.pe: a one-byte change anywhere outside the CheckSum field, the
// certificate-table directory entry and the certificate table changes the
// image digest (or makes the parser reject the file).
func VH_C02_PETamper() {
	body := vhConcretize(vhInt("section-bytes", 1, 2), 4)
	gap := vhConcretize(vhInt("header-gap-bytes", 0, 2), 4)
	f := vhPEGap(true, gap, body, 0, 8)
	x := f.x
	dx, err := DigestPE(bytes.NewReader(x), crypto.SHA256, false)
	vhAssume(err == nil)
	// positions sampled from every region of the protected set; bytes of the
	// layout fields themselves (e_lfanew, section count, header sizes, section
	// pointer) multiply parser paths and are tried in the thorough tier only
	cands := []int{2, vhPEStart + 4, vhPEStart + 8, vhOptStart + 16, vhCksumOff - 1, vhCksumOff + 4, vhDD4Off - 1, vhDD4Off + 8, vhSecTbl, vhSecTbl + 39, vhHdrEnd, vhHdrEnd + gap, vhHdrEnd + gap + body - 1}
	if gap > 1 {
		cands = append(cands, vhHdrEnd+gap-1)
	}
	if vhTier() > 0 {
		cands = append(cands, 0, vhPEStart, vhPEStart+6, vhOptStart, vhOptStart+92, vhSecTbl+16)
	}
	p := cands[vhConcretize(vhInt("position", 0, len(cands)-1), 32)]
	y := append([]byte{}, x...)
	y[p] = vhU8("newbyte")
	vhAssume(y[p] != x[p])
	dy, err := DigestPE(bytes.NewReader(y), crypto.SHA256, false)
	if err != nil {
		vhReach("tampered-file-rejected")
		return
	}
	vhReach("tampered-file-parsed") // vh:require tampered-file-parsed
	vhAssert(!bytes.Equal(dx.Imprint, dy.Imprint), "protected-byte-change-changes-the-digest")
}

// H01.pe (verifier side): VerifyPE on the signed image walks the certificate
// table and hands exactly the embedded blob (plus its zero padding) to the
// CMS check. The CMS check itself is a stub.
func VH_C01_PEVerifierWalk() {
	// vh:stubbed
	body := vhConcretize(vhInt("section-bytes", 1, 2), 4)
	f := vhPE(vhBool("already-signed"), body, 0, 8)
	dg, err := DigestPE(bytes.NewReader(f.x), crypto.SHA256, false)
	vhAssume(err == nil)
	sig := vhBytes("sig", vhInt("siglen", 1, 9))
	patch, err := dg.MakePatch(sig)
	vhAssume(err == nil)
	x1 := vhApply(f.x, patch)
	var seen [][]byte
	vhStub("github.com/sassoftware/relic/v8/lib/authenticode.checkSignature", func(der []byte) (*PESignature, error) {
		seen = append(seen, append([]byte{}, der...))
		return nil, errStop
	})
	_, err = VerifyPE(bytes.NewReader(x1), true)
	vhAssert(err == errStop, "verifier-reaches-the-cms-check")
	vhAssert(len(seen) == 1, "exactly-one-signature-found")
	if len(seen) == 1 {
		vhAssert(len(seen[0]) == vhPad8(len(sig)) && bytes.Equal(seen[0][:len(sig)], sig), "cms-check-gets-the-embedded-blob")
	}
	vhReach("walked") // vh:require walked
}

var errStop = &vhStopErr{}

type vhStopErr struct{}

func (*vhStopErr) Error() string { return "stub: stop" }

// H02.pe (appended content): bytes appended after the certificate table are
// rejected by the digester the verifier uses.
func VH_C02_PETrailingGarbage() {
	body := vhConcretize(vhInt("section-bytes", 1, 2), 4)
	f := vhPE(true, body, 0, 8)
	_, err := DigestPE(bytes.NewReader(f.x), crypto.SHA256, false)
	vhAssume(err == nil)
	extra := vhBytes("appended", vhInt("appended-len", 1, 3))
	y := append(append([]byte{}, f.x...), extra...)
	_, err = DigestPE(bytes.NewReader(y), crypto.SHA256, false)
	vhAssert(err != nil, "content-appended-after-the-signature-is-rejected")
	vhReach("checked") // vh:require checked
}
