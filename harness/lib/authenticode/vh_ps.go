//go:build verif

package authenticode

import (
	"bytes"
	"crypto"

	"github.com/sassoftware/relic/v8/lib/binpatch"
)

func vhPsApply(x []byte, p *binpatch.PatchSet) []byte {
	var out []byte
	pos := int64(0)
	for i, h := range p.Patches {
		out = append(out, x[pos:h.Offset]...)
		out = append(out, p.Blobs[i]...)
		pos = h.Offset + int64(h.OldSize)
	}
	return append(out, x[pos:]...)
}

// script text over the characters the line scanner treats specially plus
// ordinary ones; the index is symbolic (no fork here)
func vhPsText(tag string, n int) []byte {
	const alphabet = "a#S \r\n"
	b := vhBytes(tag, n)
	out := make([]byte, n)
	for i, c := range b {
		out[i] = alphabet[int(c)%len(alphabet)]
	}
	return out
}

// H08.ps / H03.ps / H01.ps: for every script text (lines ending in CRLF, LF,
// or nothing) in each comment style: the digest of the signed script equals
// the digest of the unsigned one, the recorded text and signature sizes are
// the true ones, the script text is byte-identical in the output, and a
// second signature replaces the first (the twice-signed file is what signing
// the original with the second blob gives).
func VH_C08_PowershellResign() { vhPsResign(false) }

// the same for scripts stored as UTF-16-LE with a byte-order mark
func VH_C08_PowershellResignUtf16() { vhPsResign(true) }

func vhPsResign(wide bool) {
	vhMaxLen(4000)
	style := PsSigStyle(vhConcretize(vhInt("comment-style", 1, 3), 4))
	script := vhPsText("script", vhConcretize(vhInt("script-bytes", 0, 4), 5))
	if wide {
		w := []byte{0xff, 0xfe}
		for _, c := range script {
			w = append(w, c, 0)
		}
		script = w
	}
	sig1 := vhBytes("signature", vhConcretize(vhInt("signature-bytes", 1, 3), 4))
	sig2 := vhBytes("second-signature", 2)
	d0, err := DigestPowershell(bytes.NewReader(script), style, crypto.SHA256)
	vhAssert(err == nil, "script-digests")
	if err != nil {
		return
	}
	vhAssert(d0.TextSize == int64(len(script)) && d0.SigSize == 0, "unsigned-script-is-all-text")
	p1, err := d0.MakePatch(sig1)
	vhAssert(err == nil, "patch-made")
	signed := vhPsApply(script, p1)
	vhAssert(len(signed) > len(script) && bytes.Equal(signed[:len(script)], script), "script-text-unchanged")
	d1, err := DigestPowershell(bytes.NewReader(signed), style, crypto.SHA256)
	vhAssert(err == nil, "signed-script-digests")
	if err != nil {
		return
	}
	vhAssert(bytes.Equal(d1.Imprint, d0.Imprint), "digest-ignores-existing-signature")
	vhAssert(d1.TextSize == int64(len(script)) && d1.SigSize == int64(len(signed)-len(script)), "signature-block-measured-exactly")
	p2, err := d1.MakePatch(sig2)
	vhAssert(err == nil, "second-patch-made")
	twice := vhPsApply(signed, p2)
	pd, _ := d0.MakePatch(sig2)
	vhAssert(bytes.Equal(twice, vhPsApply(script, pd)), "second-signature-replaces-the-first")
	vhReach("resigned") // vh:require resigned
}

func VH_C03_PowershellTextKept() { VH_C08_PowershellResign() }

// H11.ps: DigestPowershell on text in which the signature-begin line may
// appear anywhere - first line, after a line that ends in a bare LF, after
// an empty line - never panics.
func VH_C11_PowershellDigest() {
	vhMaxLen(2000)
	vhLoopBound(200)
	style := PsSigStyle(vhConcretize(vhInt("comment-style", 1, 3), 4))
	si := psStyles[style]
	before := vhPsText("before", vhConcretize(vhInt("bytes-before", 0, 3), 4))
	var text []byte
	text = append(text, before...)
	if vhBool("begin-line-present") {
		text = append(text, []byte(si.start+psBegin+si.end+"\r\n")...)
	}
	text = append(text, vhPsText("after", vhConcretize(vhInt("bytes-after", 0, 2), 3))...)
	d, err := DigestPowershell(bytes.NewReader(text), style, crypto.SHA256)
	if err == nil {
		vhReach("digested") // vh:require digested
		vhAssert(d.TextSize >= 0 && d.TextSize+d.SigSize <= int64(len(text)), "sizes-inside-the-input")
	}
}
