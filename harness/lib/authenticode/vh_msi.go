//go:build verif

package authenticode

import (
	"bytes"
	"crypto"
	"crypto/sha256"
	"encoding/binary"
	"io"
	"unicode/utf16"

	"github.com/sassoftware/relic/v8/lib/comdoc"
)

const vhMsiSector = 128

func vhMsiDirEnt(name string, typ comdoc.DirType, left, right, root int32, next comdoc.SecID, size uint32) comdoc.RawDirEnt {
	e := comdoc.RawDirEnt{Type: typ, Color: comdoc.Black, LeftChild: left, RightChild: right, StorageRoot: root, NextSector: next, StreamSize: size}
	runes := append(utf16.Encode([]rune(name)), 0)
	copy(e.NameRunes[:], runes)
	e.NameLength = uint16(2 * len(runes))
	return e
}

type vhMsiStream struct {
	name string
	data []byte
}

// a minimal valid container holding the given streams (each 32..128 bytes, so
// one regular sector apiece), chained as a right-leaning directory tree
func vhMsiContainer(uid [16]byte, streams []vhMsiStream) []byte {
	var f bytes.Buffer
	n := len(streams)
	h := comdoc.Header{Revision: 0x3e, Version: 3, ByteOrder: 0xfffe, SectorSize: 7, ShortSectorSize: 4,
		SATSectors: 1, DirNextSector: 1, MinStdStreamSize: 32, SSATNextSector: comdoc.SecIDEndOfChain, MSATNextSector: comdoc.SecIDEndOfChain}
	copy(h.Magic[:], []byte{0xd0, 0xcf, 0x11, 0xe0, 0xa1, 0xb1, 0x1a, 0xe1})
	for i := range h.MSAT {
		h.MSAT[i] = comdoc.SecIDFree
	}
	h.MSAT[0] = 0
	binary.Write(&f, binary.LittleEndian, h)
	sat := make([]comdoc.SecID, vhMsiSector/4)
	for i := range sat {
		sat[i] = comdoc.SecIDFree
	}
	sat[0] = comdoc.SecIDSAT
	// directory: sectors 1..n+1, chained
	for i := 1; i <= n+1; i++ {
		sat[i] = comdoc.SecID(i + 1)
	}
	sat[n+1] = comdoc.SecIDEndOfChain
	for i := 0; i < n; i++ {
		sat[n+2+i] = comdoc.SecIDEndOfChain
	}
	binary.Write(&f, binary.LittleEndian, sat)
	root := vhMsiDirEnt("Root Entry", comdoc.DirRoot, -1, -1, 1, comdoc.SecIDEndOfChain, 0)
	root.UID = uid
	binary.Write(&f, binary.LittleEndian, root)
	for i, s := range streams {
		right := int32(-1)
		if i+1 < n {
			right = int32(i + 2)
		}
		binary.Write(&f, binary.LittleEndian, vhMsiDirEnt(s.name, comdoc.DirStream, -1, right, -1, comdoc.SecID(n+2+i), uint32(len(s.data))))
	}
	for _, s := range streams {
		sec := make([]byte, vhMsiSector)
		copy(sec, s.data)
		f.Write(sec)
	}
	return f.Bytes()
}

// H05.msi / H08.msi / H09.msi: for a container with two payload streams
// (symbolic bytes, symbolic root CLSID), optionally already carrying a
// signature stream, listed in either directory order:
//   - the imprint DigestMSI computes is the digest of the streams in the
//     reference order followed by the root CLSID (reference written here);
//   - it is the same with and without the signature stream (the digest ignores
//     an existing signature);
//   - the digest the server computes from the uploaded tar stream
//     (MsiToTar -> DigestMsiTar) equals the one computed from the container,
//     with and without the extended (MsiDigitalSignatureEx) pre-hash.
func VH_C05_MsiImprint() {
	vhMaxLen(8192)
	vhLoopBound(1100)
	var uid [16]byte
	copy(uid[:], vhBytes("root-clsid", 4))
	p := vhMsiStream{"P", append(vhBytes("stream-P", 3), make([]byte, 37)...)}
	q := vhMsiStream{"Q", append(vhBytes("stream-Q", 2), make([]byte, 31)...)}
	sig := vhMsiStream{msiDigitalSignature, append(vhBytes("old-signature", 2), make([]byte, 38)...)}
	streams := []vhMsiStream{p, q}
	if vhBool("directory-lists-Q-first") {
		streams = []vhMsiStream{q, p}
	}
	signed := vhBool("already-signed")
	if signed {
		streams = append(streams, sig)
	}
	ext := vhBool("extended-signature")
	cdf, err := comdoc.ReadFile(bytes.NewReader(vhMsiContainer(uid, streams)))
	vhAssert(err == nil, "container-opens")
	if err != nil {
		return
	}
	imprint, prehash, err := DigestMSI(cdf, crypto.SHA256, ext)
	vhAssert(err == nil, "container-digests")
	if err != nil {
		return
	}
	// reference: P before Q (0x50 < 0x51), then the root CLSID; extended: the pre-hash first
	ref := sha256.New()
	if ext {
		ref.Write(prehash)
	}
	ref.Write(p.data)
	ref.Write(q.data)
	ref.Write(uid[:])
	vhAssert(bytes.Equal(imprint, ref.Sum(nil)), "imprint-is-streams-in-reference-order-then-clsid")
	// the unsigned twin
	twin, err := comdoc.ReadFile(bytes.NewReader(vhMsiContainer(uid, []vhMsiStream{p, q})))
	vhAssert(err == nil, "container-opens")
	if err != nil {
		return
	}
	imprint2, prehash2, err := DigestMSI(twin, crypto.SHA256, ext)
	vhAssert(err == nil && bytes.Equal(imprint, imprint2) && bytes.Equal(prehash, prehash2), "digest-ignores-existing-signature")
	// through the upload stream
	var tarball bytes.Buffer
	vhAssert(MsiToTar(cdf, &tarball) == nil, "transform-succeeds")
	imprint3, err := DigestMsiTar(&tarball, crypto.SHA256, ext)
	vhAssert(err == nil && bytes.Equal(imprint3, imprint), "tar-stream-digest-equals-container-digest")
	vhReach("digested") // vh:require digested
}

// the same decisions registered under the other properties they belong to
func VH_C08_MsiDigestIgnoresSignature() { VH_C05_MsiImprint() }
func VH_C09_MsiTarDigestEqualsDirect()  { VH_C05_MsiImprint() }

// H18.msi-insert / H08.msi-insert: InsertMSISignature on a real container
// (through the real compound-file writer): afterwards the signature stream
// holds exactly the PKCS#7 blob, the extended-signature stream exists exactly
// when an extended digest was supplied (a stale one from an earlier signing
// is removed), the payload streams keep their bytes, and the MSI imprint is
// what it was before - for an unsigned container and for one signed before
// with or without the extended stream.
func VH_C08_MsiInsertSignature() {
	vhMaxLen(8192)
	vhLoopBound(1100)
	var uid [16]byte
	p := vhMsiStream{"P", append(vhBytes("stream-P", 3), make([]byte, 37)...)}
	q := vhMsiStream{"Q", append(vhBytes("stream-Q", 2), make([]byte, 31)...)}
	streams := []vhMsiStream{p, q}
	prior := vhConcretize(vhInt("signed-before", 0, 2), 3) // 0 no, 1 plain, 2 with extended stream
	if prior >= 1 {
		streams = append(streams, vhMsiStream{msiDigitalSignature, make([]byte, 40)})
	}
	if prior == 2 {
		streams = append(streams, vhMsiStream{msiDigitalSignatureEx, make([]byte, 32)})
	}
	path := vhFSPath("p.msi")
	vhFSPut(path, vhMsiContainer(uid, streams))
	before, err := comdoc.ReadPath(path)
	vhAssert(err == nil, "container-opens")
	if err != nil {
		return
	}
	imprint0, _, err := DigestMSI(before, crypto.SHA256, false)
	vhAssert(err == nil, "container-digests")
	before.Close()
	w, err := comdoc.WritePath(path)
	vhAssert(err == nil, "container-opens-for-writing")
	if err != nil {
		return
	}
	pkcs := append(vhBytes("pkcs7", 2), make([]byte, 38)...)
	var exsig []byte
	if vhBool("extended-digest-supplied") {
		exsig = append(vhBytes("extended-digest", 2), make([]byte, 30)...)
	}
	vhAssert(InsertMSISignature(w, pkcs, exsig) == nil, "signature-inserted")
	vhAssert(w.Close() == nil, "container-closed")
	after, err := comdoc.ReadPath(path)
	vhAssert(err == nil, "signed-container-opens")
	if err != nil {
		return
	}
	files, err := after.ListDir(nil)
	vhAssert(err == nil, "directory-lists")
	got := map[string][]byte{}
	for _, e := range files {
		r, err := after.ReadStream(e)
		if err == nil {
			got[e.Name()], _ = io.ReadAll(r)
		}
	}
	vhAssert(bytes.Equal(got["P"], p.data) && bytes.Equal(got["Q"], q.data), "payload-streams-unchanged")
	vhAssert(bytes.Equal(got[msiDigitalSignature], pkcs), "signature-stream-is-the-blob")
	ex, hasEx := got[msiDigitalSignatureEx]
	vhAssert(hasEx == (exsig != nil) && (exsig == nil || bytes.Equal(ex, exsig)), "extended-stream-present-iff-supplied")
	vhAssert(len(got) == 3+map[bool]int{false: 0, true: 1}[exsig != nil], "no-other-stream-appears")
	imprint1, _, err := DigestMSI(after, crypto.SHA256, false)
	vhAssert(err == nil && bytes.Equal(imprint0, imprint1), "imprint-unchanged-by-signing")
	vhReach("inserted") // vh:require inserted
}

func VH_C18_MsiInsertSignature() { VH_C08_MsiInsertSignature() }
