//go:build verif

package authenticode

import (
	"bytes"
	"encoding/binary"
)

// H05.pecksum: relic's streaming PE checksum equals the specification's
// whole-buffer computation (16-bit one's-complement style fold of the file
// with the CheckSum field taken as zero, plus the file length), written here
// independently of relic's structure.
func vhRefPEChecksum(file []byte, field int) uint32 {
	buf := append([]byte{}, file...)
	if len(buf)%2 != 0 {
		buf = append(buf, 0)
	}
	var sum uint32
	for i := 0; i+1 < len(buf); i += 2 {
		w := uint32(buf[i]) | uint32(buf[i+1])<<8
		if i >= field && i < field+4 {
			w = 0
		}
		sum += w
		sum = (sum & 0xffff) + (sum >> 16)
	}
	sum = (sum & 0xffff) + (sum >> 16)
	return sum + uint32(len(file))
}

// whole-buffer comparison for very short files (end-to-end sanity), and the
// inductive step for files of any length: from an arbitrary reachable state
// (sum <= 0xffff) one 16-bit word is folded exactly as the specification's
// end-around-carry addition, the field words count as zero, and Sum adds the
// byte count.
func VH_C05_PEChecksumSpec() {
	n := vhConcretize(vhInt("len", 0, 5), 8)
	data := vhBytes("data", n)
	pos := 4 * vhConcretize(vhInt("ckpos4", 0, 2), 4)
	h := &peChecksum{cksumPos: pos}
	h.Write(data)
	got := binary.LittleEndian.Uint32(h.Sum(nil))
	want := vhRefPEChecksum(data, pos)
	vhAssert(got == want, "pe-checksum-equals-spec-reference")
	var le [4]byte
	binary.LittleEndian.PutUint32(le[:], want)
	vhAssert(bytes.Equal(h.Sum(nil), le[:]), "sum-is-little-endian")
	vhReach("compared") // vh:require compared
}

// H05.checksum-step: one 16-bit word added to the running PE checksum from an
// arbitrary reachable state updates it exactly as the specification's
// end-around-carry sum does, so whole files of any length follow by induction.
func VH_C05_PEChecksumStep() {
	s0 := uint32(vhU16("sum"))
	size0 := vhU32("size")
	vhAssume(size0 < 1<<31)
	w := vhBytes("word", 2)
	rel := vhConcretize(vhInt("fieldrel", 0, 5), 8) - 3 // field start relative to this word, in words
	cp := 2 * rel // -6..4 ; the field covers [cp, cp+4)
	h := &peChecksum{sum: s0, size: size0}
	switch {
	case cp >= 0:
		h.cksumPos = cp
	case cp == -2:
		h.cksumPos = -2
	default:
		h.cksumPos = -1 // field already passed
	}
	h.Write(w)
	val := uint32(w[0]) | uint32(w[1])<<8
	if cp == 0 || cp == -2 {
		val = 0 // this word is one half of the CheckSum field
	}
	x := s0 + val
	x = (x & 0xffff) + (x >> 16)
	x = (x & 0xffff) + (x >> 16)
	vhAssert(h.sum == x, "step-is-end-around-carry-add")
	vhAssert(h.sum <= 0xffff, "state-invariant-sum-16-bit")
	vhAssert(h.size == size0+2, "size-counts-bytes")
	// where the field is afterwards
	switch {
	case cp >= 2:
		vhAssert(h.cksumPos == cp-2, "field-position-carried")
	case cp == 0:
		vhAssert(h.cksumPos == -2, "second-half-pending")
	default:
		vhAssert(h.cksumPos == -1, "field-done")
	}
	// final formula
	out := binary.LittleEndian.Uint32(h.Sum(nil))
	vhAssert(out == h.sum+h.size, "sum-adds-length")
	vhReach("step") // vh:require step
}
