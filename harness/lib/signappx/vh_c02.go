//go:build verif

package signappx

import (
	"archive/zip"
	"bytes"
	"crypto"
	"crypto/sha256"
	"encoding/base64"
	"encoding/binary"
)

type vhMember struct {
	name string
	data []byte
	off  int
}

// stored members back to back from offset 0, central directory, end record;
// returns the file and the offset of the central directory
func vhZip(ms []*vhMember) ([]byte, int) {
	var f bytes.Buffer
	le := binary.LittleEndian
	for _, m := range ms {
		m.off = f.Len()
		binary.Write(&f, le, uint32(0x04034b50))
		binary.Write(&f, le, []uint16{20, 0, 0, 0, 0})
		binary.Write(&f, le, []uint32{0, uint32(len(m.data)), uint32(len(m.data))})
		binary.Write(&f, le, []uint16{uint16(len(m.name)), 0})
		f.WriteString(m.name)
		f.Write(m.data)
	}
	cd := f.Len()
	for _, m := range ms {
		binary.Write(&f, le, uint32(0x02014b50))
		binary.Write(&f, le, []uint16{20, 20, 0, 0, 0, 0})
		binary.Write(&f, le, []uint32{0, uint32(len(m.data)), uint32(len(m.data))})
		binary.Write(&f, le, []uint16{uint16(len(m.name)), 0, 0, 0, 0})
		binary.Write(&f, le, []uint32{0, uint32(m.off)})
		f.WriteString(m.name)
	}
	size := f.Len() - cd
	binary.Write(&f, le, uint32(0x06054b50))
	binary.Write(&f, le, []uint16{0, 0, uint16(len(ms)), uint16(len(ms))})
	binary.Write(&f, le, []uint32{uint32(size), uint32(cd)})
	binary.Write(&f, le, uint16(0))
	return f.Bytes(), cd
}

// H02.appx-meta: the two zip-level digests of an APPX signature. AXPC is
// defined as the digest of every byte that precedes the signature member,
// AXCD as the digest of the central directory and end record the package had
// before the signature member was appended (both written out here without
// zipslicer: a prefix of the file, and the tail of the same archive built
// without the signature). verifyMeta accepts the package with those two
// values, and rejects it after ONE byte is changed anywhere before the
// signature member or in the central directory entries of the other members
// (symbolic position, symbolic value) - or the archive no longer parses.
func VH_C02_AppxZipMeta() {
	vhMaxLen(4096)
	vhLoopBound(400)
	m0 := &vhMember{name: appxManifest, data: vhBytes("manifest", 2)}
	m1 := &vhMember{name: "a.dll", data: vhBytes("payload", 2)}
	sigm := &vhMember{name: appxSignature, data: []byte("PKCXsig")}
	file, cd := vhZip([]*vhMember{m0, m1, sigm})
	before, cdBefore := vhZip([]*vhMember{m0, m1})
	vhAssert(bytes.Equal(before[:cdBefore], file[:sigm.off]), "builder-consistent")
	axpc, axcd := sha256.Sum256(file[:sigm.off]), sha256.Sum256(before[cdBefore:])
	sig := &AppxSignature{Hash: crypto.SHA256, HashValues: map[string][]byte{"AXPC": axpc[:], "AXCD": axcd[:]}}
	vhAssert(verifyMeta(bytes.NewReader(file), int64(len(file)), sig, false) == nil, "package-as-signed-verifies")

	// protected positions: everything before the signature member, and the
	// directory entries of the two other members
	entries := 2*46 + len(m0.name) + len(m1.name)
	n := sigm.off + entries
	var idx int
	if vhTier() > 0 {
		idx = vhConcretize(vhInt("changed-byte", 0, n-1), 512)
	} else {
		// quick: every field boundary of the first local header, the data, and the first directory entry
		picks := []int{0, 4, 6, 8, 10, 14, 18, 22, 26, 28, 30, 30 + len(m0.name), m1.off, m1.off + 30 + len(m1.name) + 1,
			sigm.off, sigm.off + 4, sigm.off + 10, sigm.off + 16, sigm.off + 20, sigm.off + 24, sigm.off + 28, sigm.off + 42, sigm.off + 46, n - 1}
		idx = picks[vhConcretize(vhInt("changed-byte-idx", 0, len(picks)-1), 64)]
	}
	pos := idx
	if idx >= sigm.off {
		pos = cd + (idx - sigm.off)
	}
	tampered := append([]byte{}, file...)
	tampered[pos] = vhU8("new-value")
	vhAssume(tampered[pos] != file[pos])
	// as Verify does: the standard zip reader must open the file and list the
	// signature member before the zip-level digests are looked at
	zr, err := zip.NewReader(bytes.NewReader(tampered), int64(len(tampered)))
	listed := false
	if err == nil {
		for _, f := range zr.File {
			listed = listed || f.Name == appxSignature
		}
	}
	if !listed {
		vhReach("unreadable")
		return
	}
	err = verifyMeta(bytes.NewReader(tampered), int64(len(tampered)), sig, false)
	vhAssert(err != nil, "changed-protected-byte-rejected")
	vhReach("tampered") // vh:require tampered
}

// H02.appx-blockmap: AppxBlockMap.xml vouches for every payload member in
// 64 KiB blocks (constant scaled to 2 bytes here). The XML decoder is a stub
// that returns the map a correct signer writes (names in DOS form, sizes,
// base64 SHA-256 per block) for a package read by the standard zip reader;
// verifyBlockMap accepts it, and rejects: one changed payload byte (symbolic),
// a member the map does not list, members in another order, a wrong size.
func VH_C02_AppxBlockMap() {
	// vh:stubbed
	vhAssert(blockMapSize == 2, "block-constant-scaled")
	vhMaxLen(4096)
	vhLoopBound(400)
	m0 := &vhMember{name: appxManifest, data: []byte("<m>")}
	m1 := &vhMember{name: "d/a.dll", data: []byte("MZ\x90\x00!")[:vhConcretize(vhInt("payload-bytes", 0, 5), 6)]} // concrete: the map carries base64 text of the digests
	bmm := &vhMember{name: appxBlockMap, data: []byte("<BlockMap/>")}
	ct := &vhMember{name: appxContentTypes, data: []byte("<Types/>")}
	blocks := func(d []byte) []block {
		var out []block
		for off := 0; off < len(d); off += 2 {
			end := off + 2
			if end > len(d) {
				end = len(d)
			}
			s := sha256.Sum256(d[off:end])
			out = append(out, block{Hash: base64.StdEncoding.EncodeToString(s[:])})
		}
		return out
	}
	bm := blockMap{HashMethod: hashAlgs[crypto.SHA256], File: []blockFile{
		{Name: appxManifest, Size: uint64(len(m0.data)), Block: blocks(m0.data)},
		{Name: "d\\a.dll", Size: uint64(len(m1.data)), Block: blocks(m1.data)},
	}}
	vhStub("encoding/xml.Unmarshal", func(data []byte, v interface{}) error {
		*(v.(*blockMap)) = bm
		return nil
	})
	open := func(ms []*vhMember) (*zip.Reader, zipFiles) {
		file, _ := vhZip(ms)
		zr, err := zip.NewReader(bytes.NewReader(file), int64(len(file)))
		vhAssert(err == nil, "zip-opens")
		files := make(zipFiles)
		for _, f := range zr.File {
			files[f.Name] = f
		}
		return zr, files
	}
	zr, files := open([]*vhMember{m0, m1, bmm, ct})
	vhAssert(verifyBlockMap(zr, files, false) == nil, "package-as-signed-verifies")
	switch vhConcretize(vhInt("alteration", 0, 3), 4) {
	case 0:
		if len(m1.data) == 0 {
			return
		}
		t := append([]byte{}, m1.data...)
		p := vhConcretize(vhInt("changed-byte", 0, len(t)-1), 8)
		t[p] = vhU8("new-value")
		vhAssume(t[p] != m1.data[p])
		zr, files = open([]*vhMember{m0, {name: m1.name, data: t}, bmm, ct})
		vhAssert(verifyBlockMap(zr, files, false) != nil, "changed-payload-byte-rejected")
	case 1:
		zr, files = open([]*vhMember{m0, m1, {name: "evil.dll", data: []byte("e")}, bmm, ct})
		vhAssert(verifyBlockMap(zr, files, false) != nil, "unlisted-member-rejected")
	case 2:
		zr, files = open([]*vhMember{m1, m0, bmm, ct})
		vhAssert(verifyBlockMap(zr, files, false) != nil, "reordered-members-rejected")
	case 3:
		zr, files = open([]*vhMember{m0, {name: m1.name, data: append(append([]byte{}, m1.data...), 0)}, bmm, ct})
		vhAssert(verifyBlockMap(zr, files, false) != nil, "grown-member-rejected")
	}
	vhReach("checked") // vh:require checked
}

// H02.appx-files: the signature's per-file digests (AXBM block map, AXCT
// content types, AXCI code integrity). verifyFile against a package read by
// the standard zip reader: a file with its digest verifies; ONE changed byte
// (symbolic position and value) is rejected; a digest without its file and a
// file without its digest are both rejected; neither present is fine (the
// code-integrity catalog is optional).
func VH_C02_AppxSignedFiles() {
	vhMaxLen(4096)
	vhLoopBound(400)
	body := []byte("<BlockMap/>")
	sum := sha256.Sum256(body)
	sig := &AppxSignature{Hash: crypto.SHA256, HashValues: map[string][]byte{"AXBM": sum[:]}}
	open := func(ms []*vhMember) zipFiles {
		file, _ := vhZip(ms)
		zr, err := zip.NewReader(bytes.NewReader(file), int64(len(file)))
		vhAssert(err == nil, "zip-opens")
		files := make(zipFiles)
		for _, f := range zr.File {
			files[f.Name] = f
		}
		return files
	}
	other := &vhMember{name: "a.dll", data: []byte("x")}
	vhAssert(verifyFile(open([]*vhMember{other, {name: appxBlockMap, data: body}}), sig, "AXBM", appxBlockMap) == nil, "signed-file-verifies")
	vhAssert(verifyFile(open([]*vhMember{other}), sig, "AXCI", appxCodeIntegrity) == nil, "optional-file-absent-on-both-sides-is-fine")
	switch vhConcretize(vhInt("alteration", 0, 2), 3) {
	case 0:
		t := append([]byte{}, body...)
		p := vhConcretize(vhInt("changed-byte", 0, len(t)-1), 16)
		t[p] = vhU8("new-value")
		vhAssume(t[p] != body[p])
		vhAssert(verifyFile(open([]*vhMember{other, {name: appxBlockMap, data: t}}), sig, "AXBM", appxBlockMap) != nil, "changed-byte-rejected")
	case 1:
		vhAssert(verifyFile(open([]*vhMember{other}), sig, "AXBM", appxBlockMap) != nil, "signed-file-removed-rejected")
	case 2:
		vhAssert(verifyFile(open([]*vhMember{other, {name: appxContentTypes, data: []byte("<Types/>")}}), sig, "AXCT", appxContentTypes) != nil, "file-without-a-signed-digest-rejected")
	}
	vhReach("checked") // vh:require checked
}
