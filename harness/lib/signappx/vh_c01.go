//go:build verif

package signappx

import (
	"archive/tar"
	"bytes"
	"crypto"
	"crypto/sha256"

	"github.com/sassoftware/relic/v8/lib/zipslicer"
)

func vhAppxTar(file []byte, dirLoc int) *bytes.Buffer {
	var out bytes.Buffer
	tw := tar.NewWriter(&out)
	tw.WriteHeader(&tar.Header{Name: zipslicer.TarMemberCD, Mode: 0644, Size: int64(len(file) - dirLoc)})
	tw.Write(file[dirLoc:])
	tw.WriteHeader(&tar.Header{Name: zipslicer.TarMemberZip, Mode: 0644, Size: int64(len(file))})
	tw.Write(file)
	tw.Close()
	return &out
}

// H01.appx-digest / H08.appx-digest: what the server computes from an
// uploaded APPX before signing (DigestAppxTar), with the four XML decoders
// stubbed. For a package with one or two payload members of symbolic bytes
// followed by the files signing regenerates (manifest, block map, content
// types and - when already signed - the old signature): the running AXPC
// digest is the SHA-256 of exactly the bytes in front of the first
// regenerated file (what verifyMeta later recomputes), the patch replaces
// everything from there to the end of the file (so an old signature is
// dropped), only the payload members are carried over, and a payload member
// placed AFTER a regenerated file, or a package without a manifest, is
// refused.
func VH_C01_AppxDigestStream() {
	// vh:stubbed
	vhMaxLen(8192)
	vhLoopBound(1500)
	vhStub("github.com/sassoftware/relic/v8/lib/signappx.parseManifest", func(blob []byte) (*appxPackage, error) { return &appxPackage{}, nil })
	vhStub("(*github.com/sassoftware/relic/v8/lib/signappx.blockMap).CopySizes", func(b *blockMap, blob []byte) error { return nil })
	vhStub("(*github.com/sassoftware/relic/v8/lib/signappx.ContentTypes).Parse", func(c *ContentTypes, blob []byte) error { return nil })
	payload := []*vhMember{{name: "a.txt", data: vhBytes("payload-a", 2)}}
	if vhBool("two-payload-members") {
		payload = append(payload, &vhMember{name: "d/b.bin", data: vhBytes("payload-b", 1)})
	}
	regen := []*vhMember{{name: appxManifest, data: []byte("<m/>")}, {name: appxBlockMap, data: []byte("<b/>")}, {name: appxContentTypes, data: []byte("<t/>")}}
	if vhBool("already-signed") {
		regen = append(regen, &vhMember{name: appxSignature, data: []byte("PKCXold")})
	}
	shape := vhConcretize(vhInt("shape", 0, 2), 3) // 0 well-formed, 1 payload after a regenerated file, 2 no manifest
	ms := append(append([]*vhMember{}, payload...), regen...)
	switch shape {
	case 1:
		ms = append(ms, &vhMember{name: "late.txt", data: []byte("x")})
	case 2:
		ms = append(append([]*vhMember{}, payload...), regen[1:]...)
	}
	file, cd := vhZip(ms)
	d, err := DigestAppxTar(vhAppxTar(file, cd), crypto.SHA256, false)
	if shape != 0 {
		vhAssert(err != nil, "malformed-member-order-or-missing-manifest-refused")
		vhReach("refused") // vh:require refused
		return
	}
	vhAssert(err == nil && d != nil, "package-digests")
	first := regen[0].off
	vhAssert(d.patchStart == int64(first) && d.patchLen == int64(len(file)-first), "patch-replaces-everything-from-the-first-regenerated-file")
	want := sha256.Sum256(file[:first])
	vhAssert(bytes.Equal(d.axpc.Sum(nil), want[:]), "axpc-is-the-digest-of-the-bytes-in-front")
	vhAssert(len(d.outz.File) == len(payload), "only-payload-members-carried-over")
	for i, f := range d.outz.File {
		vhAssert(f.Name == payload[i].name && int(f.Offset) == payload[i].off, "payload-members-keep-name-and-offset")
	}
	vhAssert(len(d.blockMap.File) == len(payload), "block-map-lists-the-payload-members")
	vhReach("digested") // vh:require digested
}

func VH_C08_AppxDigestDropsOldSignature() { VH_C01_AppxDigestStream() }
