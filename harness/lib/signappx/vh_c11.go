//go:build verif

package signappx

// H11.appx-sizes: re-signing copies the compressed block sizes from the
// package's own (untrusted) AppxBlockMap.xml. encoding/xml is outside this
// encoding, so xml.Unmarshal is a stub that yields what the decoder can yield
// for some document: 0..2 files with names from a small set and 0..3 blocks
// each with arbitrary sizes. CopySizes against a freshly computed map (0..2
// files, 0..2 blocks) returns an error or nil - no panic when the old map
// has more files, other names or more blocks per file than the new one.
func VH_C11_AppxCopySizes() {
	// vh:stubbed
	names := []string{"a.dll", "b\\c.txt", "AppxManifest.xml"}
	mk := func(tag string, maxBlocks int) []blockFile {
		var out []blockFile
		n := vhConcretize(vhInt(tag+"-files", 0, 2), 3)
		for i := 0; i < n; i++ {
			f := blockFile{Name: names[vhConcretize(vhInt(tag+"-name", 0, 2), 3)]}
			nb := vhConcretize(vhInt(tag+"-blocks", 0, maxBlocks), 4)
			for j := 0; j < nb; j++ {
				f.Block = append(f.Block, block{Hash: "h", Size: vhU64(tag + "-size")})
			}
			out = append(out, f)
		}
		return out
	}
	old := mk("old", 3)
	vhStub("encoding/xml.Unmarshal", func(data []byte, v interface{}) error {
		v.(*blockMap).File = old
		return nil
	})
	bm := &blockMap{File: mk("new", 2), unverifiedSizes: true}
	err := bm.CopySizes([]byte("<BlockMap/>"))
	if err == nil {
		vhReach("copied") // vh:require copied
	} else {
		vhReach("rejected") // vh:require rejected
	}
}

// H11.appx-ctypes: every member name of an uploaded APPX / VSIX goes through
// the content-type table ([Content_Types].xml): Add when an APPX is signed,
// Find when a VSIX signature is written. For every name of 1..4 characters
// over letters, dot and slash (names without an extension, with a leading or
// trailing dot, in directories with dots): neither call panics, and a name
// that was added is found again with a content type.
func VH_C11_AppxContentTypes() {
	const alphabet = "ab./"
	raw := vhBytes("member-name", vhConcretize(vhInt("name-len", 1, 4), 5))
	name := make([]byte, len(raw))
	for i, c := range raw {
		name[i] = alphabet[int(c)%len(alphabet)]
	}
	c := NewContentTypes()
	c.ByExt["b"] = "application/x-b"
	before := c.Find(string(name))
	_ = before
	c.Add(string(name))
	vhAssert(c.Find(string(name)) != "", "an-added-part-has-a-content-type")
	vhReach("typed") // vh:require typed
}
