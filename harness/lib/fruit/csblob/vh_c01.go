//go:build verif

package csblob

import (
	"bytes"
	"crypto"
	"crypto/sha256"
	"crypto/x509"
	"crypto/x509/pkix"
	"strconv"
	"strings"
)

func vhIdent(tag string, n int) string {
	const alphabet = "ab.-Z9"
	b := vhBytes(tag, n)
	out := make([]byte, n)
	for i, c := range b {
		out[i] = alphabet[int(c)%len(alphabet)]
	}
	return string(out)
}

func vhSum(b []byte) []byte { d := sha256.Sum256(b); return d[:] }

// H01.csdir: what the Mach-O/DMG signer writes is what the verifier reads.
// newCodeDirectory + newSuperItem + marshalSuperBlob build an embedded
// signature from arbitrary parameters (identity and team strings of 0..3
// symbolic characters (three length pairs), symbolic flags and exec-segment fields, a symbolic
// 64-bit code limit on both sides of the 2^31 switch to the 64-bit field, 0..2
// symbolic code slots, every present/absent combination of the bound
// components, 5- and 7-entry special tables); parseSignature then returns
// the same identity, team, flags, limits, code slots and per-component
// digests, and Verify reaches the CMS stage exactly when the components
// handed to it are the signed ones (one changed byte in the Info.plist,
// resources or DMG header, a changed entitlement byte, and an entitlement or
// requirements blob REMOVED from the signature are each named as mismatch).
func VH_C01_CodeDirectoryRoundTrip() {
	p := &SignatureParams{HashFunc: crypto.SHA256}
	names := vhConcretize(vhInt("names", 0, 2), 3) // identity/team lengths 0/0, 1/2, 3/0
	p.SigningIdentity = vhIdent("ident", []int{0, 1, 3}[names])
	p.TeamIdentifier = vhIdent("team", []int{0, 2, 0}[names])
	p.Flags = SignatureFlags(vhU32("flags"))
	if vhBool("exec-segment") {
		p.ExecSegmentBase = int64(vhU32("xbase"))
		p.ExecSegmentLimit = int64(vhU32("xlimit"))
		p.ExecSegmentFlags = int64(vhU8("xflags"))
	}
	limit := int64(vhInt("code-limit", 0, 1<<34))
	var mask int
	if vhTier() == 0 { // quick: each component alone, none, all, and two mixes
		mask = []int{0, 1, 2, 4, 8, 16, 31, 21}[vhConcretize(vhInt("components-idx", 0, 7), 8)]
	} else {
		mask = vhConcretize(vhInt("components", 0, 31), 32)
	}
	info, res, rep := []byte("<plist>i</plist>"), []byte("<plist>r</plist>"), []byte("koly-header")
	reqBody, ent := []byte{0, 0, 0, 0}, []byte("<ent/>")
	var reqBlob, entBlob []byte
	var items []superItem
	if mask&1 != 0 {
		i := newSuperItem(csRequirements, reqBody)
		reqBlob = i.data
		items = append(items, i)
	}
	if mask&2 != 0 {
		i := newSuperItem(csEntitlement, ent)
		entBlob = i.data
		items = append(items, i)
	}
	if mask&4 == 0 {
		info = nil
	}
	if mask&8 == 0 {
		res = nil
	}
	if mask&16 == 0 {
		rep = nil
	}
	specials := [][]byte{nil, rep, entBlob, nil, res, reqBlob, info}
	for specials[0] == nil && len(specials) > 5 {
		specials = specials[1:]
	}
	nslots := vhConcretize(vhInt("code-slots", 0, 2), 3)
	slots := vhBytes("slots", 32*nslots)
	for i := 0; i < nslots; i++ {
		slots[32*i] |= 1 // an all-zero slot reads back as absent
	}
	result, err := newCodeDirectory(codeDirParams{SignatureParams: p, Specials: specials, CodeSlots: slots,
		CodeSlotCount: uint32(nslots), CodeLimit: limit, HashFunc: crypto.SHA256, SinglePage: rep != nil})
	vhAssert(err == nil, "directory-built")
	all := append([]superItem{{magic: csCodeDirectory, itype: cdCodeDirectorySlot, data: result.Raw}}, items...)
	all = append(all, newSuperItem(csBlobWrapper, nil))
	blob := marshalSuperBlob(csEmbeddedSignature, all)

	sig, err := parseSignature(blob)
	vhAssert(err == nil && sig != nil && len(sig.Directories) == 1, "own-signature-parses")
	dir := sig.Directories[0]
	vhAssert(bytes.Equal(dir.Raw, result.Raw), "directory-bytes-kept")
	vhAssert(dir.SigningIdentity == p.SigningIdentity, "identity-round-trips")
	vhAssert(dir.TeamIdentifier == p.TeamIdentifier, "team-round-trips")
	vhAssert(dir.Header.Flags == p.Flags, "flags-round-trip")
	vhAssert(dir.Header.ExecSegmentBase == p.ExecSegmentBase && dir.Header.ExecSegmentLimit == p.ExecSegmentLimit &&
		dir.Header.ExecSegmentFlags == p.ExecSegmentFlags, "exec-segment-round-trips")
	vhAssert(sig.CodeSize() == limit, "code-limit-round-trips-across-the-64-bit-switch")
	vhAssert(dir.HashFunc == crypto.SHA256 && len(dir.CodeHashes) == nslots, "slot-count-round-trips")
	for i := 0; i < nslots; i++ {
		vhAssert(bytes.Equal(dir.CodeHashes[i], slots[32*i:32*i+32]), "code-slot-round-trips")
	}
	want := func(b []byte) []byte {
		if b == nil {
			return nil
		}
		return vhSum(b)
	}
	vhAssert(bytes.Equal(dir.ManifestHash, want(info)) && (dir.ManifestHash == nil) == (info == nil), "info-plist-slot")
	vhAssert(bytes.Equal(dir.ResourcesHash, want(res)) && (dir.ResourcesHash == nil) == (res == nil), "resources-slot")
	vhAssert(bytes.Equal(dir.RequirementsHash, want(reqBlob)) && (dir.RequirementsHash == nil) == (reqBlob == nil), "requirements-slot")
	vhAssert(bytes.Equal(dir.EntitlementsHash, want(entBlob)) && (dir.EntitlementsHash == nil) == (entBlob == nil), "entitlements-slot")
	vhAssert(bytes.Equal(dir.RepSpecificHash, want(rep)) && (dir.RepSpecificHash == nil) == (rep == nil), "rep-specific-slot")
	vhAssert(dir.EntitlementsDERHash == nil, "no-der-entitlement-slot")
	vhAssert(bytes.Equal(sig.RawRequirements, reqBlob) && bytes.Equal(sig.Entitlement, entBlob), "embedded-blobs-round-trip")

	// verifier: all hash checks pass, it stops only at the (absent) CMS
	_, err = Verify(blob, VerifyParams{InfoPlist: info, Resources: res, RepSpecific: rep})
	vhAssert(err != nil && strings.HasPrefix(err.Error(), "signature wrapper not found"), "component-hashes-accepted")
	// one component altered
	which := vhConcretize(vhInt("altered", 0, 5), 6)
	vp := VerifyParams{InfoPlist: info, Resources: res, RepSpecific: rep}
	var label string
	// embedded components: dropped from the signature, or one byte changed
	rebuild := func(drop csMagic, flip bool) []byte {
		var kept []superItem
		for _, it := range all {
			if it.magic == drop && !flip {
				continue
			}
			if it.magic == drop && flip {
				d := append([]byte{}, it.data...)
				d[len(d)-1] ^= vhU8("flip") | 1
				it.data = d
			}
			kept = append(kept, it)
		}
		return marshalSuperBlob(csEmbeddedSignature, kept)
	}
	switch {
	case which == 3 && entBlob != nil:
		blob, label = rebuild(csEntitlement, false), "entitlements"
	case which == 4 && reqBlob != nil:
		blob, label = rebuild(csRequirements, false), "requirements"
	case which == 5 && entBlob != nil:
		blob, label = rebuild(csEntitlement, true), "entitlements"
	case which == 0 && info != nil:
		vp.InfoPlist, label = append([]byte("x"), info[1:]...), "info_plist"
	case which == 1 && res != nil:
		vp.Resources, label = append([]byte("x"), res[1:]...), "resources"
	case which == 2 && rep != nil:
		vp.RepSpecific, label = append([]byte("x"), rep[1:]...), "rep_specific"
	}
	if label != "" {
		_, err = Verify(blob, vp)
		vhAssert(err != nil, "altered-component-rejected")
		vhAssert(strings.HasPrefix(err.Error(), label+": digest mismatch"), "altered-component-named")
		vhReach("tampered") // vh:require tampered
	}
	vhReach("round-trip") // vh:require round-trip
}

func VH_C02_CodeDirectoryComponentsBound() { VH_C01_CodeDirectoryRoundTrip() }

// reference: DER object identifier contents (X.690 8.19): base-128, most
// significant group first, continuation bit on all but the last octet
func vhDerOID(arcs []int) []byte {
	var out []byte
	put := func(v int) {
		var groups []byte
		groups = append(groups, byte(v&0x7f))
		for v >>= 7; v > 0; v >>= 7 {
			groups = append(groups, byte(v&0x7f)|0x80)
		}
		for i := len(groups) - 1; i >= 0; i-- {
			out = append(out, groups[i])
		}
	}
	put(arcs[0]*40 + arcs[1])
	for _, a := range arcs[2:] {
		put(a)
	}
	return out
}

// H05.csreq.oid: the designated requirement names the intermediate
// certificate's endorsement extension by OID. For EVERY pair of trailing arcs
// 0 <= a, b < 2^31 (two symbolic values) after 1.2.840 the operand putOID
// writes is the length word, the X.690 encoding of the identifier and zero
// padding to a 4-byte boundary.
func VH_C05_RequirementOID() {
	a, b := vhInt("arc-a", 0, 1<<31-1), vhInt("arc-b", 0, 1<<31-1)
	oid := []int{1, 2, 840, a, b}
	rb := new(reqBuilder)
	rb.putOID(oid)
	got := rb.out.Bytes()
	want := vhDerOID(oid)
	vhAssert(len(got) >= 4 && int(got[0])<<24|int(got[1])<<16|int(got[2])<<8|int(got[3]) == len(want), "length-word-is-the-encoded-length")
	vhAssert(len(got)%4 == 0 && len(got)-4 >= len(want) && len(got)-4 < len(want)+4, "padded-to-a-word")
	vhAssert(bytes.Equal(got[4:4+len(want)], want), "x690-encoding")
	for _, p := range got[4+len(want):] {
		vhAssert(p == 0, "zero-padding")
	}
	vhReach("encoded") // vh:require encoded
}

// H01.csreq: the requirement the signer derives from the certificate chain
// (DefaultRequirement) is read back by the verifier's own dumper as the
// expression it stands for: identifier, Apple generic anchor, leaf common
// name, and - when the issuing intermediate carries an endorsement - that
// extension's OID in slot 1. Identifier and common name are symbolic text of
// 1..2 characters (letters, digit, dot, space: bare, quoted and dotted forms),
// the endorsement arc is taken on both sides of the one/two/three-octet
// boundaries.
func VH_C01_DefaultRequirementReadsBack() {
	const alphabet = "aZ9. "
	text := func(tag string, n int) string {
		raw := vhBytes(tag, n)
		out := make([]byte, n)
		for i, c := range raw {
			out[i] = alphabet[int(c)%len(alphabet)]
		}
		return string(out)
	}
	ident := text("ident", vhConcretize(vhInt("ident-len", 1, 2), 3))
	cn := text("cn", 1)
	arc := []int{-1, 6, 127, 128, 16383, 16384}[vhConcretize(vhInt("endorsement", 0, 5), 6)]
	leaf := &x509.Certificate{RawIssuer: []byte("issuer")}
	leaf.Subject.CommonName = cn
	other := &x509.Certificate{RawSubject: []byte("someone else")}
	inter := &x509.Certificate{RawSubject: []byte("issuer")}
	if arc >= 0 {
		inter.Extensions = []pkix.Extension{{Id: []int{2, 5, 29, 19}}, {Id: append(append([]int{}, Intermediate...), arc)}}
	}
	blob, err := DefaultRequirement(ident, []*x509.Certificate{leaf, other, inter})
	vhAssert(err == nil, "requirement-built")
	reqs, err := (&SigBlob{RawRequirements: blob}).Requirements()
	vhAssert(err == nil && len(reqs) == 1 && reqs[DesignatedRequirement] != nil, "one-designated-requirement")
	got, err := reqs[DesignatedRequirement].Format()
	vhAssert(err == nil, "own-requirement-formats")
	quote := func(s string, dotOK bool) string {
		simple := true
		for i := 0; i < len(s); i++ {
			c := s[i]
			switch {
			case c == '.' && dotOK:
			case c >= '0' && c <= '9':
				if i == 0 {
					simple = false
				}
			case c >= 'a' && c <= 'z' || c >= 'A' && c <= 'Z':
			default:
				simple = false
			}
		}
		if simple {
			return s
		}
		return "\"" + s + "\""
	}
	want := "identifier " + quote(ident, false) + " and anchor apple generic and certificate leaf[subject.CN] = " + quote(cn, false)
	if arc >= 0 {
		want += " and certificate 1[field.1.2.840.113635.100.6.2." + strconv.Itoa(arc) + "] /* exists */"
	}
	vhAssert(got == want, "reads-back-as-the-intended-expression")
	vhReach("read-back") // vh:require read-back
}
