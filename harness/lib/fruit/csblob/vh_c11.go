//go:build verif

package csblob

import (
	"bytes"
	"crypto"
	"errors"
	_ "crypto/sha1"
	"crypto/sha256"
	_ "crypto/sha512"
	"io"

	ber "github.com/go-asn1-ber/asn1-ber"
)

// H11.csblob-a: parseSuper on an arbitrary blob (an embedded code signature
// read from a Mach-O / DMG being verified).
func VH_C11_CSSuperBlob() {
	lens := []int{0, 11, 12, 19, 20, 27, 28, 36}
	if vhTier() > 0 {
		lens = append(lens, 13, 21, 29, 44, 52)
	}
	n := lens[vhConcretize(vhInt("lenidx", 0, len(lens)-1), 32)]
	vhMaxLen(n + 2)
	b := vhBytes("blob", n)
	vhAllocLimit(4<<20 + 16*len(b))
	vhLoopBound(len(b) + 8)
	_, items, err := parseSuper(b)
	if err == nil {
		vhReach("accepted") // vh:require accepted
		for _, it := range items {
			vhAssert(len(it.data) <= len(b), "item-inside-the-blob")
		}
	} else {
		vhReach("rejected") // vh:require rejected
	}
}

// H11.csblob-b: parseCodeDirectory on an arbitrary blob: 88-byte header
// followed by a few bytes of identifier / hash slots. Every header field is
// symbolic; to keep the two independent string scans from multiplying paths
// the identifier / team offsets are restricted to {absent, right after the
// header}; the thorough tier adds lengths and allows two slots.
func VH_C11_CSCodeDirectory() {
	lens := []int{0, 43, 87, 88}
	if vhTier() > 0 {
		lens = append(lens, 44, 89, 92)
	}
	n := lens[vhConcretize(vhInt("lenidx", 0, len(lens)-1), 32)]
	vhMaxLen(n + 2)
	b := vhBytes("blob", n)
	if n >= 88 {
		ident := uint32(b[20])<<24 | uint32(b[21])<<16 | uint32(b[22])<<8 | uint32(b[23])
		team := uint32(b[48])<<24 | uint32(b[49])<<16 | uint32(b[50])<<8 | uint32(b[51])
		// (an arbitrary identifier offset multiplies the string scans into
		// more paths than finish in 15 minutes, also in the thorough tier)
		vhAssume(ident == 0 || ident == 88)
		vhAssume(team == 0 || team == 89)
		// slot counts: none, one, or absurdly many (each accepted slot costs
		// ~hash-size paths in the all-zero scan; mid-range counts are left
		// to the thorough tier)
		special := uint32(b[24])<<24 | uint32(b[25])<<16 | uint32(b[26])<<8 | uint32(b[27])
		code := uint32(b[28])<<24 | uint32(b[29])<<16 | uint32(b[30])<<8 | uint32(b[31])
		lim := uint32(1)
		if vhTier() > 0 {
			lim = 2
		}
		hashOff := uint32(b[16])<<24 | uint32(b[17])<<16 | uint32(b[18])<<8 | uint32(b[19])
		{
			// slot table position: a handful of representative offsets, or anything when no slot is read
			noSlots := (special == 0 && code == 0) || special >= 1<<16 || code >= 1<<16
			vhAssume(noSlots || hashOff == 20 || hashOff == 88 || hashOff >= 1<<16)
			// when a slot is actually read: SHA-1 sized slots, no identifier strings
			vhAssume(noSlots || (b[36] == 20 && ident == 0 && team == 0))
		}
		vhAssume(special <= lim || special >= 1<<16)
		vhAssume(code <= lim || code >= 1<<16)
	}
	vhAllocLimit(4<<20 + 16*len(b))
	vhLoopBound(len(b) + 8)
	dir, err := parseCodeDirectory(b, 0)
	if err == nil {
		vhReach("accepted") // vh:require accepted
		vhAssert(dir != nil, "result-non-nil")
	} else {
		vhReach("rejected") // vh:require rejected
	}
}

// H11.csblob-c: the requirements blob of an embedded code signature (shown by
// verify, read again when re-signing): Requirements() and Format() on
// arbitrary bytes return an error or text; no panic on an item shorter than
// its own header, no unbounded recursion.
func VH_C11_CSRequirements() {
	lens := []int{0, 12, 20, 23, 24, 28, 32}
	n := lens[vhConcretize(vhInt("lenidx", 0, len(lens)-1), 16)]
	vhMaxLen(n + 2)
	b := vhBytes("requirements", n)
	if n >= 12 {
		// requirements magic and at most one index entry
		copy(b, []byte{0xfa, 0xde, 0x0c, 0x01})
		vhAssume(b[8] == 0 && b[9] == 0 && b[10] == 0 && b[11] < 2)
	}
	vhAllocLimit(4<<20 + 16*len(b))
	vhLoopBound(len(b) + 16)
	sb := &SigBlob{RawRequirements: b}
	reqs, err := sb.Requirements()
	if err != nil {
		vhReach("rejected") // vh:require rejected
		return
	}
	vhReach("parsed")
	for _, r := range reqs {
		r.Format()
	}
}

// H02.pages / H01.pages / H09.pages: code pages of a Mach-O are hashed page
// by page when signing (hashPages) and checked page by page when verifying
// (VerifyPages); page size scaled from 4 KiB to 4 bytes. For every code
// length over 0..2 pages plus a partial one and every content: the slots the
// signer computes are the per-page digests written out here, independent of
// how the stream is split into reads; the verifier accepts exactly that code
// and rejects it with one byte changed (symbolic position and value), with a
// byte missing, and with a slot table that is shorter or longer than the code (pages past
// the table would otherwise go unchecked).
func VH_C02_CodePagesSignedAndVerified() {
	vhAssert(defaultPageSizeLog2 == 2, "page-constant-scaled")
	n := vhConcretize(vhInt("code-bytes", 1, 9), 10)
	code := vhBytes("code", n)
	chunk := vhConcretize(vhInt("read-size", 1, 3), 4)
	slots, count, limit, err := hashPages([]crypto.Hash{crypto.SHA256}, &vhChunked{r: bytes.NewReader(code), n: chunk}, false)
	vhAssert(err == nil && limit == int64(n) && int(count) == (n+3)/4, "every-page-counted")
	var want []byte
	var perPage [][]byte
	for off := 0; off < n; off += 4 {
		end := off + 4
		if end > n {
			end = n
		}
		d := sha256.Sum256(code[off:end])
		want = append(want, d[:]...)
		perPage = append(perPage, d[:])
	}
	vhAssert(bytes.Equal(slots[0], want), "slots-are-the-per-page-digests-whatever-the-read-sizes")
	dir := &CodeDirectory{HashFunc: crypto.SHA256, CodeHashes: perPage}
	dir.Header.PageSizeLog2 = 2
	dir.Header.CodeLimit = uint32(n)
	dir.Header.HashType = HashSHA256
	sb := &SigBlob{Directories: []*CodeDirectory{dir}}
	vhAssert(sb.VerifyPages(bytes.NewReader(code)) == nil, "signed-code-verifies")
	tampered := append([]byte{}, code...)
	pos := vhConcretize(vhInt("changed-byte", 0, n-1), 10)
	tampered[pos] = vhU8("new-value")
	vhAssume(tampered[pos] != code[pos])
	vhAssert(sb.VerifyPages(bytes.NewReader(tampered)) != nil, "changed-code-byte-rejected")
	vhAssert(sb.VerifyPages(bytes.NewReader(code[:n-1])) != nil, "truncated-code-rejected")
	if len(perPage) > 1 {
		short := &SigBlob{Directories: []*CodeDirectory{{HashFunc: crypto.SHA256, CodeHashes: perPage[:len(perPage)-1], Header: dir.Header}}}
		vhAssert(short.VerifyPages(bytes.NewReader(code)) != nil, "slot-table-shorter-than-the-code-rejected")
		long := &SigBlob{Directories: []*CodeDirectory{{HashFunc: crypto.SHA256, CodeHashes: append(append([][]byte{}, perPage...), perPage[0]), Header: dir.Header}}}
		vhAssert(long.VerifyPages(bytes.NewReader(code)) != nil, "slot-table-longer-than-the-code-rejected")
	}
	vhReach("verified") // vh:require verified
}

type vhChunked struct {
	r io.Reader
	n int
}

func (c *vhChunked) Read(p []byte) (int, error) {
	if len(p) > c.n {
		p = p[:c.n]
	}
	return c.r.Read(p)
}

// H02.pages-dmg: the single-slot mode used for disk images (page size 0: one
// digest over the whole image up to the trailer). hashPages in that mode
// yields the digest of the whole stream for every read split; VerifyPages
// accepts exactly that stream, and rejects one changed byte (symbolic
// position and value), a missing or an extra byte, and a directory with any
// other number of slots.
func VH_C02_CodePagesSingleSlot() {
	n := vhConcretize(vhInt("image-bytes", 1, 6), 7)
	code := vhBytes("image", n)
	chunk := vhConcretize(vhInt("read-size", 1, 3), 4)
	slots, count, limit, err := hashPages([]crypto.Hash{crypto.SHA256}, &vhChunked{r: bytes.NewReader(code), n: chunk}, true)
	whole := sha256.Sum256(code)
	vhAssert(err == nil && count == 1 && limit == int64(n) && bytes.Equal(slots[0], whole[:]), "one-slot-over-the-whole-image")
	dir := &CodeDirectory{HashFunc: crypto.SHA256, CodeHashes: [][]byte{whole[:]}}
	dir.Header.CodeLimit = uint32(n)
	dir.Header.HashType = HashSHA256
	sb := &SigBlob{Directories: []*CodeDirectory{dir}}
	vhAssert(sb.VerifyPages(bytes.NewReader(code)) == nil, "signed-image-verifies")
	tampered := append([]byte{}, code...)
	pos := vhConcretize(vhInt("changed-byte", 0, n-1), 8)
	tampered[pos] = vhU8("new-value")
	vhAssume(tampered[pos] != code[pos])
	vhAssert(sb.VerifyPages(bytes.NewReader(tampered)) != nil, "changed-image-byte-rejected")
	vhAssert(sb.VerifyPages(bytes.NewReader(code[:n-1])) != nil, "truncated-image-rejected")
	vhAssert(sb.VerifyPages(bytes.NewReader(append(append([]byte{}, code...), 0))) != nil, "grown-image-rejected")
	two := &SigBlob{Directories: []*CodeDirectory{{HashFunc: crypto.SHA256, CodeHashes: [][]byte{whole[:], whole[:]}, Header: dir.Header}}}
	vhAssert(two.VerifyPages(bytes.NewReader(code)) != nil, "second-slot-rejected")
	vhReach("verified") // vh:require verified
}

func VH_C09_CodePagesIndependentOfReads() { VH_C02_CodePagesSignedAndVerified() }
func VH_C01_CodePagesVerify()             { VH_C02_CodePagesSignedAndVerified() }

// H11.csblob-r: one requirement expression (version word + opcode stream) as
// `relic verify` prints it for an untrusted Mach-O: Format() on a version-1
// requirement followed by 0..11 arbitrary bytes (an operand cut inside its
// data or inside its padding) returns text or an error -
// no panic for any opcode, operand length word (incl. lengths whose 4-byte
// alignment wraps 32 bits) or truncation point. Date matches (five match
// codes that format a calendar date) are assumed away: calendar arithmetic
// on a symbolic instant is outside this encoding.
func VH_C11_CSRequirementFormat() {
	var n int
	if vhTier() > 0 {
		n = vhConcretize(vhInt("len", 0, 11), 12)
	} else {
		n = []int{0, 3, 4, 7, 8, 9, 10, 11}[vhConcretize(vhInt("lenidx", 0, 7), 8)]
	}
	vhRequirementFormat(vhBytes("expr", n))
}

// H11.csblob-r2: longer expressions (3 and 4 words after the version): every
// 32-bit word is a small number (opcode, slot, match code or operand length
// 0..63), the text "aaaa", or within 16 of 2^32 (lengths whose rounding
// wraps) - so nested and/or/not, operands with operands and truncation inside
// an operand are reached without enumerating operand text.
func VH_C11_CSRequirementFormatWords() {
	words := 3
	if vhTier() > 0 {
		words = vhConcretize(vhInt("words", 3, 4), 5)
	}
	b := vhBytes("expr", 4*words)
	for i := 0; i < words; i++ {
		w := uint32(b[4*i])<<24 | uint32(b[4*i+1])<<16 | uint32(b[4*i+2])<<8 | uint32(b[4*i+3])
		vhAssume(w < 64 || w == 0x61616161 || w >= 0xfffffff0)
	}
	vhRequirementFormat(b)
}

func vhRequirementFormat(expr []byte) {
	b := append([]byte{0, 0, 0, 1}, expr...)
	vhMaxLen(256) // strconv's digit-pair table is indexed by the value
	vhLoopBound(4*len(b) + 16)
	vhAllocLimit(4<<20 + 16*len(b))
	r := &Requirement{Raw: b}
	_, err := r.Format()
	if err == nil {
		vhReach("formatted") // vh:require formatted
	} else {
		vhReach("rejected") // vh:require rejected
	}
}

// H11.csblob-v: csblob.Verify (Mach-O and DMG verification) on a signature
// super blob of arbitrary composition: 0..2 items whose slot types are drawn
// from code directory / alternate directory / requirements / entitlements /
// CMS wrapper / ticket / unknown, with 0..9 arbitrary payload bytes each (so
// items shorter than their own header occur). An error or a result - no
// panic when there is no code directory at all, when the CMS wrapper is
// empty, when an unknown item is shorter than the 8 bytes the report prints.
func VH_C11_CSVerifyBlob() {
	// vh:stubbed
	// BER re-encoding of a CMS payload is outside this encoding: the decoder refuses
	vhStub("github.com/go-asn1-ber/asn1-ber.DecodePacketErr", func(data []byte) (*ber.Packet, error) {
		return nil, errors.New("ber: not decoded")
	})
	types := []uint32{cdCodeDirectorySlot, cdAlternateCodeDirectorySlots, cdRequirementsSlot, cdEntitlementSlot, cdSignatureSlot, cdTicketSlot, 0x7777}
	n := vhConcretize(vhInt("items", 0, 2), 3)
	var items []superItem
	for i := 0; i < n; i++ {
		t := types[vhConcretize(vhInt("slot-type", 0, len(types)-1), 8)]
		var ln int
		if vhTier() > 0 {
			ln = vhConcretize(vhInt("item-bytes", 0, 9), 10)
		} else {
			ln = []int{0, 7, 8, 9}[vhConcretize(vhInt("item-bytes-idx", 0, 3), 4)]
		}
		d := vhBytes("item", ln)
		if t == cdSignatureSlot && ln > 8 {
			ln = 8 // an empty wrapper; BER decoding of the CMS payload is outside this encoding
			d = d[:8]
		}
		if t == cdCodeDirectorySlot || t == cdAlternateCodeDirectorySlots {
			// directories themselves are the subject of VH_C11_CSCodeDirectory
			vhAssume(ln <= 8)
		}
		if ln >= 8 {
			// the item's own length word is consistent (parseSuper slices by it)
			vhAssume(d[4] == 0 && d[5] == 0 && d[6] == 0 && int(d[7]) <= ln)
		}
		items = append(items, superItem{itype: t, data: d})
	}
	blob := marshalSuperBlob(csEmbeddedSignature, items)
	vhMaxLen(256)
	vhLoopBound(len(blob) + 64)
	vhAllocLimit(4<<20 + 16*len(blob))
	sig, err := Verify(blob, VerifyParams{})
	if err == nil {
		vhAssert(sig != nil && len(sig.Blob.Directories) > 0, "a-verified-signature-has-a-code-directory")
		vhReach("accepted")
	} else {
		vhReach("rejected") // vh:require rejected
	}
	// what the verify command prints for items it does not know
	if parsed, perr := parseSignature(blob); perr == nil {
		for _, unk := range parsed.Unknowns {
			vhAssert(len(unk) >= 8, "unknown-items-are-at-least-a-header-long")
		}
	}
}

// H11.csblob-pages: the page size and code limit VerifyPages works with come
// from the code directory of the file being verified (signed by whoever made
// the file). For an ARBITRARY page-size exponent (0..255) and code limit, one
// or two slots and a short stream: an error or a verdict - no buffer sized by
// 2^exponent beyond the limit, no panic for exponents of 63 and above.
func VH_C11_CSVerifyPagesHeader() {
	dir := &CodeDirectory{HashFunc: crypto.SHA256}
	dir.Header.PageSizeLog2 = vhU8("page-size-exponent")
	dir.Header.CodeLimit = vhU32("code-limit")
	dir.Header.HashType = HashSHA256
	n := vhConcretize(vhInt("slots", 1, 2), 3)
	for i := 0; i < n; i++ {
		dir.CodeHashes = append(dir.CodeHashes, vhBytes("slot", 32))
	}
	code := vhBytes("code", 8)
	vhAllocLimit(4<<20 + 16*len(code))
	vhLoopBound(64)
	vhMaxLen(64)
	// (whether the slots match is not the subject here - and a modelled digest
	// equal to an arbitrary slot does not replay natively - so one witness)
	_ = (&SigBlob{Directories: []*CodeDirectory{dir}}).VerifyPages(bytes.NewReader(code))
	vhReach("returned") // vh:require returned
}
