//go:build verif

package machos

import (
	"bytes"
	"encoding/binary"
)

// H11.macho: scanFile on an arbitrary byte string presented as a Mach-O
// header (magic of either width and byte order fixed per path, everything
// else symbolic: command count, command block size, the first load command):
// an error or a result, no panic, no allocation sized by the header's
// command-block size, loops bounded by the input.
func VH_C11_MachoScan() {
	lens := []int{0, 3, 4, 27, 28, 32, 36, 44}
	n := lens[vhConcretize(vhInt("lenidx", 0, len(lens)-1), 16)]
	vhMaxLen(n + 8)
	b := vhBytes("macho", n)
	if n >= 4 {
		switch vhConcretize(vhInt("magic", 0, 3), 4) {
		case 0:
			copy(b, []byte{0xce, 0xfa, 0xed, 0xfe})
		case 1:
			copy(b, []byte{0xcf, 0xfa, 0xed, 0xfe})
		case 2:
			copy(b, []byte{0xfe, 0xed, 0xfa, 0xce})
		}
	}
	if n >= 20 {
		// at most two load commands are walked (each costs a decode)
		vhAssume(b[16] < 3 && b[17] == 0 && b[18] == 0 && b[19] < 3)
	}
	vhAllocLimit(4<<20 + 16*len(b))
	vhLoopBound(len(b) + 16)
	m, err := scanFile(bytes.NewReader(b))
	if err == nil {
		vhReach("accepted")
		vhAssert(m != nil, "result-non-nil")
	} else {
		vhReach("rejected") // vh:require rejected
	}
}

// H11.macho-sig: re-signing a Mach-O whose LC_CODE_SIGNATURE command (from
// the untrusted file) states an ARBITRARY 32-bit offset and length for the
// existing signature, and whose __LINKEDIT command states an arbitrary size: scanFile + PatchSignature return an error or a patch -
// no buffer sized by the stated numbers beyond relic's own 10 MB cap on a plausible
// signature.
func VH_C11_MachoSignatureLength() {
	file := vhMacho(make([]byte, vhTextLen), make([]byte, 8), make([]byte, 8))
	// the signature load command is the last 16 bytes of the load commands:
	// cmd, cmdsize, offset, length
	le := binary.LittleEndian
	end := 28 + int(le.Uint32(file[20:]))
	off, ln := vhU32("stated-offset"), vhU32("stated-length")
	le.PutUint32(file[end-8:], off)
	le.PutUint32(file[end-4:], ln)
	// the __LINKEDIT segment command (second LC_SEGMENT) states the segment's
	// file size, which is what the signature has to end with: arbitrary too
	le.PutUint32(file[28+56+68+36:], vhU32("stated-linkedit-size"))
	vhAllocLimit(10e6 + 4<<20) // relic's own cap on a plausible signature is 10 MB (as in verify and dmg.Open)
	vhLoopBound(400)
	vhMaxLen(1024)
	m, err := scanFile(bytes.NewReader(file))
	if err != nil {
		vhReach("rejected") // vh:require rejected
		return
	}
	hdr := append([]byte{}, file[:m.nextLc]...)
	_, _, _, _, _, err = m.PatchSignature(hdr, 4096)
	if err == nil {
		vhReach("patched") // vh:require patched
	} else {
		vhReach("refused")
	}
}
