//go:build verif

package machos

import "bytes"

// H11.macho: scanFile on an arbitrary byte string presented as a Mach-O
// header (magic of either width and byte order fixed per path, everything
// else symbolic: command count, command block size, the first load command):
// an error or a result, no panic, no allocation sized by the header's
// command-block size, loops bounded by the input.
func VH_C11_MachoScan() {
	lens := []int{0, 3, 4, 27, 28, 32, 36, 44}
	n := lens[vhConcretize(vhInt("lenidx", 0, len(lens)-1), 16)]
	vhMaxLen(n + 8)
	b := vhBytes("macho", n)
	if n >= 4 {
		switch vhConcretize(vhInt("magic", 0, 3), 4) {
		case 0:
			copy(b, []byte{0xce, 0xfa, 0xed, 0xfe})
		case 1:
			copy(b, []byte{0xcf, 0xfa, 0xed, 0xfe})
		case 2:
			copy(b, []byte{0xfe, 0xed, 0xfa, 0xce})
		}
	}
	if n >= 20 {
		// at most two load commands are walked (each costs a decode)
		vhAssume(b[16] < 3 && b[17] == 0 && b[18] == 0 && b[19] < 3)
	}
	vhAllocLimit(4<<20 + 16*len(b))
	vhLoopBound(len(b) + 16)
	m, err := scanFile(bytes.NewReader(b))
	if err == nil {
		vhReach("accepted")
		vhAssert(m != nil, "result-non-nil")
	} else {
		vhReach("rejected") // vh:require rejected
	}
}
