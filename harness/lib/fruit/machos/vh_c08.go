//go:build verif

package machos

import (
	"bytes"
	"encoding/binary"

	"github.com/sassoftware/relic/v8/lib/binpatch"
)

func vhMApply(x []byte, p *binpatch.PatchSet) []byte {
	// patches may arrive in any order: apply in offset order
	type pr struct {
		off, old int64
		blob     []byte
	}
	var ps []pr
	for i, h := range p.Patches {
		ps = append(ps, pr{h.Offset, int64(h.OldSize), p.Blobs[i]})
	}
	for i := 1; i < len(ps); i++ {
		for j := i; j > 0 && ps[j].off < ps[j-1].off; j-- {
			ps[j], ps[j-1] = ps[j-1], ps[j]
		}
	}
	var out []byte
	pos := int64(0)
	for _, q := range ps {
		out = append(out, x[pos:q.off]...)
		out = append(out, q.blob...)
		pos = q.off + q.old
	}
	return append(out, x[pos:]...)
}

const (
	vhTextOff = 0x100 // first section: leaves room after the load commands
	vhTextLen = 8
)

// a minimal 32-bit little-endian Mach-O: __TEXT with one section at 0x100,
// __LINKEDIT right after it, optionally an existing signature at the end of
// __LINKEDIT with its load command
func vhMacho(text, linkedit, oldSig []byte) []byte {
	le := binary.LittleEndian
	var cmds bytes.Buffer
	seg := func(name string, off, size uint32, nsect uint32) {
		var n [16]byte
		copy(n[:], name)
		binary.Write(&cmds, le, uint32(1)) // LC_SEGMENT
		binary.Write(&cmds, le, uint32(56+68*nsect))
		cmds.Write(n[:])
		binary.Write(&cmds, le, []uint32{0x1000 + off, (size + 4095) / 4096 * 4096, off, size, 7, 5, nsect, 0})
	}
	seg("__TEXT", 0, vhTextOff+vhTextLen, 1)
	var sn, gn [16]byte
	copy(sn[:], "__text")
	copy(gn[:], "__TEXT")
	cmds.Write(sn[:])
	cmds.Write(gn[:])
	binary.Write(&cmds, le, []uint32{0x1000 + vhTextOff, vhTextLen, vhTextOff, 0, 0, 0, 0, 0, 0})
	leOff := uint32(vhTextOff + vhTextLen)
	seg("__LINKEDIT", leOff, uint32(len(linkedit)+len(oldSig)), 0)
	ncmd := uint32(2)
	if len(oldSig) > 0 {
		binary.Write(&cmds, le, []uint32{0x1d, 16, leOff + uint32(len(linkedit)), uint32(len(oldSig))})
		ncmd++
	}
	var f bytes.Buffer
	binary.Write(&f, le, []uint32{0xfeedface, 7, 3, 2, ncmd, uint32(cmds.Len()), 0})
	f.Write(cmds.Bytes())
	f.Write(make([]byte, vhTextOff-f.Len()))
	f.Write(text)
	f.Write(linkedit)
	f.Write(oldSig)
	return f.Bytes()
}

// H08.macho / H03.macho: reserving room for a code signature in a Mach-O
// (unsigned, or carrying an older signature that is smaller or larger than
// the new one). After the patch the image scans again; the signature load
// command and the __LINKEDIT bounds describe exactly the reserved block at
// the end of the file; the code that gets hashed (everything before the
// signature) has the same length as before and - outside the header fields
// that must change - the same bytes; the new block has replaced the old one.
func VH_C08_MachoPatchSignature() {
	vhMaxLen(1024)
	vhLoopBound(400)
	text := vhBytes("text", vhTextLen)
	linkedit := vhBytes("linkedit", 8)
	var oldSig []byte
	if vhBool("already-signed") {
		oldSig = vhBytes("old-signature", 8*vhConcretize(vhInt("old-signature-words", 1, 3), 4))
	}
	file := vhMacho(text, linkedit, oldSig)
	m, err := scanFile(bytes.NewReader(file))
	vhAssert(err == nil, "image-scans")
	if err != nil {
		return
	}
	codeSize := int(m.codeSize)
	vhAssert(codeSize == vhTextOff+vhTextLen+len(linkedit), "code-ends-where-the-signature-begins")
	want := int64(8 * vhConcretize(vhInt("new-signature-words", 1, 3), 4))
	hdr := append([]byte{}, file[:m.nextLc]...)
	newHeader, sigBuf, sigStart, patch, padding, err := m.PatchSignature(hdr, want)
	vhAssert(err == nil, "room-reserved")
	if err != nil {
		return
	}
	vhAssert(int64(len(sigBuf)) >= want && padding >= 0 && padding < 8, "reserved-block-large-enough")
	mark := vhBytes("new-signature", 2)
	copy(sigBuf, mark)
	out := vhMApply(file, patch)
	_ = newHeader
	m2, err := scanFile(bytes.NewReader(out))
	vhAssert(err == nil, "patched-image-scans")
	if err != nil {
		return
	}
	vhAssert(m2.sigStart == sigStart && m2.sigLen == int64(len(sigBuf)), "load-command-describes-the-reserved-block")
	vhAssert(int(m2.sigStart+m2.sigLen) == len(out), "signature-block-ends-the-file")
	vhAssert(int64(m2.linkEditHdr.Offset+m2.linkEditHdr.Filesz) == m2.sigStart+m2.sigLen, "linkedit-covers-the-signature")
	vhAssert(int(m2.codeSize) == codeSize+int(padding), "hashed-code-length-unchanged-up-to-alignment")
	vhAssert(bytes.Equal(out[vhTextOff:codeSize], file[vhTextOff:codeSize]), "sections-and-linkedit-data-unchanged")
	vhAssert(bytes.Equal(out[sigStart:sigStart+2], mark), "new-signature-in-the-block")
	vhAssert(bytes.Equal(out[:16], file[:16]), "identity-fields-of-the-header-unchanged")
	vhReach("patched") // vh:require patched
}

func VH_C03_MachoCodeKept() { VH_C08_MachoPatchSignature() }
