//go:build verif

package machos

import (
	"bytes"
	"crypto"
	"crypto/sha256"
	"debug/macho"
	"encoding/binary"
	"errors"
	"io"

	"github.com/sassoftware/relic/v8/lib/fruit/csblob"
)

// H02.macho-verify / H11.macho-verify: verifying a Mach-O. The container
// parser (debug/macho) and the signature blob's own verification
// (csblob.Verify: CMS, special slots) are stubs; locating the signature
// through the LC_CODE_SIGNATURE command and hashing the code pages against
// the code directory's slots are the real code. The load command's offset and
// length are ARBITRARY 32-bit numbers: an error or a verdict, no buffer sized
// beyond relic's 10 MB cap, no panic. When the command points at the blob,
// the image verifies as signed, and does NOT after one code byte is changed
// (symbolic position and value); in general only if every page as presented
// has the digest the directory holds for it.
func VH_C02_MachoVerifyComparesPages() {
	// vh:stubbed
	code := []byte("CODEPAGE")   // two 4-byte pages
	blobBytes := []byte("SIGBLOB!") // what LC_CODE_SIGNATURE points at
	file := append(append([]byte{}, code...), blobBytes...)
	off, ln := vhU32("stated-offset"), vhU32("stated-length")
	raw := make([]byte, 16)
	binary.LittleEndian.PutUint32(raw, 0x1d)
	binary.LittleEndian.PutUint32(raw[4:], 16)
	binary.LittleEndian.PutUint32(raw[8:], off)
	binary.LittleEndian.PutUint32(raw[12:], ln)
	vhStub("debug/macho.NewFile", func(r io.ReaderAt) (*macho.File, error) {
		f := &macho.File{}
		f.ByteOrder = binary.LittleEndian
		f.Loads = []macho.Load{macho.LoadBytes(raw)}
		return f, nil
	})
	p0, p1 := sha256.Sum256(code[:4]), sha256.Sum256(code[4:])
	slot1 := p1[:]
	if vhBool("directory-vouches-for-another-second-page") {
		slot1 = vhBytes("other-slot", 32)
	}
	var handed []byte
	vhStub("github.com/sassoftware/relic/v8/lib/fruit/csblob.Verify", func(blob []byte, params csblob.VerifyParams) (*csblob.VerifiedBlob, error) {
		handed = blob
		if !bytes.Equal(blob, blobBytes) {
			return nil, errors.New("signature blob does not verify")
		}
		dir := &csblob.CodeDirectory{HashFunc: crypto.SHA256, CodeHashes: [][]byte{p0[:], slot1}}
		dir.Header.PageSizeLog2 = 2
		dir.Header.CodeLimit = uint32(len(code))
		dir.Header.HashType = csblob.HashSHA256
		return &csblob.VerifiedBlob{Blob: &csblob.SigBlob{Directories: []*csblob.CodeDirectory{dir}}, HashFunc: crypto.SHA256}, nil
	})
	image := append([]byte{}, file...)
	changed := vhBool("code-byte-changed")
	if changed {
		p := vhConcretize(vhInt("changed-byte", 0, len(code)-1), 16)
		image[p] = vhU8("new-value")
		vhAssume(image[p] != file[p])
	}
	vhAllocLimit(10e6 + 4<<20)
	vhLoopBound(256)
	vhMaxLen(64)
	sig, err := Verify(bytes.NewReader(image), nil, nil, false)
	vhReach("decided") // vh:require decided
	if err != nil {
		vhReach("rejected") // vh:require rejected
		return
	}
	vhReach("accepted") // vh:require accepted
	vhAssert(sig != nil && int(off) == len(code) && int(ln) == len(blobBytes) && bytes.Equal(handed, blobBytes), "the-blob-verified-is-the-one-the-command-points-at")
	// accepted only if every page of the image as presented has the digest the
	// directory holds for it (a changed page verifies only under a slot that
	// vouches for the changed bytes)
	q0, q1 := sha256.Sum256(image[:4]), sha256.Sum256(image[4:8])
	vhAssert(bytes.Equal(q0[:], p0[:]) && bytes.Equal(q1[:], slot1), "accepted-only-if-each-page-matches-its-slot")
	if changed && bytes.Equal(slot1, p1[:]) {
		vhAssert(false, "altered-code-never-accepted-under-the-genuine-directory")
	}
}
