//go:build verif

package xar

import (
	"bytes"
	"crypto"
	_ "crypto/sha1"
	"encoding/binary"
	"io"
)

// H11.xar: opening an untrusted .pkg. The table of contents is zlib-compressed
// XML; inflating and decoding it (compress/zlib, encoding/xml by reflection)
// is outside this encoding, so parseTOC is a stub that returns what the
// decoder can return for some document: ARBITRARY 64-bit offsets and sizes
// for the checksum, or the classic or the CMS signature (one of them at a
// time, the checksum then in place), and one optional file. Everything Open does with those numbers is the real
// code: no panic (negative or huge sizes), no allocation sized by them beyond
// the limit, an error or an archive.
func VH_C11_XarOpen() {
	// vh:stubbed
	heapLen := vhConcretize(vhInt("heap-bytes", 0, 24), 32)
	vhAssume(heapLen == 0 || heapLen == 20 || heapLen == 24)
	if vhTier() == 0 {
		vhAssume(heapLen == 24)
	}
	var hdr bytes.Buffer
	binary.Write(&hdr, binary.BigEndian, fileHeader{Magic: xarMagic, HeaderSize: 28, Version: 1, CompressedSize: 3, UncompressedSize: 3, HashType: hashSHA1})
	file := append(append(hdr.Bytes(), 'T', 'O', 'C'), vhBytes("heap", heapLen)...)
	tocHash := vhBytes("toc-hash", 20)
	num := func(tag string) int64 { return int64(vhU64(tag)) }
	toc := &tocToc{}
	item := vhConcretize(vhInt("symbolic-item", 0, 2), 3)
	switch item {
	case 0: // arbitrary checksum position and size, no signature
		toc.Checksum = tocChecksum{Offset: num("checksum-offset"), Size: num("checksum-size")}
	case 1: // checksum in place, classic signature anywhere
		toc.Checksum = tocChecksum{Offset: 0, Size: 20}
		toc.Signature = &tocSignature{Offset: num("sig-offset"), Size: num("sig-size"), Certificates: []string{"!"}}
	case 2: // checksum in place, CMS signature anywhere
		toc.Checksum = tocChecksum{Offset: 0, Size: 20}
		toc.XSignature = &tocSignature{Offset: num("xsig-offset"), Size: num("xsig-size")}
	}
	if (vhTier() > 0 || item == 0) && vhBool("one-file") {
		toc.Files = []*tocFile{{Name: "f", Offset: num("file-offset"), Length: num("file-length")}}
		// the notarization ticket after the last file is copied when it is
		// 1..999999 bytes long: keep lengths 9..999999 out (one symbolic
		// length up to a million is outside the array model), keep the rest
		trailer := int64(len(file)) - (toc.Files[0].Offset + toc.Files[0].Length + 31)
		vhAssume(trailer <= 8 || trailer >= 1000000)
	}
	vhStub("github.com/sassoftware/relic/v8/lib/fruit/xar.parseTOC", func(r io.Reader, hashType crypto.Hash) (*tocToc, []byte, error) {
		io.Copy(io.Discard, r)
		return toc, tocHash, nil
	})
	vhAllocLimit(4<<20 + 16*len(file))
	vhLoopBound(256)
	x, err := Open(bytes.NewReader(file), int64(len(file)))
	if err == nil {
		vhAssert(x != nil, "archive-returned")
		vhReach("opened") // vh:require opened
	} else {
		vhReach("rejected") // vh:require rejected
	}
}
