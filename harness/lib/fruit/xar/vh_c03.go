//go:build verif

package xar

import (
	"bytes"
	"context"
	"crypto"
	"crypto/ecdsa"
	"crypto/sha1"
	"crypto/x509"
	"encoding/binary"
	"encoding/hex"
	"fmt"
	"io"
	"strconv"

	"github.com/beevik/etree"

	"github.com/sassoftware/relic/v8/lib/certloader"
	"github.com/sassoftware/relic/v8/lib/pkcs9"
)

// H03.xar / H08.xar: (re-)signing a .pkg. zlib and the signature
// construction are stubs (the TOC travels uncompressed, the signature area is
// filler of the reserved size); the TOC surgery is the real code, run on the
// real XML library: old checksum / signature elements removed, new ones
// reserved, every file's heap offset moved by the change in signature-area
// size, the front of the file replaced by one patch. For a package with two
// payload files of symbolic bytes (one inside a directory), unsigned or
// already signed: in the output every file is found, through the NEW table of
// contents, at its new offset with its own bytes; the new checksum and
// signature areas lie in front of the first file and do not overlap it.
func VH_C03_XarResignKeepsPayload() {
	// vh:stubbed
	vhMaxLen(16384)
	vhLoopBound(20000)
	a, b := []byte("AAA"), []byte("BB")
	if vhTier() > 0 {
		// thorough: symbolic payload (the archived checksums then go through the
		// digest model and their hex text, which is slow)
		a, b = vhBytes("payload-a", 3), vhBytes("payload-b", 2)
	}
	signed := vhBool("already-signed")
	oldArea := 20 // checksum
	sigXML := ""
	if signed {
		sigXML = `<signature style="RSA"><offset>20</offset><size>8</size></signature>`
		oldArea += 8
	}
	sa, sb := sha1.Sum(a), sha1.Sum(b)
	file := func(name string, off int, data []byte, sum [20]byte, inner string) string {
		return fmt.Sprintf(`<file id="1"><name>%s</name><data><offset>%d</offset><length>%d</length><size>%d</size><archived-checksum style="sha1">%s</archived-checksum><encoding style="application/octet-stream"/></data>%s</file>`,
			name, off, len(data), len(data), hex.EncodeToString(sum[:]), inner)
	}
	toc := `<?xml version="1.0"?><xar><toc><checksum style="sha1"><offset>0</offset><size>20</size></checksum>` + sigXML +
		`<file id="9"><name>dir</name><type>directory</type>` + file("b.bin", oldArea+len(a), b, sb, "") + `</file>` + file("a.bin", oldArea, a, sa, "") + `</toc></xar>`
	ztoc := []byte("ZTOC") // what the stubbed inflater is given; it returns the XML above
	var in bytes.Buffer
	binary.Write(&in, binary.BigEndian, fileHeader{Magic: xarMagic, HeaderSize: 28, Version: 1, CompressedSize: int64(len(ztoc)), UncompressedSize: int64(len(toc)), HashType: hashSHA1})
	in.Write(ztoc)
	in.Write(make([]byte, oldArea))
	in.Write(a)
	in.Write(b)
	input := in.Bytes()
	vhStub("github.com/sassoftware/relic/v8/lib/fruit/xar.decompress", func(r io.Reader) ([]byte, error) {
		io.Copy(io.Discard, r)
		return []byte(toc), nil
	})
	var newTOC []byte
	vhStub("github.com/sassoftware/relic/v8/lib/fruit/xar.compress", func(doc *etree.Document) ([]byte, int64, error) {
		x, err := doc.WriteToBytes()
		newTOC = x
		return x, int64(len(x)), err
	})
	var reserved int64
	vhStub("github.com/sassoftware/relic/v8/lib/fruit/xar.appendSignatures", func(ctx context.Context, out *bytes.Buffer, z []byte, uncomp, reservedSigSize int64, cert *certloader.Certificate, hashType crypto.Hash) (*pkcs9.TimestampedSignature, error) {
		reserved = reservedSigSize
		binary.Write(out, binary.BigEndian, fileHeader{Magic: xarMagic, HeaderSize: 28, Version: 1, CompressedSize: int64(len(z)), UncompressedSize: uncomp, HashType: hashSHA1})
		out.Write(z)
		out.Write(bytes.Repeat([]byte{0x5a}, int(reservedSigSize)))
		return &pkcs9.TimestampedSignature{}, nil
	})
	leaf := &x509.Certificate{Raw: []byte("leafcert"), PublicKey: &ecdsa.PublicKey{}}
	cert := &certloader.Certificate{Leaf: leaf, Certificates: []*x509.Certificate{leaf}}
	patch, _, err := Sign(context.Background(), bytes.NewReader(input), cert, crypto.SHA1)
	vhAssert(err == nil, "package-signs")
	if err != nil {
		return
	}
	var out []byte
	pos := int64(0)
	for i, h := range patch.Patches {
		out = append(out, input[pos:h.Offset]...)
		out = append(out, patch.Blobs[i]...)
		pos = h.Offset + int64(h.OldSize)
	}
	out = append(out, input[pos:]...)
	heap := 28 + len(newTOC)
	vhAssert(len(out) == heap+int(reserved)+len(a)+len(b), "front-replaced-payload-kept")
	doc := etree.NewDocument()
	vhAssert(doc.ReadFromBytes(newTOC) == nil, "new-toc-is-xml")
	found := 0
	for _, d := range doc.FindElements("//file/data") {
		name := d.Parent().SelectElement("name").Text()
		off, _ := strconv.Atoi(d.SelectElement("offset").Text())
		ln, _ := strconv.Atoi(d.SelectElement("length").Text())
		want := a
		if name == "b.bin" {
			want = b
		}
		vhAssert(off >= int(reserved) && heap+off+ln <= len(out), "file-lies-behind-the-signature-area")
		vhAssert(bytes.Equal(out[heap+off:heap+off+ln], want), "file-found-at-its-new-offset-with-its-bytes")
		found++
	}
	vhAssert(found == 2, "both-files-listed")
	vhAssert(len(doc.FindElements("/xar/toc/signature")) == 0 && len(doc.FindElements("/xar/toc/checksum")) == 1 && len(doc.FindElements("/xar/toc/x-signature")) == 1, "old-signature-elements-replaced")
	vhReach("resigned") // vh:require resigned
}

func VH_C08_XarResignReplacesSignatures() { VH_C03_XarResignKeepsPayload() }
