//go:build verif

package xar

import (
	"bytes"
	"crypto/sha1"
	"crypto/sha256"
	"encoding/hex"
)

// H02.xar: the signed table of contents vouches for the heap through one
// archived-checksum per file. checkFiles (the digest pass of XAR.Verify) over
// a heap holding two files - one inside a directory entry, SHA-1 and SHA-256
// styles - and a gap: accepted as built; with ONE heap byte changed (symbolic
// position over the whole heap, symbolic value) it is rejected exactly when
// the byte belongs to a file; a file cut short by the end of the heap is
// rejected.
func VH_C02_XarHeapDigests() {
	a, b := []byte("payload-A"), []byte("Bom!")
	heap := append(append(append([]byte{}, a...), 0xee, 0xee), b...) // A at 0, gap of 2, B at 11
	sa, sb := sha1.Sum(a), sha256.Sum256(b)
	fa := &tocFile{Name: "Payload", Offset: 0, Length: int64(len(a)), ArchivedChecksum: tocFileSum{Style: "sha1", Digest: hex.EncodeToString(sa[:])}}
	fb := &tocFile{Name: "Bom", Offset: int64(len(a) + 2), Length: int64(len(b)), ArchivedChecksum: tocFileSum{Style: "sha256", Digest: hex.EncodeToString(sb[:])}}
	dir := &tocFile{Name: "dir", Type: "directory", Files: []*tocFile{fb}}
	x := &XAR{toc: &tocToc{Files: []*tocFile{dir, fa}}, heap: bytes.NewReader(heap)}
	vhAssert(x.checkFiles() == nil, "heap-as-signed-verifies")

	pos := vhConcretize(vhInt("changed-byte", 0, len(heap)-1), 32)
	tampered := append([]byte{}, heap...)
	tampered[pos] = vhU8("new-value")
	vhAssume(tampered[pos] != heap[pos])
	x.heap = bytes.NewReader(tampered)
	err := x.checkFiles()
	inFile := pos < len(a) || pos >= len(a)+2
	if inFile {
		vhAssert(err != nil, "changed-file-byte-rejected")
		vhReach("tampered") // vh:require tampered
	} else {
		vhAssert(err == nil, "byte-outside-every-file-is-not-covered")
	}
	x.heap = bytes.NewReader(heap[:len(heap)-1])
	vhAssert(x.checkFiles() != nil, "file-cut-short-rejected")
	vhReach("checked") // vh:require checked
}
