//go:build verif

package dmg

import "os"

// H11.dmg: Open on a file whose 512-byte UDIF trailer is arbitrary.
func VH_C11_DmgOpen() {
	lens := []int{0, 511, 512, 516}
	n := lens[vhConcretize(vhInt("lenidx", 0, len(lens)-1), 8)]
	vhMaxLen(600)
	b := vhBytes("dmg", n)
	path := vhFSPath("image.dmg")
	vhFSPut(path, b)
	f, err := os.Open(path)
	vhAssume(err == nil)
	if n >= 512 {
		// the signature length multiplies paths (one per length that fits): the
		// quick tier tries none / short / negative / oversized
		t := b[n-512:]
		sl := int64(uint64(t[304])<<56 | uint64(t[305])<<48 | uint64(t[306])<<40 | uint64(t[307])<<32 | uint64(t[308])<<24 | uint64(t[309])<<16 | uint64(t[310])<<8 | uint64(t[311]))
		lim := int64(2)
		if vhTier() > 0 {
			lim = 16
		}
		vhAssume(sl <= lim || sl > 600)
	}
	vhAllocLimit(16<<20 + 16*len(b)) // the code itself caps signatures at 10 MB
	vhLoopBound(len(b) + 8)
	d, err := Open(f)
	if err == nil {
		vhReach("accepted") // vh:require accepted
		vhAssert(d != nil, "result-non-nil")
	} else {
		vhReach("rejected") // vh:require rejected
	}
}
