//go:build verif

package dmg

import (
	"bytes"
	"context"
	"crypto"
	"encoding/binary"
	"io"

	"github.com/sassoftware/relic/v8/lib/certloader"
	"github.com/sassoftware/relic/v8/lib/fruit/csblob"
	"github.com/sassoftware/relic/v8/lib/pkcs9"
)

// H08.dmg / H03.dmg: signing a disk image (data + property list, optional old
// signature, 512-byte trailer). The code-signature builder is a stub that
// records what it is given to hash; around it the real Sign must: hash
// exactly the image's data and property list (not the old signature, not the
// trailer) together with the trailer whose signature length is zeroed; hand
// the old signature over for its requirements; and produce a patch after
// which the file is the untouched image data, the new signature blob and a
// trailer that differs from the old one only in signature offset and length.
func VH_C08_DmgSignReplacesSignature() {
	// vh:stubbed
	vhMaxLen(2048)
	vhLoopBound(1100)
	data := vhBytes("image-data", 4)
	plist := vhBytes("property-list", 3)
	var oldSig []byte
	if vhBool("already-signed") {
		oldSig = vhBytes("old-signature", 2)
	}
	bundle := append(append([]byte{}, data...), plist...)
	rsf := udifResourceFile{Signature: udifSignature, Version: 4, HeaderSize: 512, DataForkLength: int64(len(data)),
		XMLOffset: int64(len(data)), XMLLength: int64(len(plist)), SectorCount: 1}
	rsf.SegmentID[0] = vhU32("segment-id")
	if oldSig != nil {
		rsf.SignatureOffset, rsf.SignatureLength = int64(len(bundle)), int64(len(oldSig))
	}
	var trailer bytes.Buffer
	binary.Write(&trailer, binary.BigEndian, rsf)
	file := append(append(append([]byte{}, bundle...), oldSig...), trailer.Bytes()...)
	newBlob := vhBytes("new-signature", vhConcretize(vhInt("new-signature-bytes", 1, 3), 4))
	var hashedPages, hashedRep, seenOld []byte
	vhStub("github.com/sassoftware/relic/v8/lib/fruit/csblob.Sign", func(ctx context.Context, cert *certloader.Certificate, p *csblob.SignatureParams) ([]byte, *pkcs9.TimestampedSignature, error) {
		hashedPages, _ = io.ReadAll(p.Pages)
		hashedRep = p.RepSpecific
		if p.OldSignature != nil {
			seenOld, _ = io.ReadAll(p.OldSignature)
		}
		return newBlob, &pkcs9.TimestampedSignature{}, nil
	})
	patch, _, err := Sign(context.Background(), trailer.Bytes(), bytes.NewReader(file), nil, &SignatureParams{HashFunc: crypto.SHA256})
	vhAssert(err == nil, "image-signs")
	if err != nil {
		return
	}
	vhAssert(bytes.Equal(hashedPages, bundle), "exactly-data-and-property-list-hashed")
	want := rsf
	want.SignatureOffset, want.SignatureLength = int64(len(bundle)), 0
	var wantRep bytes.Buffer
	binary.Write(&wantRep, binary.BigEndian, want)
	vhAssert(bytes.Equal(hashedRep, wantRep.Bytes()), "trailer-hashed-with-zero-signature-length")
	vhAssert(bytes.Equal(seenOld, oldSig), "old-signature-handed-over-not-hashed")
	vhAssert(len(patch.Patches) == 1, "one-patch")
	h := patch.Patches[0]
	out := append(append(append([]byte{}, file[:h.Offset]...), patch.Blobs[0]...), file[h.Offset+int64(h.OldSize):]...)
	vhAssert(len(out) == len(bundle)+len(newBlob)+512 && bytes.Equal(out[:len(bundle)], bundle), "image-data-untouched")
	vhAssert(bytes.Equal(out[len(bundle):len(bundle)+len(newBlob)], newBlob), "new-signature-replaces-the-old-one")
	var got udifResourceFile
	binary.Read(bytes.NewReader(out[len(out)-512:]), binary.BigEndian, &got)
	want.SignatureLength = int64(len(newBlob))
	vhAssert(got == want, "trailer-differs-only-in-signature-offset-and-length")
	vhReach("signed") // vh:require signed
}

func VH_C03_DmgImageDataKept() { VH_C08_DmgSignReplacesSignature() }
