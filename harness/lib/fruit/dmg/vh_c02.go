//go:build verif

package dmg

import (
	"bytes"
	"crypto"
	"crypto/sha256"
	"errors"

	"github.com/sassoftware/relic/v8/lib/fruit/csblob"
)

// H02.dmg-verify: verifying a disk image. The signature blob's own
// verification (csblob.Verify: CMS, the koly-header slot) is a stub that
// accepts the genuine blob and hands back a code directory in single-slot
// mode; what DMG.Verify then hashes - the image from offset 0 to the end of
// the XML property list, as the header states - is the real code. The image
// verifies as signed, and not after ONE byte of that range is changed
// (symbolic position and value), nor when the header's XML extent was grown
// or shrunk by a byte after signing.
func VH_C02_DmgVerifyComparesImage() {
	// vh:stubbed
	data := []byte("DMG-DATA-AND-XML") // blocks + property list: 16 bytes
	sigBlob := []byte("SIGBLOB!")
	whole := sha256.Sum256(data)
	vhStub("github.com/sassoftware/relic/v8/lib/fruit/csblob.Verify", func(blob []byte, params csblob.VerifyParams) (*csblob.VerifiedBlob, error) {
		if !bytes.Equal(blob, sigBlob) {
			return nil, errors.New("signature blob does not verify")
		}
		dir := &csblob.CodeDirectory{HashFunc: crypto.SHA256, CodeHashes: [][]byte{whole[:]}}
		dir.Header.CodeLimit = uint32(len(data))
		dir.Header.HashType = csblob.HashSHA256
		return &csblob.VerifiedBlob{Blob: &csblob.SigBlob{Directories: []*csblob.CodeDirectory{dir}}, HashFunc: crypto.SHA256}, nil
	})
	image := append([]byte{}, data...)
	d := &DMG{r: bytes.NewReader(image), sigBlob: sigBlob}
	d.rsf.XMLOffset, d.rsf.XMLLength = 10, 6
	sig, err := d.Verify(false)
	vhAssert(err == nil && sig != nil, "image-as-signed-verifies")
	switch vhConcretize(vhInt("alteration", 0, 2), 3) {
	case 0:
		p := vhConcretize(vhInt("changed-byte", 0, len(data)-1), 32)
		image[p] = vhU8("new-value")
		vhAssume(image[p] != data[p])
		_, err = (&DMG{r: bytes.NewReader(image), sigBlob: sigBlob, rsf: d.rsf}).Verify(false)
		vhAssert(err != nil, "changed-image-byte-rejected")
	case 1:
		g := &DMG{r: bytes.NewReader(append(append([]byte{}, data...), 'x')), sigBlob: sigBlob, rsf: d.rsf}
		g.rsf.XMLLength++
		_, err = g.Verify(false)
		vhAssert(err != nil, "grown-extent-rejected")
	case 2:
		g := &DMG{r: bytes.NewReader(data), sigBlob: sigBlob, rsf: d.rsf}
		g.rsf.XMLLength--
		_, err = g.Verify(false)
		vhAssert(err != nil, "shrunk-extent-rejected")
	}
	_, err = (&DMG{r: bytes.NewReader(data)}).Verify(false)
	vhAssert(err != nil, "image-without-signature-is-not-verified")
	vhReach("checked") // vh:require checked
}
