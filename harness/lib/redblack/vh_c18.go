//go:build verif

package redblack

// H18.c: Insert driven from empty with k symbolic keys (every arrival order
// and every relative order of keys): the result is a binary search tree in
// comparator order and a valid red-black tree (root black, no red node with a
// red child, equal black height on every root-to-nil path).

func vhCheck(n *Node, lo, hi *int) (blackHeight int) {
	if n == nil {
		return 1
	}
	v := n.Item.(int)
	if lo != nil {
		vhAssert(*lo < v, "bst-order-left-bound")
	}
	if hi != nil {
		vhAssert(v < *hi, "bst-order-right-bound")
	}
	if n.Red {
		vhAssert(!n.Children[0].isRed() && !n.Children[1].isRed(), "no-red-node-with-red-child")
	}
	l := vhCheck(n.Children[0], lo, &v)
	r := vhCheck(n.Children[1], &v, hi)
	vhAssert(l == r, "equal-black-height")
	if n.Red {
		return l
	}
	return l + 1
}

// H18.rb: inserting k symbolic keys (every arrival and relative order) into
// an empty tree yields a binary search tree with a black root, no red node
// with a red child and equal black height on every path.
func VH_C18_RedBlackInsert() {
	maxK := 5
	if vhTier() > 0 {
		maxK = 7
	}
	k := vhConcretize(vhInt("k", 1, maxK), 8)
	t := New(func(i, j interface{}) bool { return i.(int) < j.(int) })
	var keys []int
	for i := 0; i < k; i++ {
		v := int(vhU8("key"))
		for _, o := range keys {
			vhAssume(o != v)
		}
		keys = append(keys, v)
		t.Insert(v)
	}
	vhAssert(t.Count == uint(k), "count")
	vhAssert(len(t.Nodes()) == k, "all-nodes-reachable")
	vhAssert(!t.Root.isRed(), "root-is-black")
	vhCheck(t.Root, nil, nil)
	vhReach("built") // vh:require built
}
