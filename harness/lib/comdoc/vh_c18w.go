//go:build verif

package comdoc

import (
	"bytes"
	"encoding/binary"
	"io"
	"os"
	"unicode/utf16"
)

const (
	vhWSector = 128 // smallest sector the format allows a directory entry to fit in
	vhWMinStd = 32  // mini-stream cutoff of the test container
	vhSigName = "\x05DigitalSignature"
)

func vhRawDirEnt(name string, typ DirType, root int32, next SecID, size uint32) RawDirEnt {
	e := RawDirEnt{Type: typ, Color: Black, LeftChild: -1, RightChild: -1, StorageRoot: root, NextSector: next, StreamSize: size}
	if name != "" {
		runes := append(utf16.Encode([]rune(name)), 0)
		copy(e.NameRunes[:], runes)
		e.NameLength = uint16(2 * len(runes))
	}
	return e
}

// a minimal valid container: header, sector 0 = allocation table, sectors 1-2
// = directory (root, one stream "P"), sector 3 = P's data
func vhMiniContainer(payload []byte) []byte {
	var f bytes.Buffer
	h := Header{Revision: 0x3e, Version: 3, ByteOrder: byteOrderMarker, SectorSize: 7, ShortSectorSize: 4,
		SATSectors: 1, DirNextSector: 1, MinStdStreamSize: vhWMinStd, SSATNextSector: SecIDEndOfChain, MSATNextSector: SecIDEndOfChain}
	copy(h.Magic[:], fileMagic)
	for i := range h.MSAT {
		h.MSAT[i] = SecIDFree
	}
	h.MSAT[0] = 0
	binary.Write(&f, binary.LittleEndian, h)
	sat := make([]SecID, vhWSector/4)
	for i := range sat {
		sat[i] = SecIDFree
	}
	sat[0], sat[1], sat[2], sat[3] = SecIDSAT, 2, SecIDEndOfChain, SecIDEndOfChain
	binary.Write(&f, binary.LittleEndian, sat)
	binary.Write(&f, binary.LittleEndian, vhRawDirEnt("Root Entry", DirRoot, 1, SecIDEndOfChain, 0))
	binary.Write(&f, binary.LittleEndian, vhRawDirEnt("P", DirStream, -1, 3, uint32(len(payload))))
	sec := make([]byte, vhWSector)
	copy(sec, payload)
	f.Write(sec)
	return f.Bytes()
}

// harness-owned reader of the finished file, written from the format
// description: walks every chain with bounds, cycle and overlap checks
type vhCfbCheck struct {
	file []byte
	sat  []int32
	used map[int32]string
	ok   bool
}

func (c *vhCfbCheck) sector(i int32) []byte {
	off := 512 + int(i)*vhWSector
	if i < 0 || off+vhWSector > len(c.file) {
		c.ok = false
		return make([]byte, vhWSector)
	}
	return c.file[off : off+vhWSector]
}

func (c *vhCfbCheck) chain(first int32, owner string) (out []int32) {
	for s := first; s != -2; s = c.sat[s] {
		if s < 0 || int(s) >= len(c.sat) || len(out) > len(c.sat) || c.used[s] != "" {
			c.ok = false // out of bounds, cyclic, or shared with another chain
			return
		}
		c.used[s] = owner
		out = append(out, s)
	}
	return
}

// H18.whole-file: a signature stream of any size class (empty, mini-stream,
// exactly at the cutoff, one sector, two sectors) is added to a minimal valid
// container through the real writer (AddFile ... Close), optionally replaced
// by a second one. The finished file is then checked (a) through relic's own
// reader - both streams present with their bytes - and (b) by an independent
// walk written from the format description: header counts agree with the
// tables, every chain is in bounds, acyclic and disjoint from every other,
// table sectors are marked as such, the file ends right after the last used
// sector, and the root's directory tree is an ordered red-black tree.
func VH_C18_SignatureInsertWholeFile() {
	vhMaxLen(4096)
	vhLoopBound(700)
	payload := vhBytes("payload", 40)
	orig := vhMiniContainer(payload)
	path := vhFSPath("p.msi")
	vhFSPut(path, orig)
	sizes := []int{0, 5, vhWMinStd - 1, vhWMinStd, 40, vhWSector + 1}
	sig := vhBytes("signature", sizes[vhConcretize(vhInt("signature-size-class", 0, len(sizes)-1), 8)])
	f, err := os.OpenFile(path, os.O_RDWR, 0)
	vhAssume(err == nil)
	w, err := WriteFile(f)
	vhAssert(err == nil, "container-opens-for-writing")
	if err != nil {
		return
	}
	vhAssert(w.AddFile(vhSigName, sig) == nil, "signature-added")
	if vhBool("signed-twice") {
		sig = vhBytes("second-signature", sizes[vhConcretize(vhInt("second-size-class", 0, len(sizes)-1), 8)])
		vhAssert(w.AddFile(vhSigName, sig) == nil, "signature-replaced")
	}
	vhAssert(w.Close() == nil, "container-closed")
	out, ok := vhFSGet(path)
	vhAssert(ok, "file-still-there")
	// (a) relic's reader
	r, err := ReadFile(bytes.NewReader(out))
	vhAssert(err == nil, "finished-file-opens")
	if err != nil {
		return
	}
	files, err := r.ListDir(nil)
	vhAssert(err == nil && len(files) == 2, "exactly-payload-and-signature-listed")
	for _, e := range files {
		rd, err := r.ReadStream(e)
		vhAssert(err == nil, "stream-readable")
		if err != nil {
			continue
		}
		got, err := io.ReadAll(rd)
		switch e.Name() {
		case "P":
			vhAssert(err == nil && bytes.Equal(got, payload), "payload-stream-unchanged")
		case vhSigName:
			vhAssert(err == nil && bytes.Equal(got, sig), "signature-stream-reads-back")
		default:
			vhAssert(false, "no-other-stream-appears")
		}
	}
	// (b) independent walk
	c := &vhCfbCheck{file: out, used: map[int32]string{}, ok: true}
	var h Header
	binary.Read(bytes.NewReader(out[:512]), binary.LittleEndian, &h)
	vhAssert((len(out)-512)%vhWSector == 0, "file-is-whole-sectors")
	nsat := 0
	for _, m := range h.MSAT {
		if m >= 0 {
			nsat++
			tbl := make([]int32, vhWSector/4)
			binary.Read(bytes.NewReader(c.sector(int32(m))), binary.LittleEndian, tbl)
			c.sat = append(c.sat, tbl...)
		}
	}
	vhAssert(int(h.SATSectors) == nsat && h.MSATNextSector == SecIDEndOfChain && h.MSATSectorCount == 0, "header-counts-agree-with-the-tables")
	for _, m := range h.MSAT {
		if m >= 0 {
			vhAssert(int(m) < len(c.sat) && c.sat[m] == int32(SecIDSAT), "table-sector-marked-in-the-table")
			c.used[int32(m)] = "sat"
		}
	}
	dirChain := c.chain(int32(h.DirNextSector), "directory")
	var dir []RawDirEnt
	for _, s := range dirChain {
		var e RawDirEnt
		binary.Read(bytes.NewReader(c.sector(s)), binary.LittleEndian, &e)
		dir = append(dir, e)
	}
	vhAssert(len(dir) >= 1 && dir[0].Type == DirRoot, "root-entry-first")
	if len(dir) == 0 {
		return
	}
	c.chain(int32(h.SSATNextSector), "short-table")
	c.chain(int32(dir[0].NextSector), "mini-stream")
	for i, e := range dir {
		if e.Type == DirStream && e.StreamSize >= vhWMinStd {
			ch := c.chain(int32(e.NextSector), "stream")
			vhAssert(len(ch) == (int(e.StreamSize)+vhWSector-1)/vhWSector, "stream-chain-length-matches-size")
			_ = i
		}
	}
	vhAssert(c.ok, "chains-in-bounds-acyclic-and-disjoint")
	last := int32(-1)
	for s := range c.sat {
		if c.sat[s] != int32(SecIDFree) {
			last = int32(s)
			vhAssert(c.used[int32(s)] != "", "no-orphan-sectors-marked-in-use")
		}
	}
	vhAssert(len(out) == 512+vhWSector*int(last+1), "file-ends-after-the-last-used-sector")
	// directory tree of the root storage
	var walk func(i int32, depth int) (int, bool)
	count := 0
	walk = func(i int32, depth int) (int, bool) {
		if i == -1 {
			return 1, true
		}
		if i < 0 || int(i) >= len(dir) || depth > 8 {
			return 0, false
		}
		count++
		e := dir[i]
		lb, lok := walk(e.LeftChild, depth+1)
		rb, rok := walk(e.RightChild, depth+1)
		good := lok && rok && lb == rb
		for _, ch := range []int32{e.LeftChild, e.RightChild} {
			if ch >= 0 && int(ch) < len(dir) {
				d := dir[ch]
				if e.Color == Red && d.Color == Red {
					good = false
				}
				less := d.NameLength < e.NameLength || (d.NameLength == e.NameLength && vhNameLess(d, e))
				if (ch == e.LeftChild) != less {
					good = false
				}
			}
		}
		if e.Color == Black {
			lb++
		}
		return lb, good
	}
	_, treeOK := walk(dir[0].StorageRoot, 0)
	vhAssert(treeOK && count == 2, "root-directory-tree-is-an-ordered-red-black-tree-of-both-entries")
	if dir[0].StorageRoot >= 0 && int(dir[0].StorageRoot) < len(dir) {
		vhAssert(dir[dir[0].StorageRoot].Color == Black, "tree-root-is-black")
	}
	vhReach("written") // vh:require written
}

// directory order within one name length: upper-cased UTF-16 code units
func vhNameLess(a, b RawDirEnt) bool {
	for i := 0; i < 32; i++ {
		x, y := a.NameRunes[i], b.NameRunes[i]
		if x >= 'a' && x <= 'z' {
			x -= 32
		}
		if y >= 'a' && y <= 'z' {
			y -= 32
		}
		if x != y {
			return x < y
		}
	}
	return false
}

// registered under C03 and C08 as well: the payload stream keeps its bytes
// when the signature is added (C03) and when it is replaced by a second one
// of another size class (C08).
func VH_C03_CfbPayloadStreamKept() { VH_C18_SignatureInsertWholeFile() }
func VH_C08_CfbSignatureReplaced() { VH_C18_SignatureInsertWholeFile() }

// registered under C01 as well: a signature stream of any size class that
// relic stores must read back through relic's own reader (what MSI
// verification does first).
func VH_C01_MsiSignatureStreamReadsBack() { VH_C18_SignatureInsertWholeFile() }
