//go:build verif

package comdoc

import (
	"bytes"
	"os"
)

const vhSector = 16 // scaled sector: 4 table entries per sector

// an in-memory container state over a real (model) file: header area of 512
// bytes followed by nsec sectors; the allocation table has one symbolic entry
// per sector (free or anything else).
func vhDoc(nsec int) (*ComDoc, []SecID, []byte, string) {
	path := vhFSPath("doc.msi")
	content := vhBytes("file", 512+nsec*vhSector)
	vhFSPut(path, content)
	f, err := os.OpenFile(path, os.O_RDWR, 0)
	vhAssume(err == nil)
	sat := make([]SecID, nsec)
	for i := range sat {
		sat[i] = SecID(int32(vhU32("sat-entry")))
	}
	r := &ComDoc{File: f, writer: f, Header: new(Header), SectorSize: vhSector, ShortSectorSize: 4, FirstSector: 512,
		SAT: sat, sectorBuf: make([]byte, vhSector)}
	pre := append([]SecID{}, sat...)
	return r, pre, content, path
}

// H18.a (allocation step from an arbitrary table state): makeFreeSectors
// returns `count` distinct sectors, each free beforehand (or in the newly
// appended region), extends the table only by whole blocks of FREE entries and
// never touches an entry that was in use.
func VH_C18_MakeFreeSectors() {
	nsec := 4 * vhConcretize(vhInt("table-blocks", 0, 2), 4)
	r, pre, _, _ := vhDoc(nsec)
	count := vhConcretize(vhInt("count", 0, 6), 8)
	got := r.makeFreeSectors(count, false)
	vhAssert(len(got) == count || (count <= 0 && len(got) == 0), "returns-count-sectors")
	for i, a := range got {
		vhAssert(a >= 0 && int(a) < len(r.SAT), "sector-in-table")
		if int(a) < len(pre) {
			vhAssert(pre[a] == SecIDFree, "returned-sector-was-free")
		}
		for _, b := range got[:i] {
			vhAssert(a != b, "returned-sectors-distinct")
		}
	}
	vhAssert(len(r.SAT) >= len(pre) && (len(r.SAT)-len(pre))%(vhSector/4) == 0, "table-grows-by-whole-blocks")
	for i := range pre {
		vhAssert(r.SAT[i] == pre[i], "existing-entries-untouched")
	}
	for i := len(pre); i < len(r.SAT); i++ {
		vhAssert(r.SAT[i] == SecIDFree, "new-entries-free")
	}
	vhReach("allocated") // vh:require allocated
}

// H18.a (stream insertion): addStream builds a chain of exactly
// ceil(len/sector) sectors that were free, terminated by ENDOFCHAIN, writes
// the content there in order, and changes no byte of any sector that was in
// use (so every existing stream keeps its bytes).
func VH_C18_AddStream() {
	nsec := 4 * vhConcretize(vhInt("table-blocks", 1, 2), 4)
	r, pre, before, path := vhDoc(nsec)
	n := vhConcretize(vhInt("stream-bytes", 0, 2*vhSector+1), 64)
	data := vhBytes("stream", n)
	first, err := r.addStream(data, false)
	vhAssert(err == nil, "addstream-ok")
	if err != nil {
		return
	}
	after, _ := vhFSGet(path)
	need := (n + vhSector - 1) / vhSector
	// walk the new chain
	var chain []SecID
	for s := first; s >= 0; s = r.SAT[s] {
		vhAssert(int(s) < len(r.SAT), "chain-in-bounds")
		vhAssert(len(chain) <= need, "chain-acyclic-and-right-length")
		if len(chain) > need {
			return
		}
		chain = append(chain, s)
	}
	vhAssert(len(chain) == need, "chain-has-ceil-len-over-sector-sectors")
	if need == 0 {
		vhAssert(first == SecIDEndOfChain, "empty-stream-has-no-chain")
	}
	for k, s := range chain {
		// a sector in a chain is marked in use: its entry is the next sector
		// or, for the last one, exactly ENDOFCHAIN (never FREE)
		if k == len(chain)-1 {
			vhAssert(r.SAT[s] == SecIDEndOfChain, "chain-terminated-by-endofchain")
		} else {
			vhAssert(r.SAT[s] == chain[k+1], "chain-links-in-order")
		}
	}
	// nothing handed out by the next allocation may belong to the new chain
	again := r.makeFreeSectors(2, false)
	for _, a := range again {
		for _, s := range chain {
			vhAssert(a != s, "allocated-sectors-are-not-handed-out-again")
		}
	}
	var stored []byte
	for _, s := range chain {
		if int(s) < len(pre) {
			vhAssert(pre[s] == SecIDFree, "chain-uses-only-free-sectors")
		}
		off := 512 + int(s)*vhSector
		vhAssert(off+vhSector <= len(after), "sector-inside-the-file")
		if off+vhSector <= len(after) {
			stored = append(stored, after[off:off+vhSector]...)
		}
	}
	if len(stored) >= n {
		vhAssert(bytes.Equal(stored[:n], data), "content-stored-in-chain-order")
	}
	// sectors in use before keep their bytes and their table entries
	for i := range pre {
		if pre[i] != SecIDFree {
			vhAssert(r.SAT[i] == pre[i], "in-use-entry-unchanged")
			off := 512 + i*vhSector
			vhAssert(bytes.Equal(after[off:off+vhSector], before[off:off+vhSector]), "in-use-sector-bytes-unchanged")
		}
	}
	vhAssert(bytes.Equal(after[:512], before[:512]), "header-area-untouched-by-addstream")
	vhReach("added") // vh:require added
}

// freeSectors releases exactly the chain it is given.
func VH_C18_FreeSectors() {
	sat := []SecID{3, SecIDEndOfChain, SecIDFree, 1, 5, SecIDEndOfChain, SecIDSAT, SecIDFree}
	start := SecID(vhConcretize(vhInt("chain-start", 0, 1), 2) * 4) // 0 -> 0,3,1 ; 4 -> 4,5
	pre := append([]SecID{}, sat...)
	freeSectors(sat, start)
	inChain := map[int]bool{}
	for s := start; s >= 0; s = pre[s] {
		inChain[int(s)] = true
	}
	for i := range sat {
		if inChain[i] {
			vhAssert(sat[i] == SecIDFree, "chain-sector-freed")
		} else {
			vhAssert(sat[i] == pre[i], "other-sectors-untouched")
		}
	}
	vhReach("freed") // vh:require freed
}

// releasing an empty stream (first sector = ENDOFCHAIN) is a no-op
func VH_C18_FreeEmptyStream() {
	sat := []SecID{SecIDEndOfChain, SecIDFree, 0, SecIDSAT}
	pre := append([]SecID{}, sat...)
	freeSectors(sat, SecIDEndOfChain)
	for i := range sat {
		vhAssert(sat[i] == pre[i], "table-untouched")
	}
	vhReach("freed") // vh:require freed
}

// H18.tables: allocSectorTables from a table state on either side of the
// header's 109 MSAT slots (scaled sectors: 4 allocation-table entries, 3 MSAT
// entries per sector). Afterwards every allocation-table sector is listed in
// the MSAT, every MSAT entry has a slot in the header or in an MSAT sector
// (otherwise writeMSAT silently drops it and the tail of the table becomes
// unreachable), and the sectors taken for the tables are marked as such and
// distinct. Table contents are concrete (all in use but a symbolic number of
// free entries at the end); the counts are symbolic.
func VH_C18_AllocSectorTables() {
	vhMaxLen(1024)
	vhLoopBound(1200)
	const satPer, msatPer = vhSector / 4, vhSector/4 - 1
	satSectors := vhConcretize(vhInt("allocation-table-sectors", 107, 114), 120)
	listed := satSectors - vhConcretize(vhInt("table-sectors-not-yet-listed", 0, 2), 3)
	msatSectors := vhConcretize(vhInt("msat-sectors-present", 0, 2), 3)
	free := vhConcretize(vhInt("free-entries-at-the-end", 0, 3), 4)
	vhAssume(msatInHeader+msatSectors*msatPer >= listed) // the state before was consistent
	r := &ComDoc{Header: new(Header), SectorSize: vhSector, ShortSectorSize: 4, FirstSector: 512, sectorBuf: make([]byte, vhSector)}
	r.SAT = make([]SecID, satSectors*satPer)
	for i := range r.SAT {
		r.SAT[i] = SecIDEndOfChain
	}
	for i := 0; i < free; i++ {
		r.SAT[len(r.SAT)-1-i] = SecIDFree
	}
	for i := 0; i < listed; i++ {
		r.MSAT = append(r.MSAT, SecID(i))
	}
	for i := 0; i < msatSectors; i++ {
		r.msatList = append(r.msatList, SecID(200+i))
	}
	preMSAT, preList := len(r.MSAT), len(r.msatList)
	r.allocSectorTables()
	vhReach("allocated") // vh:require allocated
	vhAssert(len(r.SAT)%satPer == 0 && len(r.SAT)/satPer <= len(r.MSAT), "every-table-sector-listed-in-the-msat")
	vhAssert(msatInHeader+len(r.msatList)*msatPer >= len(r.MSAT), "every-msat-entry-has-a-slot")
	vhAssert(len(r.MSAT) >= preMSAT && len(r.msatList) >= preList, "tables-only-grow")
	seen := map[SecID]bool{}
	for _, s := range r.MSAT[preMSAT:] {
		vhAssert(s >= 0 && int(s) < len(r.SAT) && r.SAT[s] == SecIDSAT && !seen[s], "new-table-sector-marked-and-distinct")
		seen[s] = true
	}
	for _, s := range r.msatList[preList:] {
		vhAssert(s >= 0 && int(s) < len(r.SAT) && r.SAT[s] == SecIDMSAT && !seen[s], "new-msat-sector-marked-and-distinct")
		seen[s] = true
	}
}

// H18.replace / H03.cfb: replacing a stream (what re-signing an MSI does to
// the old signature) releases exactly that stream's chain, in the table its
// size places it in - the short-sector table below MinStdStreamSize, the
// sector table from MinStdStreamSize on - and touches neither the other table
// nor any other directory entry. Scaled: MinStdStreamSize 8; one-sector
// chain; both tables otherwise arbitrary.
func VH_C18_DeleteStreamFreesItsOwnChain() {
	const minStd = 8
	r := &ComDoc{Header: &Header{MinStdStreamSize: minStd}, SectorSize: vhSector, ShortSectorSize: 4}
	r.SAT = make([]SecID, 4)
	r.SSAT = make([]SecID, 4)
	for i := range r.SAT {
		r.SAT[i] = SecID(int32(vhU32("sat-entry")))
		r.SSAT[i] = SecID(int32(vhU32("ssat-entry")))
	}
	size := uint32(vhConcretize(vhInt("old-signature-bytes", minStd-1, minStd+1), 16))
	first := vhConcretize(vhInt("first-sector", 0, 3), 4)
	short := size < minStd
	if short {
		r.SSAT[first] = SecIDEndOfChain
	} else {
		r.SAT[first] = SecIDEndOfChain
	}
	preSAT := append([]SecID{}, r.SAT...)
	preSSAT := append([]SecID{}, r.SSAT...)
	r.Files = []DirEnt{
		{RawDirEnt: RawDirEnt{Type: DirRoot}, name: "Root Entry"},
		{RawDirEnt: RawDirEnt{Type: DirStream, StreamSize: size, NextSector: SecID(first)}, Index: 1, name: "\x05DigitalSignature"},
		{RawDirEnt: RawDirEnt{Type: DirStream, StreamSize: 3, NextSector: 2}, Index: 2, name: "Payload"},
	}
	r.rootFiles = []int{1, 2}
	other := r.Files[2]
	err := r.DeleteFile("\x05DigitalSignature")
	vhAssert(err == nil, "stream-can-be-replaced")
	vhReach("deleted") // vh:require deleted
	vhAssert(len(r.rootFiles) == 1 && r.rootFiles[0] == 2, "only-that-stream-leaves-the-directory")
	vhAssert(r.Files[2].StreamSize == other.StreamSize && r.Files[2].NextSector == other.NextSector && r.Files[2].name == other.name && r.Files[2].Type == other.Type, "other-entries-untouched")
	for i := range preSAT {
		if !short && i == first {
			vhAssert(r.SAT[i] == SecIDFree, "its-sector-released")
		} else {
			vhAssert(r.SAT[i] == preSAT[i], "sector-table-otherwise-untouched")
		}
		if short && i == first {
			vhAssert(r.SSAT[i] == SecIDFree, "its-short-sector-released")
		} else {
			vhAssert(r.SSAT[i] == preSSAT[i], "short-sector-table-otherwise-untouched")
		}
	}
}

// H03.cfb: the same decision registered under C03 - every pre-existing
// stream keeps its bytes because replacing the signature stream releases
// only the signature's own sectors (a sector released in the wrong table is
// handed to the next stream written and overwritten).
func VH_C03_CfbReplaceKeepsOtherStreams() { VH_C18_DeleteStreamFreesItsOwnChain() }

// H03.cfb-alloc: registered under C03 as well (its mechanism "streams are
// added through sector allocation that only uses free sectors").
func VH_C03_CfbAddStreamUsesFreeSectors() { VH_C18_AddStream() }
