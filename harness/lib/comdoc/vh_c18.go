//go:build verif

package comdoc

import (
	"bytes"
	"os"
)

const vhSector = 16 // scaled sector: 4 table entries per sector

// an in-memory container state over a real (model) file: header area of 512
// bytes followed by nsec sectors; the allocation table has one symbolic entry
// per sector (free or anything else).
func vhDoc(nsec int) (*ComDoc, []SecID, []byte, string) {
	path := vhFSPath("doc.msi")
	content := vhBytes("file", 512+nsec*vhSector)
	vhFSPut(path, content)
	f, err := os.OpenFile(path, os.O_RDWR, 0)
	vhAssume(err == nil)
	sat := make([]SecID, nsec)
	for i := range sat {
		sat[i] = SecID(int32(vhU32("sat-entry")))
	}
	r := &ComDoc{File: f, writer: f, Header: new(Header), SectorSize: vhSector, ShortSectorSize: 4, FirstSector: 512,
		SAT: sat, sectorBuf: make([]byte, vhSector)}
	pre := append([]SecID{}, sat...)
	return r, pre, content, path
}

// H18.a (allocation step from an arbitrary table state): makeFreeSectors
// returns `count` distinct sectors, each free beforehand (or in the newly
// appended region), extends the table only by whole blocks of FREE entries and
// never touches an entry that was in use.
func VH_C18_MakeFreeSectors() {
	nsec := 4 * vhConcretize(vhInt("table-blocks", 0, 2), 4)
	r, pre, _, _ := vhDoc(nsec)
	count := vhConcretize(vhInt("count", 0, 6), 8)
	got := r.makeFreeSectors(count, false)
	vhAssert(len(got) == count || (count <= 0 && len(got) == 0), "returns-count-sectors")
	for i, a := range got {
		vhAssert(a >= 0 && int(a) < len(r.SAT), "sector-in-table")
		if int(a) < len(pre) {
			vhAssert(pre[a] == SecIDFree, "returned-sector-was-free")
		}
		for _, b := range got[:i] {
			vhAssert(a != b, "returned-sectors-distinct")
		}
	}
	vhAssert(len(r.SAT) >= len(pre) && (len(r.SAT)-len(pre))%(vhSector/4) == 0, "table-grows-by-whole-blocks")
	for i := range pre {
		vhAssert(r.SAT[i] == pre[i], "existing-entries-untouched")
	}
	for i := len(pre); i < len(r.SAT); i++ {
		vhAssert(r.SAT[i] == SecIDFree, "new-entries-free")
	}
	vhReach("allocated") // vh:require allocated
}

// H18.a (stream insertion): addStream builds a chain of exactly
// ceil(len/sector) sectors that were free, terminated by ENDOFCHAIN, writes
// the content there in order, and changes no byte of any sector that was in
// use (so every existing stream keeps its bytes).
func VH_C18_AddStream() {
	nsec := 4 * vhConcretize(vhInt("table-blocks", 1, 2), 4)
	r, pre, before, path := vhDoc(nsec)
	n := vhConcretize(vhInt("stream-bytes", 0, 2*vhSector+1), 64)
	data := vhBytes("stream", n)
	first, err := r.addStream(data, false)
	vhAssert(err == nil, "addstream-ok")
	if err != nil {
		return
	}
	after, _ := vhFSGet(path)
	need := (n + vhSector - 1) / vhSector
	// walk the new chain
	var chain []SecID
	for s := first; s >= 0; s = r.SAT[s] {
		vhAssert(int(s) < len(r.SAT), "chain-in-bounds")
		vhAssert(len(chain) <= need, "chain-acyclic-and-right-length")
		if len(chain) > need {
			return
		}
		chain = append(chain, s)
	}
	vhAssert(len(chain) == need, "chain-has-ceil-len-over-sector-sectors")
	if need == 0 {
		vhAssert(first == SecIDEndOfChain, "empty-stream-has-no-chain")
	}
	for k, s := range chain {
		// a sector in a chain is marked in use: its entry is the next sector
		// or, for the last one, exactly ENDOFCHAIN (never FREE)
		if k == len(chain)-1 {
			vhAssert(r.SAT[s] == SecIDEndOfChain, "chain-terminated-by-endofchain")
		} else {
			vhAssert(r.SAT[s] == chain[k+1], "chain-links-in-order")
		}
	}
	// nothing handed out by the next allocation may belong to the new chain
	again := r.makeFreeSectors(2, false)
	for _, a := range again {
		for _, s := range chain {
			vhAssert(a != s, "allocated-sectors-are-not-handed-out-again")
		}
	}
	var stored []byte
	for _, s := range chain {
		if int(s) < len(pre) {
			vhAssert(pre[s] == SecIDFree, "chain-uses-only-free-sectors")
		}
		off := 512 + int(s)*vhSector
		vhAssert(off+vhSector <= len(after), "sector-inside-the-file")
		if off+vhSector <= len(after) {
			stored = append(stored, after[off:off+vhSector]...)
		}
	}
	if len(stored) >= n {
		vhAssert(bytes.Equal(stored[:n], data), "content-stored-in-chain-order")
	}
	// sectors in use before keep their bytes and their table entries
	for i := range pre {
		if pre[i] != SecIDFree {
			vhAssert(r.SAT[i] == pre[i], "in-use-entry-unchanged")
			off := 512 + i*vhSector
			vhAssert(bytes.Equal(after[off:off+vhSector], before[off:off+vhSector]), "in-use-sector-bytes-unchanged")
		}
	}
	vhAssert(bytes.Equal(after[:512], before[:512]), "header-area-untouched-by-addstream")
	vhReach("added") // vh:require added
}

// freeSectors releases exactly the chain it is given.
func VH_C18_FreeSectors() {
	sat := []SecID{3, SecIDEndOfChain, SecIDFree, 1, 5, SecIDEndOfChain, SecIDSAT, SecIDFree}
	start := SecID(vhConcretize(vhInt("chain-start", 0, 1), 2) * 4) // 0 -> 0,3,1 ; 4 -> 4,5
	pre := append([]SecID{}, sat...)
	freeSectors(sat, start)
	inChain := map[int]bool{}
	for s := start; s >= 0; s = pre[s] {
		inChain[int(s)] = true
	}
	for i := range sat {
		if inChain[i] {
			vhAssert(sat[i] == SecIDFree, "chain-sector-freed")
		} else {
			vhAssert(sat[i] == pre[i], "other-sectors-untouched")
		}
	}
	vhReach("freed") // vh:require freed
}

// releasing an empty stream (first sector = ENDOFCHAIN) is a no-op
func VH_C18_FreeEmptyStream() {
	sat := []SecID{SecIDEndOfChain, SecIDFree, 0, SecIDSAT}
	pre := append([]SecID{}, sat...)
	freeSectors(sat, SecIDEndOfChain)
	for i := range sat {
		vhAssert(sat[i] == pre[i], "table-untouched")
	}
	vhReach("freed") // vh:require freed
}

// H18.tables: allocSectorTables from a table state on either side of the
// header's 109 MSAT slots (scaled sectors: 4 allocation-table entries, 3 MSAT
// entries per sector). Afterwards every allocation-table sector is listed in
// the MSAT, every MSAT entry has a slot in the header or in an MSAT sector
// (otherwise writeMSAT silently drops it and the tail of the table becomes
// unreachable), and the sectors taken for the tables are marked as such and
// distinct. Table contents are concrete (all in use but a symbolic number of
// free entries at the end); the counts are symbolic.
func VH_C18_AllocSectorTables() {
	vhMaxLen(1024)
	vhLoopBound(1200)
	const satPer, msatPer = vhSector / 4, vhSector/4 - 1
	satSectors := vhConcretize(vhInt("allocation-table-sectors", 107, 114), 120)
	listed := satSectors - vhConcretize(vhInt("table-sectors-not-yet-listed", 0, 2), 3)
	msatSectors := vhConcretize(vhInt("msat-sectors-present", 0, 2), 3)
	free := vhConcretize(vhInt("free-entries-at-the-end", 0, 3), 4)
	vhAssume(msatInHeader+msatSectors*msatPer >= listed) // the state before was consistent
	r := &ComDoc{Header: new(Header), SectorSize: vhSector, ShortSectorSize: 4, FirstSector: 512, sectorBuf: make([]byte, vhSector)}
	r.SAT = make([]SecID, satSectors*satPer)
	for i := range r.SAT {
		r.SAT[i] = SecIDEndOfChain
	}
	for i := 0; i < free; i++ {
		r.SAT[len(r.SAT)-1-i] = SecIDFree
	}
	for i := 0; i < listed; i++ {
		r.MSAT = append(r.MSAT, SecID(i))
	}
	for i := 0; i < msatSectors; i++ {
		r.msatList = append(r.msatList, SecID(200+i))
	}
	preMSAT, preList := len(r.MSAT), len(r.msatList)
	r.allocSectorTables()
	vhReach("allocated") // vh:require allocated
	vhAssert(len(r.SAT)%satPer == 0 && len(r.SAT)/satPer <= len(r.MSAT), "every-table-sector-listed-in-the-msat")
	vhAssert(msatInHeader+len(r.msatList)*msatPer >= len(r.MSAT), "every-msat-entry-has-a-slot")
	vhAssert(len(r.MSAT) >= preMSAT && len(r.msatList) >= preList, "tables-only-grow")
	seen := map[SecID]bool{}
	for _, s := range r.MSAT[preMSAT:] {
		vhAssert(s >= 0 && int(s) < len(r.SAT) && r.SAT[s] == SecIDSAT && !seen[s], "new-table-sector-marked-and-distinct")
		seen[s] = true
	}
	for _, s := range r.msatList[preList:] {
		vhAssert(s >= 0 && int(s) < len(r.SAT) && r.SAT[s] == SecIDMSAT && !seen[s], "new-msat-sector-marked-and-distinct")
		seen[s] = true
	}
}
