//go:build verif

package comdoc

import (
	"bytes"
	"encoding/binary"
)

// H11.cfb: opening an arbitrary compound file and listing / reading what it
// claims to contain never panics, hangs or allocates by an unchecked header
// field. Layout under test: 512-byte header, sector size 128 (one directory
// entry per sector), nsec sectors. Fixed to keep the path count finite: the
// sector-size field, no extra MSAT sectors, only the first MSAT slot used,
// directory names of at most one character. Everything else - all chain
// pointers, counts, sizes, tree links, table contents - is symbolic.
func vhCfb(nsec int) []byte {
	n := 512 + 128*nsec
	vhMaxLen(n + 8)
	b := vhBytes("cfb", n)
	for i, m := range fileMagic {
		vhAssume(b[i] == m)
	}
	le16 := func(off int) uint16 { return binary.LittleEndian.Uint16(b[off:]) }
	le32 := func(off int) uint32 { return binary.LittleEndian.Uint32(b[off:]) }
	vhAssume(le16(28) == byteOrderMarker)
	vhAssume(le16(30) == 7)                      // sector size 2^7
	vhAssume(le16(32) <= 6)                      // short sector size
	vhAssume(le32(68) == 0xfffffffe)             // no MSAT sectors beyond the header
	for i := 1; i < msatInHeader; i++ {
		vhAssume(le32(76+4*i) == 0xffffffff)
	}
	for s := 0; s < nsec; s++ {
		// whichever sector is used as a directory sector: name length 0..4 bytes
		vhAssume(le16(512+128*s+64) <= 4)
	}
	return b
}

func VH_C11_CfbOpen() {
	nsec := vhConcretize(vhInt("sectors", 0, 1), 4)
	b := vhCfb(nsec)
	vhAllocLimit(4<<20 + 16*len(b))
	vhLoopBound(140)
	doc, err := ReadFile(bytes.NewReader(b))
	if err != nil {
		vhReach("rejected") // vh:require rejected
		return
	}
	vhReach("opened") // vh:require opened
	// what a verifier / the tar transform does next: list and read streams
	files, err := doc.ListDir(nil)
	if err != nil {
		return
	}
	for _, f := range files {
		if f.Type != DirStream {
			continue
		}
		r, err := doc.ReadStream(f)
		if err != nil {
			continue
		}
		buf := make([]byte, 8)
		for i := 0; i < 4; i++ {
			if _, err := r.Read(buf); err != nil {
				break
			}
		}
	}
	vhReach("listed")
}
