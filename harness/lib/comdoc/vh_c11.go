//go:build verif

package comdoc

import (
	"bytes"
	"encoding/binary"
)

// H11.cfb: opening an arbitrary compound file and listing / reading what it
// claims to contain never panics, hangs or allocates by an unchecked header
// field. Layout under test: 512-byte header, sector size 128 (one directory
// entry per sector), nsec sectors. Fixed to keep the path count finite: the
// sector-size field, no extra MSAT sectors, only the first MSAT slot used,
// directory names of at most one character. Everything else - all chain
// pointers, counts, sizes, tree links, table contents - is symbolic.
func vhCfb(nsec int) []byte {
	n := 512 + 128*nsec
	vhMaxLen(n + 8)
	b := vhBytes("cfb", n)
	// fixed bytes are assigned, not assumed: they become constants for the
	// solver and the native replay overwrites the tape's bytes the same way
	copy(b, fileMagic)
	binary.LittleEndian.PutUint16(b[28:], byteOrderMarker)
	binary.LittleEndian.PutUint16(b[30:], 7) // sector size 2^7
	b[32] &= 3                               // short sector size 2^0..2^3
	b[33] = 0
	binary.LittleEndian.PutUint32(b[68:], 0xfffffffe) // no MSAT sectors beyond the header
	for i := 1; i < msatInHeader; i++ {
		binary.LittleEndian.PutUint32(b[76+4*i:], 0xffffffff)
	}
	for s := 0; s < nsec; s++ {
		// whichever sector is used as a directory sector: name length 0..3 bytes
		b[512+128*s+64] &= 3
		b[512+128*s+65] = 0
	}
	return b
}

// H11.cfb (see vhCfb for the layout): ReadFile, ListDir and stream reads on
// an arbitrary compound file of 0..1 sectors never panic, loop beyond the
// table length or allocate by a header count.
func VH_C11_CfbOpen() {
	nsec := vhConcretize(vhInt("sectors", 0, 1), 4)
	b := vhCfb(nsec)
	vhAllocLimit(4<<20 + 16*len(b))
	vhLoopBound(140)
	// chain and tree walks: anything longer than the file has sectors / entries is a loop
	for _, fn := range []string{"readDir", "readShortSAT", "ListDir", "readShortSector", "Read"} {
		// one allocation-table sector describes 32 sectors; an inner loop header
		// (one directory entry per sector) is visited twice per outer round
		vhLoopBoundIn(fn, 2*(32*nsec+4))
	}
	doc, err := ReadFile(bytes.NewReader(b))
	if err != nil {
		vhReach("rejected") // vh:require rejected
		return
	}
	vhReach("opened") // vh:require opened
	// what a verifier / the tar transform does next: list and read streams
	files, err := doc.ListDir(nil)
	if err != nil {
		return
	}
	for _, f := range files {
		if f.Type != DirStream {
			continue
		}
		r, err := doc.ReadStream(f)
		if err != nil {
			continue
		}
		buf := make([]byte, 8)
		for i := 0; i < 4; i++ {
			if _, err := r.Read(buf); err != nil {
				break
			}
		}
	}
	vhReach("listed")
}

// H11.cfb-msat: the chain of extra MSAT sectors (the header's 109 slots are
// all free here). Each MSAT sector contributes SectorSize/4-1 allocation-table
// sector numbers and one pointer to the next MSAT sector; a chain that points
// back at itself must be refused, not followed while the table grows. Fixed:
// entries 2..30 of every sector are free (-1) so the allocation table built
// from them stays small; the first two entries and the next pointer are free.
func VH_C11_CfbMsatChain()   { vhCfbMsatChain(1, 1) }
func VH_C11_CfbMsatChain_T() { vhCfbMsatChain(2, 2) }

func vhCfbMsatChain(lo, hi int) {
	nsec := vhConcretize(vhInt("sectors", lo, hi), 4)
	n := 512 + 128*nsec
	vhMaxLen(n + 8)
	b := vhBytes("cfb", n)
	copy(b, fileMagic)
	binary.LittleEndian.PutUint16(b[28:], byteOrderMarker)
	binary.LittleEndian.PutUint16(b[30:], 7)
	b[32] &= 3
	b[33] = 0
	for i := 0; i < msatInHeader; i++ {
		binary.LittleEndian.PutUint32(b[76+4*i:], 0xffffffff)
	}
	for s := 0; s < nsec; s++ {
		for i := 2; i < 31; i++ {
			binary.LittleEndian.PutUint32(b[512+128*s+4*i:], 0xffffffff)
		}
	}
	vhAllocLimit(4<<20 + 16*len(b))
	vhLoopBound(400)
	// the trim loop walks the whole table: 109 header slots + 31 per MSAT sector
	vhLoopBoundIn("readMSAT", msatInHeader+31*nsec+8)
	_, err := ReadFile(bytes.NewReader(b))
	if err != nil {
		vhReach("rejected") // vh:require rejected
		return
	}
	vhReach("opened")
}

// H11.cfb-chain: the one step every sector-chain walker (directory, short SAT,
// short-sector container, stream reader) takes: for any table, any sector
// number (negative, inside, exactly at the end, beyond) and any step count it
// returns the table's entry for a sector inside the table, or an error; it
// never indexes outside the table and never lets a walk outlast the table.
func VH_C11_CfbChainNext() {
	n := vhConcretize(vhInt("table-entries", 0, 3), 4)
	sat := make([]SecID, n)
	for i := range sat {
		sat[i] = SecID(vhU32("entry"))
	}
	sector := SecID(vhU32("sector"))
	steps := vhInt("links-followed-so-far", 0, 5)
	before := steps
	next, err := chainNext(sat, sector, &steps)
	if err == nil {
		vhReach("stepped") // vh:require stepped
		vhAssert(sector >= 0 && int(sector) < n, "only-sectors-inside-the-table-are-followed")
		vhAssert(next == sat[vhConcretize(int(sector), 4)], "next-is-the-table-entry")
		vhAssert(steps == before+1 && steps <= n, "walk-cannot-outlast-the-table")
	} else {
		vhReach("refused") // vh:require refused
	}
}
