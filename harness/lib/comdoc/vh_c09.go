//go:build verif

package comdoc

import (
	"bytes"
	"io"
)

// H09.cfbstream: a compound-file stream read with any sequence of
// destination buffer sizes delivers exactly StreamSize bytes of its sector
// chain, in order (sector size scaled to 4; chain of 3 sectors stored out of
// order in the file).
func VH_C09_CfbStreamReads() {
	const sz = 4
	file := vhBytes("sectors", 3*sz) // sector ids 0,1,2
	// chain 2 -> 0 -> 1
	sat := []SecID{1, SecIDEndOfChain, 0}
	order := []int{2, 0, 1}
	var logical []byte
	for _, s := range order {
		logical = append(logical, file[s*sz:s*sz+sz]...)
	}
	maxSize := 2*sz + 1
	if vhTier() > 0 {
		maxSize = 3 * sz
	}
	size := vhConcretize(vhInt("stream-size", 0, maxSize), 16)
	sr := &streamReader{remaining: uint32(size), nextSector: 2, sat: sat, sectorSize: sz, buf: make([]byte, sz)}
	sr.readSector = func(s SecID, buf []byte) (int, error) {
		return copy(buf, file[int(s)*sz:int(s)*sz+sz]), nil
	}
	var got []byte
	for i := 0; i < 3*sz+2; i++ {
		k := vhConcretize(vhInt("read-size", 1, sz+2), 8)
		buf := make([]byte, k)
		n, err := sr.Read(buf)
		vhAssert(n <= k, "read-count-within-buffer")
		got = append(got, buf[:n]...)
		if err == io.EOF {
			break
		}
		vhAssert(err == nil, "no-error-before-eof")
		if err != nil {
			return
		}
		vhAssert(n > 0, "progress-on-every-read")
		if n == 0 {
			return
		}
	}
	vhAssert(bytes.Equal(got, logical[:size]), "stream-bytes-in-chain-order-independent-of-read-sizes")
	vhReach("read") // vh:require read
}
