//go:build verif

package atomicfile

import "os"

func vhOpenRW(path string) (*os.File, error) { return os.OpenFile(path, os.O_RDWR, 0) }
