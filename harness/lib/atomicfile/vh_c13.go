//go:build verif

package atomicfile

import "bytes"

// H13.a: WriteFile (create temp, write, chmod, close, unlink, rename) killed
// before any file-system step: the destination holds exactly OLD or exactly
// NEW, and never disappears if it existed.
func VH_C13_WriteFileCrash() {
	dest := vhFSPath("out.bin")
	existed := vhBool("dest-existed")
	old := vhBytes("old", vhInt("oldlen", 0, 2))
	if existed {
		vhFSPut(dest, old)
	}
	data := vhBytes("new", vhInt("newlen", 0, 3))
	var err error
	crashed := vhCrashRun(vhInt("crash-step", 0, 8), func() {
		err = WriteFile(dest, data)
	})
	got, ok := vhFSGet(dest)
	if crashed {
		vhReach("crashed") // vh:require crashed
		if existed {
			vhAssert(ok, "destination-never-missing-after-crash")
		}
		if ok {
			vhAssert(bytes.Equal(got, data) || (existed && bytes.Equal(got, old)), "destination-old-or-new-after-crash")
		}
	} else {
		vhReach("completed") // vh:require completed
		vhAssert(err == nil, "writefile-ok")
		vhAssert(ok && bytes.Equal(got, data), "destination-is-new")
		vhAssert(vhFSCountPrefix(dest+".tmp") == 0, "no-temp-left")
	}
}

// H13.b: handled errors (any OS call may fail): afterwards no temporary file
// remains, and the destination is OLD or NEW.
func VH_C13_WriteFileFaults() {
	dest := vhFSPath("out.bin")
	existed := vhBool("dest-existed")
	old := vhBytes("old", vhInt("oldlen", 0, 2))
	if existed {
		vhFSPut(dest, old)
	}
	data := vhBytes("new", vhInt("newlen", 0, 3))
	vhFSFaults(true)
	err := WriteFile(dest, data)
	vhFSFaults(false)
	got, ok := vhFSGet(dest)
	vhReach("returned") // vh:require returned
	vhAssert(vhFSCountPrefix(dest+".tmp") == 0, "no-temp-left-after-error")
	if err == nil {
		vhAssert(ok && bytes.Equal(got, data), "success-means-new-content")
	}
	if ok {
		vhAssert(bytes.Equal(got, data) || (existed && bytes.Equal(got, old)), "destination-old-or-new")
	}
	if existed {
		vhAssert(ok, "destination-never-missing-after-error")
	}
}

// H13.c: WriteInPlace(src, dest) with dest != src: copy-then-edit strategy
// (MSI, PGP). Killed at any step: dest is OLD or complete; src untouched.
func VH_C13_WriteInPlaceCrash() {
	srcPath := vhFSPath("in.bin")
	dest := vhFSPath("out.bin")
	srcData := vhBytes("src", vhInt("srclen", 0, 3))
	vhFSPut(srcPath, srcData)
	existed := vhBool("dest-existed")
	old := vhBytes("old", vhInt("oldlen", 0, 2))
	if existed {
		vhFSPut(dest, old)
	}
	extra := vhBytes("edit", 1)
	var err error
	crashed := vhCrashRun(vhInt("crash-step", 0, 10), func() {
		src, e := vhOpenRW(srcPath)
		if e != nil {
			err = e
			return
		}
		f, e := WriteInPlace(src, dest)
		if e != nil {
			err = e
			return
		}
		// the edit a signer makes on the copy
		if _, e := f.WriteAt(extra, 0); e != nil {
			f.Close()
			err = e
			return
		}
		err = f.Commit()
	})
	got, ok := vhFSGet(dest)
	in2, _ := vhFSGet(srcPath)
	vhAssert(bytes.Equal(in2, srcData), "input-untouched")
	want := append([]byte{}, srcData...)
	if len(want) == 0 {
		want = append(want, extra[0])
	} else {
		want[0] = extra[0]
	}
	if crashed {
		vhReach("crashed") // vh:require crashed
		if existed {
			vhAssert(ok, "destination-never-missing-after-crash")
		}
		if ok {
			vhAssert(bytes.Equal(got, want) || (existed && bytes.Equal(got, old)), "destination-old-or-new-after-crash")
		}
	} else {
		vhReach("completed") // vh:require completed
		vhAssert(err == nil, "ok")
		vhAssert(ok && bytes.Equal(got, want), "destination-is-new")
		vhAssert(vhFSCountPrefix(dest+".tmp") == 0, "no-temp-left")
	}
}

// H13.d: WriteInPlace with handled errors: no temp file remains.
func VH_C13_WriteInPlaceFaults() {
	srcPath := vhFSPath("in.bin")
	dest := vhFSPath("out.bin")
	srcData := vhBytes("src", vhInt("srclen", 0, 3))
	vhFSPut(srcPath, srcData)
	src, e := vhOpenRW(srcPath)
	vhAssume(e == nil)
	vhFSFaults(true)
	f, err := WriteInPlace(src, dest)
	if err == nil {
		// documented usage (signers/msi): defer f.Close(); ...; return f.Commit()
		err = f.Commit()
		f.Close()
	}
	vhFSFaults(false)
	vhReach("returned") // vh:require returned
	vhAssert(vhFSCountPrefix(dest+".tmp") == 0, "no-temp-left-after-error")
	_ = err
}

// H13.e: the output path is a symbolic link to the existing regular file (a
// "current" link into a versioned store). WriteAny-based output - killed at
// any file-system step, or hit by any handled OS failure - still leaves the
// path holding exactly OLD or exactly NEW: the link is not written through.
func VH_C13_WriteAnyThroughSymlink() {
	target := vhFSPath("store-out-v1.bin")
	dest := vhFSPath("out.bin")
	old := vhBytes("old", vhInt("oldlen", 1, 2))
	vhFSPut(target, old)
	vhFSSymlink(target, dest)
	data := vhBytes("new", vhInt("newlen", 0, 3))
	var err error
	write := func() {
		var f AtomicFile
		f, err = WriteAny(dest)
		if err != nil {
			return
		}
		if _, err = f.Write(data); err != nil {
			f.Close()
			return
		}
		err = f.Commit()
		f.Close()
	}
	crashed := false
	if vhBool("killed") {
		crashed = vhCrashRun(vhInt("crash-step", 0, 8), write)
	} else {
		vhFSFaults(true)
		write()
		vhFSFaults(false)
	}
	got, ok := vhFSGet(dest)
	vhReach("returned") // vh:require returned
	vhAssert(ok, "destination-never-missing")
	if ok {
		vhAssert(bytes.Equal(got, data) || bytes.Equal(got, old), "destination-old-or-new")
	}
	if !crashed {
		vhAssert(vhFSCountPrefix(dest+".tmp") == 0, "no-temp-left")
		if err == nil {
			vhAssert(ok && bytes.Equal(got, data), "success-means-new-content")
		}
	}
}
