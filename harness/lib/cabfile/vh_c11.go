//go:build verif

package cabfile

import (
	"bytes"
	"crypto"
	_ "crypto/sha256"
)

// H11.cab: Digest/Parse on an arbitrary byte string: error or result, no
// panic, no allocation sized by an unchecked header field, loops bounded by
// the input size. Layout: 36-byte header, optional 4-byte reserve header,
// 20-byte signature header, padding, 8-byte folder headers, data, signature.
func VH_C11_CabDigest() {
	var n int
	if vhTier() > 0 {
		n = vhConcretize(vhInt("len", 0, 76), 80)
	} else {
		// quick: lengths on both sides of every fixed-size structure boundary
		lens := []int{0, 35, 36, 39, 40, 59, 60, 62, 68, 70}
		n = lens[vhConcretize(vhInt("lenidx", 0, len(lens)-1), 16)]
	}
	vhMaxLen(n + 2)
	b := vhBytes("cab", n)
	vhAllocLimit(4<<20 + 16*len(b))
	vhLoopBound(len(b) + 16)
	d, err := Digest(bytes.NewReader(b), crypto.SHA256)
	if err == nil {
		vhReach("accepted") // vh:require accepted
		vhAssert(d != nil && d.Cabinet != nil, "result-non-nil")
	} else {
		vhReach("rejected") // vh:require rejected
	}
}
