//go:build verif

package cabfile

import (
	"bytes"
	"crypto"
)

// H02.cab: changing any byte of a cabinet outside the fields the format
// leaves unsigned (Reserved1, CabNumber; for a signed file also the
// signature area bookkeeping and the signature itself) changes the content
// digest or makes the parser reject the file - it never yields the same
// imprint (hash modelled injective), so the comparison with the signed
// digest fails.
func VH_C02_CabTamper() {
	vhMaxLen(200)
	nf := vhConcretize(vhInt("folders", 0, 1), 2)
	d := vhConcretize(vhInt("datalen", 0, 3), 4)
	x, _, _ := vhCab(false, nf, d, 0)
	dx, err := Digest(bytes.NewReader(x), crypto.SHA256)
	vhAssume(err == nil)
	p := vhConcretize(vhInt("position", 0, len(x)-1), 64)
	unsigned := (p >= 4 && p < 8) || (p >= 34 && p < 36)
	vhAssume(!unsigned)
	y := append([]byte{}, x...)
	y[p] = vhU8("newbyte")
	vhAssume(y[p] != x[p])
	dy, err := Digest(bytes.NewReader(y), crypto.SHA256)
	if err != nil {
		vhReach("tampered-file-rejected")
		return
	}
	vhReach("tampered-file-parsed") // vh:require tampered-file-parsed
	vhAssert(!bytes.Equal(dx.Imprint, dy.Imprint), "protected-byte-change-changes-the-digest")
}

// the unsigned fields really are outside the digest (so re-numbering a
// cabinet set does not invalidate signatures): documents the protected set.
func VH_C02_CabUnsignedFields() {
	vhMaxLen(200)
	x, _, _ := vhCab(false, 1, 2, 0)
	dx, err := Digest(bytes.NewReader(x), crypto.SHA256)
	vhAssume(err == nil)
	y := append([]byte{}, x...)
	for _, p := range []int{4, 5, 6, 7, 34, 35} {
		y[p] = vhU8("newbyte")
	}
	dy, err := Digest(bytes.NewReader(y), crypto.SHA256)
	vhAssert(err == nil, "still-parses")
	if err == nil {
		vhAssert(bytes.Equal(dx.Imprint, dy.Imprint), "reserved1-and-cabnumber-are-not-digested")
	}
	vhReach("compared") // vh:require compared
}
