//go:build verif

package cabfile

import (
	"bytes"
	"crypto"
	"encoding/binary"

	"github.com/sassoftware/relic/v8/lib/binpatch"
)

// reference application of a patch set (semantics established by C12)
func vhApply(x []byte, p *binpatch.PatchSet) []byte {
	var out []byte
	pos := int64(0)
	for i, h := range p.Patches {
		out = append(out, x[pos:h.Offset]...)
		out = append(out, p.Blobs[i]...)
		pos = h.Offset + int64(h.OldSize)
	}
	return append(out, x[pos:]...)
}

func vhPut32(b []byte, off int, v uint32) { binary.LittleEndian.PutUint32(b[off:], v) }
func vhPut16(b []byte, off int, v uint16) { binary.LittleEndian.PutUint16(b[off:], v) }
func vhGet32(b []byte, off int) uint32    { return binary.LittleEndian.Uint32(b[off:]) }

// a well-formed single-part cabinet with nf folders and d data bytes. kind:
// 0 = unsigned, no reserve area; 1 = carrying an s-byte signature;
// 2 = unsigned with a pre-reserved, zero-filled signature area that is `pad`
// bytes larger than the signature header (as some build tools emit).
// Every byte not fixed by the format is symbolic.
func vhCabKind(kind, nf, d, s, pad int) (x []byte, foldersAt, dataAt int) {
	hdr := 36
	if kind != 0 {
		hdr += 4 + 20
	}
	if kind == 2 {
		hdr += pad
	}
	n := hdr + 8*nf + d
	total := n
	if kind == 1 {
		n += s
	}
	x = vhBytes("cab", n)
	vhAssume(vhGet32(x, 0) == Magic)
	vhAssume(vhGet32(x, 8) == uint32(total))     // cbCabinet
	vhAssume(vhGet32(x, 16) == uint32(hdr+8*nf)) // coffFiles
	vhAssume(binary.LittleEndian.Uint16(x[26:]) == uint16(nf))
	flags := uint16(0)
	switch kind {
	case 1:
		flags = uint16(FlagReservePresent)
		vhAssume(binary.LittleEndian.Uint16(x[36:]) == 20 && x[38] == 0 && x[39] == 0) // cbCFHeader, cbCFFolder, cbCFData
		vhAssume(vhGet32(x, 44) == uint32(total))                                      // signature header: cabinet size
		vhAssume(vhGet32(x, 48) == uint32(s))                                          // signature size
	case 2:
		flags = uint16(FlagReservePresent)
		vhAssume(binary.LittleEndian.Uint16(x[36:]) == uint16(20+pad) && x[38] == 0 && x[39] == 0)
		vhAssume(vhGet32(x, 44) == 0) // no signature yet
		for i := 0; i < pad; i++ {
			vhAssume(x[60+i] == 0)
		}
	}
	vhAssume(binary.LittleEndian.Uint16(x[30:]) == flags)
	foldersAt = hdr
	dataAt = hdr + 8*nf
	for i := 0; i < nf; i++ {
		vhAssume(vhGet32(x, foldersAt+8*i) == uint32(dataAt)) // coffCabStart of each folder
	}
	return
}

func vhCab(signed bool, nf, d, s int) (x []byte, foldersAt, dataAt int) {
	if signed {
		return vhCabKind(1, nf, d, s, 0)
	}
	return vhCabKind(0, nf, d, s, 0)
}

func vhPad8(sig []byte) []byte {
	p := make([]byte, (len(sig)+7)/8*8)
	copy(p, sig)
	return p
}

// Shared scenario for C01 / C03 / C08 (each property asserts its own part):
// every well-formed cabinet (unsigned or already signed), every signature
// blob; sign, parse the result, sign again.
func vhCabScenario(prop string) {
	vhMaxLen(200)
	kind := vhConcretize(vhInt("cab-kind", 0, 2), 4) // unsigned / signed / pre-reserved
	signed := kind == 1
	nf := vhConcretize(vhInt("folders", 0, 1), 2)
	d := vhConcretize(vhInt("datalen", 0, 3), 4)
	s, pad := 0, 0
	if signed {
		s = 8
	}
	if kind == 2 {
		pad = vhConcretize(vhInt("reserve-padding", 1, 2), 4)
	}
	x, foldersAt, dataAt := vhCabKind(kind, nf, d, s, pad)
	dg, err := Digest(bytes.NewReader(x), crypto.SHA256)
	if prop == "C01" {
		vhAssert(err == nil, "well-formed-cab-accepted-for-signing")
	}
	if err != nil {
		return
	}
	sig := vhBytes("sig", vhInt("siglen", 1, 9))
	x1 := vhApply(x, dg.MakePatch(sig))
	dg1, err := Digest(bytes.NewReader(x1), crypto.SHA256)
	if prop == "C01" {
		vhAssert(err == nil, "signed-cab-parses")
	}
	if err != nil {
		return
	}
	vhReach("signed")
	shift := 0
	switch kind {
	case 0:
		shift = 24 // reserve + signature header inserted
	case 2:
		shift = -pad // excess reserved space removed
	}
	switch prop {
	case "C01":
		// the verifier (VerifyCab: Digest + compare with the signed imprint)
		// recomputes the digest that was signed and finds the embedded blob
		vhAssert(bytes.Equal(dg1.Imprint, dg.Imprint), "verifier-recomputes-the-signed-digest")
		vhAssert(bytes.Equal(dg1.Cabinet.Signature, vhPad8(sig)), "verifier-finds-exactly-the-new-signature")
		vhAssert(dg1.Cabinet.SignatureHeader != nil && dg1.Cabinet.SignatureHeader.CabinetSize == dg1.Cabinet.Header.TotalSize, "signature-header-consistent")
	case "C03":
		for i := 0; i < nf; i++ {
			off0 := int(vhGet32(x, foldersAt+8*i))
			off1 := int(vhGet32(x1, foldersAt+shift+8*i))
			vhAssert(off1 == off0+shift, "folder-offset-moved-with-the-data")
		}
		vhAssert(bytes.Equal(x1[dataAt+shift:dataAt+shift+d], x[dataAt:dataAt+d]), "folder-data-bytes-unchanged")
		vhAssert(len(x1) == dataAt+shift+d+len(vhPad8(sig)), "nothing-else-appended")
		// header fields other than sizes/offsets/flags are carried over
		vhAssert(bytes.Equal(x1[4:8], x[4:8]) && bytes.Equal(x1[20:30], x[20:30]) && bytes.Equal(x1[32:36], x[32:36]), "other-header-fields-unchanged")
	case "C08":
		vhAssert(bytes.Equal(dg1.Imprint, dg.Imprint), "digest-ignores-the-signature")
		sig2 := vhBytes("sig2", vhInt("sig2len", 1, 9))
		x2 := vhApply(x1, dg1.MakePatch(sig2))
		dg2, err := Digest(bytes.NewReader(x2), crypto.SHA256)
		vhAssert(err == nil, "resigned-cab-parses")
		if err != nil {
			return
		}
		vhAssert(bytes.Equal(dg2.Imprint, dg.Imprint), "digest-unchanged-by-resigning")
		vhAssert(bytes.Equal(dg2.Cabinet.Signature, vhPad8(sig2)), "second-signature-replaces-the-first")
		vhAssert(len(x2) == dataAt+shift+d+len(vhPad8(sig2)), "old-signature-removed")
		vhAssert(bytes.Equal(x2[dataAt+shift:dataAt+shift+d], x[dataAt:dataAt+d]), "payload-equals-the-original")
		vhReach("resigned")
	}
}

// H08.cab: the content digest is the same whether or not the cabinet carries
// a signature; re-signing replaces the signature (sign^2), payload intact.
func VH_C08_CabResign() {
	vhCabScenario("C08") // vh:require signed resigned
}

// H01.cab: signing a well-formed cabinet succeeds and the verifier's view of
// the result (parse + digest) finds the embedded blob and the signed digest.
func VH_C01_CabSignVerifies() {
	vhCabScenario("C01") // vh:require signed
}

// H03.cab: signing keeps every folder's data bytes, moves folder offsets
// consistently with the 24 inserted header bytes, appends only the signature.
func VH_C03_CabPayloadIntact() {
	vhCabScenario("C03") // vh:require signed
}
