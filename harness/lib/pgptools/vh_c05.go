//go:build verif

package pgptools

import "bytes"

// reference decoder: RFC 4880 4.2.2 new-format packet length
func vhPktLen(b []byte) (length int, used int, ok bool) {
	if len(b) < 1 {
		return 0, 0, false
	}
	switch {
	case b[0] < 192:
		return int(b[0]), 1, true
	case b[0] < 224:
		if len(b) < 2 {
			return 0, 0, false
		}
		return (int(b[0])-192)<<8 + int(b[1]) + 192, 2, true
	case b[0] == 255:
		if len(b) < 5 {
			return 0, 0, false
		}
		return int(b[1])<<24 | int(b[2])<<16 | int(b[3])<<8 | int(b[4]), 5, true
	}
	return 0, 0, false // partial body length: never to be emitted for a sized literal
}

// H05.pgp.hdr: the inline-signature writer frames the literal data itself.
// For EVERY packet length 0 <= n < 2^31 (one symbolic 32-bit value) the
// header serializeHeader writes decodes, by the RFC's rules, to the same
// length, with the right tag and nothing after it.
func VH_C05_PgpPacketHeader() {
	n := vhInt("length", 0, 1<<31-1)
	var w bytes.Buffer
	err := serializeHeader(&w, 11, n)
	vhAssert(err == nil, "header-written")
	b := w.Bytes()
	vhAssert(len(b) >= 2 && b[0] == 0xc0|11, "new-format-tag-11")
	got, used, ok := vhPktLen(b[1:])
	vhAssert(ok, "length-form-decodable")
	vhAssert(used == len(b)-1, "nothing-after-the-length")
	vhAssert(got == n, "length-round-trips")
	vhReach("framed") // vh:require framed
}

// H03.pgp.literal: MergeSignature's literal packet for a seekable message:
// header, 'b', file name (cut to 255), zero time stamp, then exactly the
// unread rest of the message, byte for byte - for every message content of
// 0..5 bytes, every read position in it, file names of 0..3 symbolic bytes
// and the sizes that straddle the one/two-octet length boundary (192) and the
// 255-byte name limit.
func VH_C03_PgpLiteralPacket() {
	var msg []byte
	var name string
	switch vhConcretize(vhInt("shape", 0, 3), 4) {
	case 0:
		msg = vhBytes("msg", vhConcretize(vhInt("msg-len", 0, 5), 6))
		name = string(vhBytes("name", vhConcretize(vhInt("name-len", 0, 3), 4)))
	case 1: // around the 192 boundary: 6 fixed + name 0 + body
		msg = make([]byte, vhConcretize(vhInt("body", 184, 188), 200))
		if len(msg) > 0 {
			msg[len(msg)-1] = vhU8("last")
		}
	case 2: // name longer than a length octet can say
		msg = vhBytes("msg", 2)
		long := make([]byte, vhConcretize(vhInt("long-name", 254, 258), 260))
		for i := range long {
			long[i] = 'n'
		}
		name = string(long)
	case 3:
		msg = vhBytes("msg", 3)
		name = "f"
	}
	skip := vhConcretize(vhInt("already-read", 0, 3), 4)
	if skip == 3 {
		skip = len(msg)
	}
	vhAssume(skip <= len(msg))
	r := bytes.NewReader(msg)
	if skip > 0 {
		_, _ = r.Seek(int64(skip), 0)
	}
	size := getSize(r)
	vhAssert(int(size) == len(msg)-skip, "size-is-the-unread-rest")
	var w bytes.Buffer
	err := serializeLiteral(&w, r, size, name)
	vhAssert(err == nil, "literal-written")
	out := w.Bytes()
	vhAssert(len(out) > 2 && out[0] == 0xcb, "literal-data-tag")
	plen, used, ok := vhPktLen(out[1:])
	vhAssert(ok && 1+used+plen == len(out), "packet-length-covers-the-packet-exactly")
	body := out[1+used:]
	wantName := name
	if len(wantName) > 255 {
		wantName = wantName[:255]
	}
	vhAssert(body[0] == 'b' && int(body[1]) == len(wantName), "mode-and-name-length")
	vhAssert(string(body[2:2+len(wantName)]) == wantName, "name-kept")
	rest := body[2+len(wantName):]
	vhAssert(len(rest) == 4+len(msg)-skip && rest[0]|rest[1]|rest[2]|rest[3] == 0, "zero-timestamp-then-data")
	vhAssert(bytes.Equal(rest[4:], msg[skip:]), "message-bytes-identical")
	vhReach("literal") // vh:require literal
}

func VH_C05_PgpLiteralPacket() { VH_C03_PgpLiteralPacket() }
