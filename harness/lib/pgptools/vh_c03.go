//go:build verif

package pgptools

import "bytes"

func vhText(tag string, n int) []byte {
	const alphabet = "a-B\r\n"
	b := vhBytes(tag, n)
	out := make([]byte, n)
	for i, c := range b {
		out[i] = alphabet[int(c)%len(alphabet)]
	}
	return out
}

// reference: lines of a text as bufio.ScanLines defines them (LF ends a line,
// one CR before it is dropped, a last line without LF counts if non-empty)
func vhLines(t []byte) [][]byte {
	var out [][]byte
	start := 0
	for i, c := range t {
		if c == '\n' {
			l := t[start:i]
			if len(l) > 0 && l[len(l)-1] == '\r' {
				l = l[:len(l)-1]
			}
			out = append(out, l)
			start = i + 1
		}
	}
	if start < len(t) {
		l := t[start:]
		if l[len(l)-1] == '\r' {
			l = l[:len(l)-1]
		}
		out = append(out, l)
	}
	return out
}

// H03.clearsign-split: a clear-signed document is cut into the original text
// (kept on the client) and the signature block (made on the server) and put
// together again: for every document text, the head copier passes every line
// before the signature header through unchanged (CRLF-terminated), the tail
// extractor returns exactly the lines from the signature header on, and
// together they cover every line once - no line of the document is lost,
// duplicated or altered by the split.
func VH_C03_ClearSignSplit()   { vhClearSignSplit(3, 2) }
func VH_C03_ClearSignSplit_T() { vhClearSignSplit(4, 3) }

func vhClearSignSplit(maxDoc, maxSig int) {
	vhMaxLen(400)
	vhLoopBound(400)
	doc := vhText("document", vhConcretize(vhInt("document-bytes", 0, maxDoc), 5))
	sigBody := vhText("signature-lines", vhConcretize(vhInt("signature-bytes", 0, maxSig), 4))
	var full []byte
	full = append(full, doc...)
	if len(doc) > 0 && doc[len(doc)-1] != '\n' {
		full = append(full, '\n')
	}
	full = append(full, sigHeader...)
	full = append(full, '\n')
	full = append(full, sigBody...)
	var head bytes.Buffer
	err := headClearSign(bytes.NewReader(full), &head)
	vhAssert(err == nil, "signature-header-found")
	tail, err2 := tailClearSign(bytes.NewReader(full))
	vhAssert(err2 == nil, "tail-extracted")
	var wantHead, wantTail []byte
	for _, l := range vhLines(doc) {
		wantHead = append(append(wantHead, l...), '\r', '\n')
	}
	wantTail = append(append(wantTail, sigHeader...), '\r', '\n')
	for _, l := range vhLines(sigBody) {
		wantTail = append(append(wantTail, l...), '\r', '\n')
	}
	vhAssert(bytes.Equal(head.Bytes(), wantHead), "document-lines-pass-through-unchanged")
	vhAssert(bytes.Equal(tail, wantTail), "tail-is-the-signature-block")
	vhReach("split") // vh:require split
	// a document without a signature block is an error for the head copier, and has an empty tail
	var h2 bytes.Buffer
	vhAssert(headClearSign(bytes.NewReader(doc), &h2) != nil, "missing-signature-block-reported")
	t2, _ := tailClearSign(bytes.NewReader(doc))
	vhAssert(len(t2) == 0, "no-tail-without-a-signature-header")
}
