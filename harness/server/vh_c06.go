//go:build verif

package server

import (
	"bytes"
	"context"
	"crypto"
	"crypto/x509"
	"encoding/json"
	"errors"
	"io"
	"net/http"
	"net/url"

	"github.com/sassoftware/relic/v8/cmdline/shared"
	"github.com/sassoftware/relic/v8/config"
	"github.com/sassoftware/relic/v8/lib/certloader"
	"github.com/sassoftware/relic/v8/signers"
	"github.com/sassoftware/relic/v8/token"
)

type vhSignKey struct{ conf *config.KeyConfig }

func (k *vhSignKey) Public() crypto.PublicKey { return nil }
func (k *vhSignKey) Sign(r io.Reader, d []byte, o crypto.SignerOpts) ([]byte, error) {
	return nil, errors.New("n/a")
}
func (k *vhSignKey) SignContext(ctx context.Context, d []byte, o crypto.SignerOpts) ([]byte, error) {
	return nil, errors.New("n/a")
}
func (k *vhSignKey) Config() *config.KeyConfig                      { return k.conf }
func (k *vhSignKey) Certificate() []byte                            { return nil }
func (k *vhSignKey) GetID() []byte                                  { return nil }
func (k *vhSignKey) ImportCertificate(cert *x509.Certificate) error { return nil }

type vhKeyToken struct {
	vhToken
	conf *config.Config
	fail bool
}

func (t *vhKeyToken) GetKey(ctx context.Context, keyName string) (token.Key, error) {
	if t.fail {
		return nil, errors.New("token failure")
	}
	kc, err := t.conf.GetKey(keyName)
	if err != nil {
		return nil, err
	}
	return &vhSignKey{conf: kc}, nil
}

var (
	vhSignFails, vhSigned, vhRegistered06 bool
)

// the signer registry is process-global: register once, behaviour comes from
// package-level variables set per run
func vhRegisterFake06() {
	if vhRegistered06 {
		return
	}
	vhRegistered06 = true
	signers.Register(&signers.Signer{Name: "fake06", Sign: func(r io.Reader, cert *certloader.Certificate, opts signers.SignOpts) ([]byte, error) {
		if vhSignFails {
			return nil, errors.New("signing failed")
		}
		vhSigned = true
		return []byte{0xAA, 0xBB}, nil
	}})
}

// H06.server: /sign returns a signature body only after exactly one audit
// record - naming the key, signature type, digest, client identity and file
// name actually used - has been appended to the audit file as one line; if
// the sink fails (file cannot be opened / written), or signing fails, no
// signature body is written.
func VH_C06_ServerSignAudit() {
	conf := &config.Config{}
	kc := conf.NewKey("k0")
	kc.Token = "t0"
	kc.Roles = []string{"r0"}
	user := &vhUser{roles: []string{"r0"}}
	logPath := vhFSPath("audit.log")
	old := vhBytes("existing-log", vhInt("existing-len", 0, 2))
	existed := vhBool("log-exists")
	if existed {
		vhFSPut(logPath, old)
	}
	shared.CurrentConfig = &config.Config{AuditFile: logPath}
	vhSignFails = vhBool("signer-fails")
	vhSigned = false
	vhRegisterFake06()
	tok := &vhKeyToken{conf: conf, fail: vhBool("token-fails")}
	s := &Server{Config: conf, tokens: map[string]token.Token{"t0": tok}}
	q := url.Values{"key": {"k0"}, "filename": {"f.bin"}, "sigtype": {"fake06"}, "digest": {"sha256"}}
	req := &http.Request{Method: "POST", URL: &url.URL{Path: "/sign", RawQuery: q.Encode()}, RemoteAddr: "10.0.0.1:999", Body: io.NopCloser(bytes.NewReader([]byte{1, 2, 3}))}
	vhFSFaults(true)
	rw, err := vhServe(user, s.serveSign, req)
	vhFSFaults(false)
	vhReach("served") // vh:require served
	log, logOK := vhFSGet(logPath)
	if rw.writes > 0 {
		vhReach("signature-returned") // vh:require signature-returned
		vhAssert(vhSigned && err == nil, "body-only-after-successful-signing")
		vhAssert(rw.writes == 1 && bytes.Equal(rw.body, []byte{0xAA, 0xBB}), "body-is-the-signature")
		vhAssert(logOK, "audit-file-exists-when-a-signature-is-returned")
		prefix := 0
		if existed {
			prefix = len(old)
		}
		vhAssert(len(log) > prefix && bytes.Equal(log[:prefix], old[:prefix]), "existing-records-kept")
		rec := log[prefix:]
		vhAssert(len(rec) >= 2 && rec[len(rec)-1] == '\n', "record-ends-with-newline")
		vhAssert(bytes.IndexByte(rec[:len(rec)-1], '\n') < 0, "exactly-one-line-appended")
		var attrs map[string]interface{}
		vhAssert(json.Unmarshal(rec[:len(rec)-1], &attrs) == nil, "record-is-one-json-object")
		vhAssert(attrs["sig.keyname"] == "k0", "record-names-the-key")
		vhAssert(attrs["sig.type"] == "fake06", "record-names-the-signature-type")
		vhAssert(attrs["sig.hash"] == "SHA-256", "record-names-the-digest")
		vhAssert(attrs["client.filename"] == "f.bin", "record-names-the-file")
		vhAssert(attrs["client.ip"] == "10.0.0.1", "record-names-the-client-address")
	} else {
		vhAssert(err != nil, "no-body-means-an-error")
	}
	if vhSigned && err != nil {
		// signing succeeded but the audit sink failed: nothing returned
		vhReach("audit-sink-failed") // vh:require audit-sink-failed
		vhAssert(rw.writes == 0, "signature-withheld-when-audit-fails")
	}
}
