//go:build verif

package server

import (
	"context"
	"errors"
	"net/http"
	"net/url"

	"github.com/sassoftware/relic/v8/config"
	"github.com/sassoftware/relic/v8/internal/authmodel"
	"github.com/sassoftware/relic/v8/internal/httperror"
	"github.com/sassoftware/relic/v8/token"
)

type vhAuthN struct {
	outcome int
	user    authmodel.UserInfo
	asked   int
}

func (a *vhAuthN) Authenticate(req *http.Request) (authmodel.UserInfo, error) {
	a.asked++
	switch a.outcome {
	case 1:
		return nil, httperror.ErrCertificateRequired
	case 2:
		return nil, httperror.ErrCertificateNotRecognized
	case 3:
		return nil, httperror.ErrForbidden
	case 4:
		return nil, errors.New("policy server unreachable")
	}
	return a.user, nil
}

// H04.router: the server's real handler stack (router, real-IP, logging,
// recovery, compression, authentication middleware, views). Every endpoint
// that signs, discloses a certificate or lists keys sits behind the
// authenticator: when it does not recognise the caller the answer is 401 /
// 403 (5xx when the authenticator itself fails), the view is not entered and
// no token is touched; /health and /directory are the only unauthenticated
// routes; unknown paths and wrong methods never reach a view either.
func VH_C04_HandlerStack() {
	vhMaxLen(512)
	vhLoopBound(400)
	conf := &config.Config{Server: &config.ServerConfig{}}
	kc := conf.NewKey("k0")
	kc.Token = "t0"
	kc.Roles = []string{"r0"}
	user := &vhUser{roles: []string{"r0"}}
	auth := &vhAuthN{outcome: vhConcretize(vhInt("authenticator-outcome", 0, 4), 5), user: user}
	s := &Server{Config: conf, tokens: map[string]token.Token{"t0": vhToken{}}, auth: auth,
		realIP: func(h http.Handler) http.Handler { return h }}
	routes := []struct{ method, path string }{
		{"POST", "/sign"}, {"GET", "/keys/k0"}, {"GET", "/list_keys"}, {"GET", "/"},
		{"GET", "/directory"}, {"GET", "/sign"}, {"POST", "/keys/k0"}, {"GET", "/nope"},
	}
	rt := routes[vhConcretize(vhInt("route", 0, len(routes)-1), 16)]
	q := url.Values{"key": {"k0"}, "filename": {"f.bin"}, "sigtype": {"fake04"}}
	req := (&http.Request{Method: rt.method, URL: &url.URL{Path: rt.path, RawQuery: q.Encode()}, RemoteAddr: "10.0.0.1:999", Header: http.Header{}}).WithContext(context.Background())
	rw := &vhRW{hdr: http.Header{}}
	vhTokenTouched = false
	s.Handler().ServeHTTP(rw, req)
	vhReach("served") // vh:require served
	protected := rt.path == "/sign" || rt.path == "/keys/k0" || rt.path == "/list_keys" || rt.path == "/"
	routed := (rt.method == "POST") == (rt.path == "/sign") && rt.path != "/nope"
	switch {
	case !routed:
		vhAssert(rw.status == 404 || rw.status == 405, "unrouted-request-refused")
		vhAssert(!vhTokenTouched, "unrouted-request-touches-no-token")
	case protected && auth.outcome != 0:
		vhAssert(auth.asked == 1, "authenticator-consulted")
		vhAssert(!vhTokenTouched, "token-untouched-for-unrecognised-caller")
		switch auth.outcome {
		case 1, 2:
			vhAssert(rw.status == 401, "missing-or-unrecognised-certificate-is-401")
		case 3:
			vhAssert(rw.status == 403, "forbidden-is-403")
		case 4:
			vhAssert(rw.status >= 500, "authenticator-failure-is-5xx-not-access")
		}
	case protected:
		vhAssert(auth.asked == 1, "authenticator-consulted")
		vhAssert(rw.status != 401 && rw.status != 403, "recognised-entitled-caller-served")
	default:
		vhAssert(auth.asked == 0, "directory-needs-no-authentication")
	}
}
