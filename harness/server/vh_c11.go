//go:build verif

package server

import (
	"bytes"
	"io"
	"net/http"
	"net/url"
	"os"

	"github.com/sassoftware/relic/v8/cmdline/shared"
	"github.com/sassoftware/relic/v8/config"
	"github.com/sassoftware/relic/v8/signers"
	"github.com/sassoftware/relic/v8/token"
)

var vhRegisteredVerifyOnly bool

// H11.server-sigtype: the signature type named in a /sign request is chosen
// by the client. For a caller entitled to the key, each kind of type - one
// that signs, one that is registered only for verification (relic ships two:
// fat Mach-O and IPA), an unknown name, none - yields a signature or an error
// response; no panic in the handler (a verify-only module has no Sign
// function to call).
func VH_C11_ServerSigTypeWithoutSigner() {
	conf := &config.Config{}
	kc := conf.NewKey("k0")
	kc.Token = "t0"
	kc.Roles = []string{"r0"}
	user := &vhUser{roles: []string{"r0"}}
	shared.CurrentConfig = &config.Config{}
	vhSignFails, vhSigned = false, false
	vhRegisterFake06()
	if !vhRegisteredVerifyOnly {
		vhRegisteredVerifyOnly = true
		signers.Register(&signers.Signer{Name: "verify-only", Verify: func(f *os.File, opts signers.VerifyOpts) ([]*signers.Signature, error) { return nil, nil }})
	}
	tok := &vhKeyToken{conf: conf}
	s := &Server{Config: conf, tokens: map[string]token.Token{"t0": tok}}
	sigtype := []string{"fake06", "verify-only", "no-such-type", ""}[vhConcretize(vhInt("sigtype", 0, 3), 4)]
	q := url.Values{"key": {"k0"}, "filename": {"f.bin"}, "digest": {"sha256"}}
	if sigtype != "" {
		q.Set("sigtype", sigtype)
	}
	req := &http.Request{Method: "POST", URL: &url.URL{Path: "/sign", RawQuery: q.Encode()}, RemoteAddr: "10.0.0.1:999", Body: io.NopCloser(bytes.NewReader([]byte{1, 2, 3}))}
	rw, err := vhServe(user, s.serveSign, req)
	vhReach("served") // vh:require served
	if sigtype == "fake06" {
		vhAssert(err == nil && rw.writes == 1, "signing-type-signs")
	} else {
		vhAssert(err != nil && rw.writes == 0 && !vhSigned, "other-types-are-refused-with-an-error")
		vhReach("refused") // vh:require refused
	}
}
