//go:build verif

package server

import (
	"context"
	"crypto"
	"crypto/x509"
	"encoding/json"
	"errors"
	"io"
	"net/http"
	"net/url"
	"sort"

	"github.com/go-chi/chi/v5"

	"github.com/sassoftware/relic/v8/config"
	"github.com/sassoftware/relic/v8/internal/authmodel"
	"github.com/sassoftware/relic/v8/lib/audit"
	"github.com/sassoftware/relic/v8/lib/certloader"
	"github.com/sassoftware/relic/v8/signers"
	"github.com/sassoftware/relic/v8/token"
)

// ---- fakes -----------------------------------------------------------

var vhTokenTouched, vhRegistered04 bool
var vhTouchedKey string

type vhToken struct{}

func (vhToken) Close() error                   { return nil }
func (vhToken) Ping(ctx context.Context) error { return nil }
func (vhToken) Config() *config.TokenConfig    { return nil }
func (vhToken) GetKey(ctx context.Context, keyName string) (token.Key, error) {
	vhTokenTouched = true
	vhTouchedKey = keyName
	return nil, errors.New("fake token: stop here")
}
func (vhToken) Import(keyName string, privKey crypto.PrivateKey) (token.Key, error) {
	return nil, errors.New("n/a")
}
func (vhToken) ImportCertificate(cert *x509.Certificate, labelBase string) error { return nil }
func (vhToken) Generate(keyName string, keyType token.KeyType, bits uint) (token.Key, error) {
	return nil, errors.New("n/a")
}
func (vhToken) ListKeys(opts token.ListOptions) error { return nil }

type vhUser struct {
	roles []string
}

func (u *vhUser) Allowed(kc *config.KeyConfig) bool {
	ci := &authmodel.CertificateInfo{Name: "u", Roles: u.roles}
	return ci.Allowed(kc)
}
func (u *vhUser) AuditContext(info *audit.Info) {}

type vhAuth struct{ user authmodel.UserInfo }

func (a vhAuth) Authenticate(req *http.Request) (authmodel.UserInfo, error) { return a.user, nil }

type vhRW struct {
	hdr    http.Header
	body   []byte
	status int
	writes int
}

func (w *vhRW) Header() http.Header { return w.hdr }
func (w *vhRW) Write(b []byte) (int, error) {
	w.writes++
	w.body = b // one Write per response in these handlers; kept unaliased for json
	return len(b), nil
}
func (w *vhRW) WriteHeader(s int) { w.status = s }

var vhNames = []string{"k0", "k1"}
var vhRoleNames = []string{"r0"}

func vhInit() {
	vhNames = []string{"k0", "k1"}
	vhRoleNames = []string{"r0"}
	if vhTier() > 0 {
		// thorough: three keys with one role, or two keys with two roles
		if vhConcretize(vhInt("shape", 0, 1), 2) == 0 {
			vhNames = []string{"k0", "k1", "k2"}
		} else {
			vhRoleNames = []string{"r0", "r1"}
		}
	}
}

func vhRoles(tag string) []string {
	var out []string
	for _, r := range vhRoleNames {
		if vhBool(tag) {
			out = append(out, r)
		}
	}
	return out
}

func vhConfig(started bool) *config.Config {
	vhInit()
	conf := &config.Config{}
	aliases := append(append([]string{""}, vhNames...), "missing")
	for _, n := range vhNames {
		if !vhBool("present") {
			continue
		}
		kc := conf.NewKey(n)
		kc.Alias = aliases[vhConcretize(vhInt("alias", 0, len(aliases)-1), 8)]
		kc.Roles = vhRoles("key-role")
		// a started server (openTokens succeeded) implies every key that
		// carries roles names a configured token
		if (started && len(kc.Roles) != 0) || vhBool("has-token") {
			kc.Token = "t0"
		}
		kc.Hide = vhBool("hide")
	}
	return conf
}

// reference: which entry a name resolves to (one alias hop), nil if none
func vhResolve(conf *config.Config, name string) *config.KeyConfig {
	e, ok := conf.Keys[name]
	if !ok {
		return nil
	}
	if e.Alias != "" {
		e, ok = conf.Keys[e.Alias]
		if !ok {
			return nil
		}
	}
	if e.Token == "" {
		return nil
	}
	return e
}

func vhShares(a, b []string) bool {
	for _, x := range a {
		for _, y := range b {
			if x == y {
				return true
			}
		}
	}
	return false
}

// run h behind the real authentication middleware with a fake authenticator
func vhServe(user authmodel.UserInfo, h func(http.ResponseWriter, *http.Request) error, req *http.Request) (rw *vhRW, err error) {
	rw = &vhRW{hdr: http.Header{}}
	mw := authmodel.Middleware(vhAuth{user})
	mw(http.HandlerFunc(func(w http.ResponseWriter, r *http.Request) {
		err = h(w, r)
	})).ServeHTTP(rw, req)
	return
}

// H04.b: /sign touches a token only for a caller who shares a role with the
// key the requested name resolves to (one alias hop); everything else is
// refused (403) before any token is touched.
func VH_C04_SignAuthorization() {
	conf := vhConfig(false)
	user := &vhUser{roles: vhRoles("user-role")}
	reqName := append(append([]string{}, vhNames...), "nope")[vhConcretize(vhInt("request", 0, len(vhNames)), 4)]
	if !vhRegistered04 {
		vhRegistered04 = true
		// a signing module (a module without a Sign function is verify-only and refused by name)
		signers.Register(&signers.Signer{Name: "fake04", Sign: func(r io.Reader, cert *certloader.Certificate, opts signers.SignOpts) ([]byte, error) {
			return nil, errors.New("not reached: the token stub ends the request")
		}})
	}
	s := &Server{Config: conf, tokens: map[string]token.Token{"t0": vhToken{}}}
	q := url.Values{"key": {reqName}, "filename": {"f.bin"}, "sigtype": {"fake04"}}
	req := &http.Request{Method: "POST", URL: &url.URL{Path: "/sign", RawQuery: q.Encode()}, RemoteAddr: "10.0.0.1:999"}
	vhTokenTouched = false
	rw, err := vhServe(user, s.serveSign, req)
	vhReach("served") // vh:require served
	want := vhResolve(conf, reqName)
	entitled := want != nil && vhShares(want.Roles, user.roles)
	if vhTokenTouched {
		vhReach("token-touched") // vh:require token-touched
		vhAssert(entitled, "token-touched-only-for-entitled-caller")
	} else {
		vhAssert(!entitled, "entitled-caller-not-refused")
		vhAssert(err != nil, "refusal-is-an-error")
		if p, ok := err.(interface{ Error() string }); ok {
			_ = p
		}
	}
	vhAssert(rw.writes == 0, "no-body-without-signature")
}

// H04.c: /list_keys returns exactly the non-hidden names the caller could
// sign with.
func VH_C04_ListKeys() {
	conf := vhConfig(true)
	user := &vhUser{roles: vhRoles("user-role")}
	s := &Server{Config: conf, tokens: map[string]token.Token{"t0": vhToken{}}}
	req := &http.Request{Method: "GET", URL: &url.URL{Path: "/list_keys"}}
	rw, err := vhServe(user, s.serveListKeys, req)
	vhAssert(err == nil, "list-ok")
	var got []string
	vhAssert(json.Unmarshal(rw.body, &got) == nil, "list-is-json")
	var want []string
	for _, n := range vhNames {
		e, ok := conf.Keys[n]
		if !ok || e.Hide {
			continue
		}
		r := vhResolve(conf, n)
		if r != nil && !r.Hide && vhShares(r.Roles, user.roles) {
			want = append(want, n)
		}
	}
	sort.Strings(want)
	vhAssert(len(got) == len(want), "listing-has-exactly-the-signable-visible-names")
	if len(got) == len(want) {
		for i := range got {
			vhAssert(got[i] == want[i], "listing-names-match")
		}
	}
	vhReach("listed") // vh:require listed
}

// H04.b (certificate disclosure): /keys/{key} touches the token only for a
// caller entitled to the resolved key; otherwise 403 before any token call.
func VH_C04_GetKeyAuthorization() {
	conf := vhConfig(false)
	user := &vhUser{roles: vhRoles("user-role")}
	reqName := append(append([]string{}, vhNames...), "nope")[vhConcretize(vhInt("request", 0, len(vhNames)), 4)]
	s := &Server{Config: conf, tokens: map[string]token.Token{"t0": vhToken{}}}
	rctx := chi.NewRouteContext()
	rctx.URLParams.Add("key", reqName)
	req := (&http.Request{Method: "GET", URL: &url.URL{Path: "/keys/" + reqName}}).WithContext(context.WithValue(context.Background(), chi.RouteCtxKey, rctx))
	vhTokenTouched = false
	rw, err := vhServe(user, s.serveGetKey, req)
	vhReach("served") // vh:require served
	want := vhResolve(conf, reqName)
	entitled := want != nil && vhShares(want.Roles, user.roles)
	if vhTokenTouched {
		vhReach("token-touched") // vh:require token-touched
		vhAssert(entitled, "certificate-disclosed-only-to-entitled-caller")
		vhAssert(vhTouchedKey == want.Name(), "token-asked-for-the-resolved-key")
	} else {
		vhAssert(!entitled, "entitled-caller-not-refused")
		vhAssert(err != nil, "refusal-is-an-error")
	}
	vhAssert(rw.writes == 0, "no-body-without-key")
}
