//go:build verif

package server

import (
	"context"
	"crypto"
	"crypto/x509"
	"errors"
	"time"

	"github.com/sassoftware/relic/v8/config"
	"github.com/sassoftware/relic/v8/token"
)

// fake token whose Ping outcome is an input
type vhPingToken struct {
	fail bool
	conf *config.TokenConfig
}

func (t *vhPingToken) Close() error { return nil }
func (t *vhPingToken) Ping(ctx context.Context) error {
	if t.fail {
		return errors.New("ping failed")
	}
	return nil
}
func (t *vhPingToken) Config() *config.TokenConfig { return t.conf }
func (t *vhPingToken) GetKey(ctx context.Context, keyName string) (token.Key, error) {
	return nil, errors.New("n/a")
}
func (t *vhPingToken) Import(keyName string, privKey crypto.PrivateKey) (token.Key, error) {
	return nil, errors.New("n/a")
}
func (t *vhPingToken) ImportCertificate(cert *x509.Certificate, labelBase string) error { return nil }
func (t *vhPingToken) Generate(keyName string, keyType token.KeyType, bits uint) (token.Key, error) {
	return nil, errors.New("n/a")
}
func (t *vhPingToken) ListKeys(opts token.ListOptions) error { return nil }

func vhMax0(x int) int {
	if x < 0 {
		return 0
	}
	return x
}

// H20.a (inductive step): from an arbitrary state satisfying the invariant
// status = max(0, N - f)  (f = number of consecutive failed checks so far),
// one real healthCheck over <=3 tokens with arbitrary ping outcomes restores
// the invariant with f' = 0 (all ok) or f+1 (some token failed). Covers
// histories of any length; N any threshold >= 1.
func VH_C20_HealthStep() {
	n := vhInt("threshold", 1, 1<<30)
	f := vhInt("consecutive-failures", 0, 1<<30)
	healthStatus = vhMax0(n - f)
	ntok := vhConcretize(vhInt("tokens", 0, 3), 4)
	tokens := map[string]token.Token{}
	allOK := true
	names := []string{"t0", "t1", "t2"}
	for i := 0; i < ntok; i++ {
		fail := vhBool("ping-fails")
		if fail {
			allOK = false
		}
		tokens[names[i]] = &vhPingToken{fail: fail, conf: &config.TokenConfig{}}
	}
	s := &Server{Config: &config.Config{Server: &config.ServerConfig{TokenCheckFailures: n, TokenCheckInterval: 60, TokenCheckTimeout: 60}}, tokens: tokens}
	ok := s.healthCheck()
	vhAssert(ok == allOK, "healthcheck-reports-all-tokens-ok")
	f2 := f + 1
	if allOK {
		f2 = 0
	}
	vhAssert(healthStatus == vhMax0(n-f2), "status-is-threshold-minus-consecutive-failures")
	if allOK {
		vhAssert(healthStatus == n && healthStatus > 0, "one-success-restores-health")
	}
	vhAssert((healthStatus == 0) == (f2 >= n), "unhealthy-exactly-after-N-consecutive-failures")
	vhReach("stepped") // vh:require stepped
}

// H20.b: the health report is false exactly when disabled, stale for more
// than three check intervals, or the countdown has reached zero.
func VH_C20_HealthyReport() {
	interval := vhInt("interval-seconds", 1, 86400)
	status := vhInt("status", 0, 1<<30)
	disabled := vhBool("disabled")
	elapsed := time.Duration(vhInt("elapsed-ms", 0, 1<<40)) * time.Millisecond
	limit := 3 * time.Duration(interval) * time.Second
	// keep away from the exact boundary: the native clock moves while the check runs
	vhAssume(elapsed+time.Second < limit || elapsed > limit+time.Second)
	healthStatus = status
	healthLastPing = time.Now().Add(-elapsed)
	s := &Server{Config: &config.Config{Server: &config.ServerConfig{TokenCheckFailures: 3, TokenCheckInterval: interval, Disabled: disabled}}}
	got := s.Healthy(nil)
	want := !disabled && !(elapsed > limit) && status > 0
	vhAssert(got == want, "healthy-iff-enabled-fresh-and-countdown-positive")
	vhReach("reported") // vh:require reported
}

// H20.c: closing the server ends the background loop (it returns) instead of
// spinning: with the Closed channel closed and no timer event left, the loop
// must terminate.
func VH_C20_LoopExitsOnClose() {
	closed := make(chan bool)
	close(closed)
	healthStatus = 3
	s := &Server{Closed: closed, Config: &config.Config{Server: &config.ServerConfig{TokenCheckFailures: 3, TokenCheckInterval: 3600, TokenCheckTimeout: 1}}, tokens: map[string]token.Token{}}
	vhTimerBudget(2)
	vhLoopBound(12)
	s.healthCheckLoop()
	vhReach("loop-returned") // vh:require loop-returned
}
