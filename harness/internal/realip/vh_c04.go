//go:build verif

package realip

import (
	"crypto/tls"
	"crypto/x509"
	"net/http"
	"strings"
)

var vhHops = []string{"10.0.0.2", "10.9.9.9", "192.0.2.7", "198.51.100.3", "not-an-address", ""}

func vhTrustedRef(addr string) bool { return addr == "@" || strings.HasPrefix(addr, "10.") }

// arbitrary X-Forwarded-For headers: up to 2 header lines of up to 2 hops
func vhXFF() (http.Header, []string) {
	h := http.Header{}
	var flat []string
	lines := vhConcretize(vhInt("xff-lines", 0, 2), 4)
	for i := 0; i < lines; i++ {
		n := vhConcretize(vhInt("hops", 1, 2), 4)
		var hops []string
		for j := 0; j < n; j++ {
			hop := vhHops[vhConcretize(vhInt("hop", 0, len(vhHops)-1), 8)]
			hops = append(hops, hop)
			if hop != "" {
				flat = append(flat, hop)
			}
		}
		h.Add(forwardedFor, strings.Join(hops, ", "))
	}
	return h, flat
}

// H04.e: the recorded client address. A peer outside the trusted-proxy list
// is reported as itself whatever headers it sends; behind trusted proxies the
// right-most hop that is not itself a trusted proxy is the client, else the
// left-most hop.
func VH_C04_ClientAddress() {
	nets, err := parseTrusted([]string{"10.0.0.0/8"})
	vhAssume(err == nil)
	remotes := []string{"10.0.0.1:4431", "192.0.2.99:5000", "@"}
	remote := remotes[vhConcretize(vhInt("remote", 0, len(remotes)-1), 4)]
	hdr, hops := vhXFF()
	req := &http.Request{RemoteAddr: remote, Header: hdr}
	got, proxied := trustedClient(nets, req)
	vhReach("resolved") // vh:require resolved
	peer := remote
	if i := strings.LastIndexByte(peer, ':'); i >= 0 {
		peer = peer[:i]
	}
	if !vhTrustedRef(peer) {
		vhAssert(got == peer && !proxied, "untrusted-peer-headers-ignored")
		return
	}
	// reference
	want, wantProxied := peer, false
	found := false
	for i := len(hops) - 1; i >= 0 && !found; i-- {
		if !vhTrustedRef(hops[i]) {
			want, wantProxied, found = hops[i], true, true
		}
	}
	if !found && len(hops) > 0 {
		want, wantProxied = hops[0], true
	}
	vhAssert(got == want && proxied == wantProxied, "client-is-rightmost-untrusted-hop")
}

// H04.e (certificate header): through the real middleware, a request from an
// untrusted peer keeps its own TLS peer certificates - or has none, on a
// plain-HTTP listener or when it presented none: the Ssl-Client-Cert header
// (arbitrary bytes) is never consulted.
func VH_C04_PeerCertificateHeader() {
	mw, err := Middleware([]string{"10.0.0.0/8"})
	vhAssume(err == nil)
	own := []*x509.Certificate{{}}
	hdr, _ := vhXFF()
	hdr.Set(sslClientCert, string(vhBytes("header-bytes", vhInt("header-len", 0, 3))))
	req := &http.Request{RemoteAddr: "192.0.2.99:5000", Header: hdr}
	// listener: plain HTTP (no TLS state), TLS without a client certificate, TLS with one
	conn := vhConcretize(vhInt("connection", 0, 2), 3)
	switch conn {
	case 1:
		req.TLS = &tls.ConnectionState{}
	case 2:
		req.TLS = &tls.ConnectionState{PeerCertificates: own}
	}
	var got []*x509.Certificate
	var gotErr error
	var seenAddr string
	mw(http.HandlerFunc(func(w http.ResponseWriter, r *http.Request) {
		got, gotErr = PeerCertificates(r)
		seenAddr = r.RemoteAddr
	})).ServeHTTP(nil, req)
	if conn == 2 {
		vhAssert(gotErr == nil && len(got) == 1 && got[0] == own[0], "untrusted-peer-keeps-its-own-certificates")
	} else {
		vhAssert(gotErr == nil && len(got) == 0, "untrusted-peer-without-certificate-has-none")
	}
	vhAssert(seenAddr == "192.0.2.99", "untrusted-peer-address-recorded-as-is")
	vhReach("served") // vh:require served
}
