//go:build verif

package zhttp

import (
	"context"
	"errors"
	"net/http"
	"net/url"
)

type vhRW struct {
	hdr    http.Header
	status int
	body   []byte
}

func (w *vhRW) Header() http.Header { return w.hdr }
func (w *vhRW) WriteHeader(c int) {
	if w.status == 0 {
		w.status = c
	}
}
func (w *vhRW) Write(p []byte) (int, error) {
	if w.status == 0 {
		w.status = 200
	}
	w.body = append(w.body, p...)
	return len(p), nil
}

type vhCtx struct {
	context.Context
	err error
}

func (c *vhCtx) Err() error { return c.err }

// H11.recover: a panic raised while a request is handled (what a parser bug
// on an uploaded package amounts to) does not leave the recovery middleware:
// the client gets a 5xx (or 499 when it had gone away) and the serving
// goroutine continues; only http.ErrAbortHandler is passed on. A handler
// that does not panic is left alone.
func VH_C11_RecoveryMiddleware() {
	kind := vhConcretize(vhInt("handler-outcome", 0, 4), 5)
	ctxState := vhConcretize(vhInt("request-context", 0, 2), 3)
	ctx := &vhCtx{Context: context.Background()}
	switch ctxState {
	case 1:
		ctx.err = context.Canceled
	case 2:
		ctx.err = context.DeadlineExceeded
	}
	h := RecoveryMiddleware(http.HandlerFunc(func(w http.ResponseWriter, r *http.Request) {
		switch kind {
		case 1:
			panic(errors.New("index out of range"))
		case 2:
			panic("a string")
		case 3:
			var m map[string]int
			m["x"] = 1 // runtime error
		case 4:
			panic(http.ErrAbortHandler)
		}
		w.WriteHeader(204)
	}))
	req := (&http.Request{Method: "POST", URL: &url.URL{Path: "/sign"}, Header: http.Header{}}).WithContext(ctx)
	rw := &vhRW{hdr: http.Header{}}
	escaped := false
	func() {
		defer func() {
			if r := recover(); r != nil {
				escaped = true
				vhAssert(r == http.ErrAbortHandler, "only-the-abort-signal-escapes")
			}
		}()
		h.ServeHTTP(rw, req)
	}()
	vhReach("served") // vh:require served
	switch kind {
	case 0:
		vhAssert(!escaped && rw.status == 204, "ordinary-response-untouched")
	case 4:
		vhAssert(escaped, "abort-signal-passed-on")
	default:
		vhAssert(!escaped, "panic-does-not-leave-the-middleware")
		switch ctxState {
		case 0:
			vhAssert(rw.status == 500, "client-told-500")
		case 1:
			vhAssert(rw.status == 499, "gone-client-logged-as-499")
		case 2:
			vhAssert(rw.status == 504, "timeout-reported-as-504")
		}
	}
}
