//go:build verif

package authmodel

import (
	"context"
	"crypto/tls"
	"crypto/x509"
	"net/http"
	"net/url"

	"github.com/sassoftware/relic/v8/config"
	"github.com/sassoftware/relic/v8/internal/httperror"
)

// H04.policy: the policy-agent authenticator. The call to the agent (HTTP and
// JSON) is a stub that returns an ARBITRARY decision of its type: allow or
// not, error strings from the documented set or none, 0..2 roles and key
// names, or a transport error. For every combination of
// bearer token (absent / other scheme / "bearer" in any case) and client
// certificate (present or not): without either no decision is asked for and
// the answer is "token required"; an identity is returned only when the
// agent said allow, and then carries exactly the agent's subject, roles and
// allowed keys; a denial is 403 unless one of the four "present your token
// again" errors makes it 401; an agent failure is an error, never an
// identity. Allowed(key) on the identity is true exactly when the key is
// named in allowed_keys or shares a role.
func VH_C04_PolicyAuthenticator() {
	// vh:stubbed
	lists := func(tag string, a, b string) []string {
		switch vhConcretize(vhInt(tag, 0, 2), 3) {
		case 1:
			return []string{a}
		case 2:
			return []string{b, a}
		}
		return nil
	}
	decision := &policyResponse{ID: "d-1"}
	decision.Result.Subject = "carol"
	agentFails := vhBool("agent-unreachable")
	if !agentFails {
		decision.Result.Allow = vhBool("agent-allows")
		if decision.Result.Allow {
			decision.Result.Roles = lists("roles", "release", "dev")
			decision.Result.AllowedKeys = lists("allowed-keys", "k1", "k2")
		} else {
			errChoices := []string{"", "token is expired", "token is not yet valid", "token issuer is not in known_issuers", "token is missing or not well-formed", "role not permitted"}
			if e := errChoices[vhConcretize(vhInt("agent-error", 0, 5), 6)]; e != "" {
				decision.Result.Errors = []string{"something else", e}
			}
		}
	}
	asked := 0
	var sawToken, sawFingerprint string
	vhStub("(*github.com/sassoftware/relic/v8/internal/authmodel.PolicyAuth).evaluate", func(a *PolicyAuth, ctx context.Context, input policyInput) (*policyResponse, error) {
		asked++
		sawToken, sawFingerprint = input.Token, input.Fingerprint
		if agentFails {
			return nil, httperror.ErrTokenRequired // some error value
		}
		return decision, nil
	})
	vhStub("github.com/sassoftware/relic/v8/internal/zhttp.AppendAccessLog", func(req *http.Request, f interface{}) {})
	req := (&http.Request{Method: "GET", RemoteAddr: "192.0.2.9:4000", Header: http.Header{}}).WithContext(context.Background())
	req.URL = &url.URL{Path: "/sign"}
	auth := []string{"", "Basic abc", "Bearer tok", "bEaReR tok", "Bearer", "Bearer "}[vhConcretize(vhInt("authorization", 0, 5), 6)]
	if auth != "" {
		req.Header.Set("Authorization", auth)
	}
	hasToken := auth == "Bearer tok" || auth == "bEaReR tok"
	hasCert := vhBool("client-certificate")
	if hasCert {
		req.TLS = &tls.ConnectionState{PeerCertificates: []*x509.Certificate{{RawSubjectPublicKeyInfo: []byte{0x30, 0x00}, Raw: []byte{0x30, 0x00}}}}
	} else {
		req.TLS = &tls.ConnectionState{}
	}
	a := &PolicyAuth{}
	info, err := a.Authenticate(req)
	vhReach("decided") // vh:require decided
	if !hasToken && !hasCert {
		vhAssert(info == nil && err == error(httperror.ErrTokenRequired) && asked == 0, "no-credential-no-decision-requested")
		return
	}
	vhAssert(asked == 1, "one-decision-requested")
	vhAssert((sawToken == "tok") == hasToken && (sawToken == "") == !hasToken, "agent-sees-exactly-the-bearer-token")
	vhAssert((sawFingerprint != "") == hasCert, "agent-sees-the-certificate-fingerprint-iff-presented")
	if agentFails {
		vhAssert(info == nil && err != nil, "agent-failure-is-never-an-identity")
		return
	}
	if !decision.Result.Allow {
		vhAssert(info == nil && err != nil, "denied-is-never-an-identity")
		want := http.StatusForbidden
		if len(decision.Result.Errors) == 2 && decision.Result.Errors[1] != "role not permitted" {
			want = http.StatusUnauthorized
		}
		p, ok := err.(httperror.Problem)
		vhAssert(ok && p.Status == want, "denial-status-401-only-for-token-problems")
		vhReach("denied") // vh:require denied
		return
	}
	pi, _ := info.(*PolicyInfo)
	vhAssert(err == nil && pi != nil && pi.Subject == "carol" && pi.DecisionID == "d-1", "allowed-identity-is-the-agents")
	vhAssert(len(pi.Roles) == len(decision.Result.Roles) && len(pi.AllowedKeys) == len(decision.Result.AllowedKeys), "roles-and-keys-are-the-agents")
	// entitlement per key
	key := &config.KeyConfig{Token: "t", Roles: lists("key-roles", "dev", "qa")}
	conf := &config.Config{Tokens: map[string]*config.TokenConfig{"t": {}}, Keys: map[string]*config.KeyConfig{[]string{"k1", "k3"}[vhConcretize(vhInt("key-name", 0, 1), 2)]: key}}
	vhAssert(conf.Normalize("/etc/relic.yml") == nil, "configuration-normalizes")
	want := false
	for _, k := range pi.AllowedKeys {
		want = want || k == key.Name()
	}
	for _, r := range key.Roles {
		for _, have := range pi.Roles {
			want = want || r == have
		}
	}
	vhAssert(pi.Allowed(key) == want, "key-visible-iff-named-or-role-shared")
	vhReach("allowed") // vh:require allowed
}
