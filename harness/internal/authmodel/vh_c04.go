//go:build verif

package authmodel

import (
	"context"
	"crypto/sha256"
	"crypto/tls"
	"crypto/x509"
	"encoding/hex"
	"net/http"

	"github.com/sassoftware/relic/v8/config"
	"github.com/sassoftware/relic/v8/internal/httperror"
)

// H04.identity: who the certificate authenticator says the caller is. No
// client certificate: 401. A certificate whose public-key fingerprint is
// configured: that client's nickname and roles. Otherwise a client whose CA
// validates the presented chain: that client's roles, with the subject
// recorded. Anything else: 401 "not recognised". The roles handed out are
// never those of a client that neither the fingerprint nor the CA check
// selected. Chain validation and name formatting are stubs; the fingerprint
// is the real computation over a symbolic public key (injective hash model).
func VH_C04_CertificateIdentity() {
	// vh:stubbed
	known := []byte{0x30, 0x10}
	sum := sha256.Sum256(known)
	fp := hex.EncodeToString(sum[:])
	byFingerprint := &config.ClientConfig{Nickname: "alice", Roles: []string{"release"}}
	byCA := &config.ClientConfig{Nickname: "corp", Roles: []string{"dev"}}
	conf := &config.Config{Clients: map[string]*config.ClientConfig{fp: byFingerprint, "corp-ca": byCA}}
	caAccepts := vhBool("a-configured-ca-validates-the-chain")
	vhStub("(*github.com/sassoftware/relic/v8/config.ClientConfig).Match", func(cl *config.ClientConfig, certs []*x509.Certificate) (bool, error) {
		return cl == byCA && caAccepts, nil
	})
	vhStub("github.com/sassoftware/relic/v8/lib/x509tools.FormatPkixName", func(der []byte, style int) string { return "/CN=caller" })
	req := (&http.Request{Method: "GET", RemoteAddr: "192.0.2.9:4000", Header: http.Header{}}).WithContext(context.Background())
	presented := vhBool("client-certificate-presented")
	spki := vhBytes("caller-public-key", 2)
	if presented {
		req.TLS = &tls.ConnectionState{PeerCertificates: []*x509.Certificate{{RawSubjectPublicKeyInfo: spki}}}
	} else {
		req.TLS = &tls.ConnectionState{}
	}
	a := &CertificateAuth{Config: conf}
	info, err := a.Authenticate(req)
	vhReach("decided") // vh:require decided
	isAlice := presented && spki[0] == known[0] && spki[1] == known[1]
	switch {
	case !presented:
		vhAssert(info == nil && err == error(httperror.ErrCertificateRequired), "no-certificate-is-401-certificate-required")
	case isAlice:
		ci, _ := info.(*CertificateInfo)
		vhAssert(err == nil && ci != nil && ci.Name == "alice" && len(ci.Roles) == 1 && ci.Roles[0] == "release", "configured-fingerprint-gets-its-own-roles")
	case caAccepts:
		ci, _ := info.(*CertificateInfo)
		vhAssert(err == nil && ci != nil && ci.Name == "corp" && len(ci.Roles) == 1 && ci.Roles[0] == "dev" && ci.Subject != "", "ca-validated-caller-gets-that-clients-roles")
	default:
		vhAssert(info == nil && err == error(httperror.ErrCertificateNotRecognized), "unknown-certificate-is-401-not-recognised")
	}
}
