//go:build verif

package signinit

import (
	"context"
	"crypto"
	"crypto/x509"
	"errors"
	"io"

	"github.com/ProtonMail/go-crypto/openpgp"
	"github.com/ProtonMail/go-crypto/openpgp/packet"

	"github.com/sassoftware/relic/v8/config"
	"github.com/sassoftware/relic/v8/lib/certloader"
	"github.com/sassoftware/relic/v8/signers"
	"github.com/sassoftware/relic/v8/token"
)

type vhKey struct{ conf *config.KeyConfig }

func (k *vhKey) Public() crypto.PublicKey { return nil }
func (k *vhKey) Sign(r io.Reader, d []byte, o crypto.SignerOpts) ([]byte, error) {
	return nil, errors.New("n/a")
}
func (k *vhKey) SignContext(ctx context.Context, d []byte, o crypto.SignerOpts) ([]byte, error) {
	return nil, errors.New("n/a")
}
func (k *vhKey) Config() *config.KeyConfig                      { return k.conf }
func (k *vhKey) Certificate() []byte                            { return nil }
func (k *vhKey) GetID() []byte                                  { return nil }
func (k *vhKey) ImportCertificate(cert *x509.Certificate) error { return nil }

type vhTok struct {
	token.Token
	conf      *config.Config
	requested string
}

func (t *vhTok) GetKey(ctx context.Context, keyName string) (token.Key, error) {
	t.requested = keyName
	kc, err := t.conf.GetKey(keyName)
	if err != nil {
		return nil, err
	}
	return &vhKey{conf: kc}, nil
}

// H06.init: the audit record prepared for a signing operation (shared by the
// server and the standalone command) names the key that was requested, the
// signature type, the digest and every certificate the key carries - the
// X.509 leaf and the PGP certificate independently of each other, since a key
// configured with both can make either kind of signature. A signer that needs
// a certificate kind the key lacks is refused before anything is signed.
// Certificate loading and name formatting are stubs.
func VH_C06_AuditNamesCertificates() {
	// vh:stubbed
	hasX509 := vhBool("key-has-x509-certificate")
	hasPGP := vhBool("key-has-pgp-certificate")
	needX509 := vhBool("signer-needs-x509")
	needPGP := vhBool("signer-needs-pgp")
	leaf := &x509.Certificate{Raw: []byte{0x30, 0x01}}
	entity := &openpgp.Entity{PrimaryKey: &packet.PublicKey{Fingerprint: []byte{1, 2, 3}}}
	var loadedFor crypto.PrivateKey
	vhStub("github.com/sassoftware/relic/v8/lib/certloader.LoadTokenCertificates", func(key crypto.PrivateKey, x509cert, pgpcert string, blob []byte) (*certloader.Certificate, error) {
		loadedFor = key
		c := &certloader.Certificate{PrivateKey: key}
		if hasX509 {
			c.Leaf = leaf
			c.Certificates = []*x509.Certificate{leaf}
		}
		if hasPGP {
			c.PgpKey = entity
		}
		return c, nil
	})
	vhStub("github.com/sassoftware/relic/v8/lib/x509tools.FormatPkixName", func(der []byte, style int) string { return "CN=leaf" })
	vhStub("github.com/sassoftware/relic/v8/lib/pgptools.EntityName", func(e *openpgp.Entity) string { return "pgp entity" })
	conf := &config.Config{}
	kc := conf.NewKey("k0")
	kc.Token = "t0"
	other := conf.NewKey("k1")
	other.Token = "t0"
	tok := &vhTok{conf: conf}
	var types signers.CertType
	if needX509 {
		types |= signers.CertTypeX509
	}
	if needPGP {
		types |= signers.CertTypePgp
	}
	mod := &signers.Signer{Name: "fake06i", CertTypes: types}
	cert, opts, err := Init(context.Background(), mod, tok, "k0", crypto.SHA256, nil)
	if err != nil {
		vhReach("refused") // vh:require refused
		vhAssert(cert == nil && opts == nil, "nothing-to-sign-with-on-refusal")
		vhAssert((needX509 && !hasX509) || (needPGP && !hasPGP), "key-with-the-needed-certificates-accepted")
		return
	}
	vhReach("prepared") // vh:require prepared
	vhAssert(!(needX509 && !hasX509) && !(needPGP && !hasPGP), "signer-without-its-certificate-kind-refused")
	vhAssert(tok.requested == "k0" && cert != nil && cert.KeyName == "k0", "requested-key-is-the-one-used")
	vk, _ := loadedFor.(*vhKey)
	vhAssert(vk != nil && vk.conf == kc, "certificates-loaded-for-the-requested-key")
	a := opts.Audit.Attributes
	vhAssert(a["sig.keyname"] == "k0", "record-names-the-key")
	vhAssert(a["sig.type"] == "fake06i", "record-names-the-signature-type")
	vhAssert(a["sig.hash"] == "SHA-256", "record-names-the-digest")
	_, x := a["sig.x509.fingerprint"]
	_, xs := a["sig.x509.subject"]
	_, p := a["sig.pgp.fingerprint"]
	_, pe := a["sig.pgp.entity"]
	vhAssert(x == hasX509 && xs == hasX509, "record-names-the-x509-certificate-iff-the-key-has-one")
	vhAssert(p == hasPGP && pe == hasPGP, "record-names-the-pgp-certificate-iff-the-key-has-one")
}
