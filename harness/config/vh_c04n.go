//go:build verif

package config

import "strings"

// H04.normalize / H20.defaults: Normalize on a configuration whose map
// entries may be empty (a YAML key without a value decodes to a nil entry),
// whose client keys may not be fingerprints, with or without a server
// section: it never panics; an empty or malformed entry yields an error; on
// success client fingerprints are lower-cased, keys are bound to their token
// entry, names are filled in, and the health-check settings get their
// documented defaults (interval 60 s, timeout 60 s, 3 failures) exactly when
// they were left at zero.
func VH_C04_ConfigNormalize() {
	conf := &Config{}
	nilClient, nilToken, nilKey := vhBool("client-entry-empty"), vhBool("token-entry-empty"), vhBool("key-entry-empty")
	badFingerprint := vhBool("client-key-not-a-fingerprint")
	fp := strings.Repeat("AB", 32)
	if badFingerprint {
		fp = "alice"
	}
	conf.Clients = map[string]*ClientConfig{fp: {Nickname: "a", Roles: []string{"r"}}}
	if nilClient {
		conf.Clients[fp] = nil
	}
	conf.Tokens = map[string]*TokenConfig{"t0": {}}
	if nilToken {
		conf.Tokens["t0"] = nil
	}
	conf.Keys = map[string]*KeyConfig{"k0": {Token: "t0"}}
	if nilKey {
		conf.Keys["k0"] = nil
	}
	failures := vhConcretize(vhInt("configured-failure-threshold", 0, 2), 3)
	hasServer := vhBool("server-section-present")
	if hasServer {
		conf.Server = &ServerConfig{TokenCheckFailures: failures}
	}
	err := conf.Normalize("/etc/relic.yml")
	if err != nil {
		vhReach("refused") // vh:require refused
		vhAssert(nilClient || nilToken || nilKey || badFingerprint, "well-formed-configuration-accepted")
		return
	}
	vhReach("normalized") // vh:require normalized
	vhAssert(!nilClient && !nilToken && !nilKey && !badFingerprint, "empty-or-malformed-entry-is-an-error")
	vhAssert(conf.Clients[strings.ToLower(fp)] != nil && len(conf.Clients) == 1, "fingerprints-lower-cased")
	vhAssert(conf.Keys["k0"].Name() == "k0" && conf.Keys["k0"].token == conf.Tokens["t0"] && conf.Tokens["t0"].Type == "pkcs11", "keys-bound-to-their-token")
	if hasServer {
		want := failures
		if want == 0 {
			want = 3
		}
		vhAssert(conf.Server.TokenCheckFailures == want && conf.Server.TokenCheckInterval == 60 && conf.Server.TokenCheckTimeout == 60, "health-check-defaults")
	}
}

func VH_C20_ConfigHealthDefaults() { VH_C04_ConfigNormalize() }
