//go:build verif

package config

var vhNames = []string{"k0", "k1", "k2"}

// builds a configuration with up to 3 key entries; each entry may be absent
// or an alias (to any name, including itself, another alias, or a missing
// name), with or without token. Entries are non-nil: Config.Normalize
// dereferences every entry, so a nil entry never survives loading.
func vhKeys() map[string]*KeyConfig {
	keys := map[string]*KeyConfig{}
	aliases := []string{"", "k0", "k1", "k2", "missing"}
	for _, n := range vhNames {
		switch vhConcretize(vhInt("entry-kind", 0, 1), 4) {
		case 0: // absent
		default:
			kc := &KeyConfig{name: n}
			kc.Alias = aliases[vhConcretize(vhInt("alias", 0, len(aliases)-1), 8)]
			if vhBool("has-token") {
				kc.Token = "t0"
			}
			keys[n] = kc
		}
	}
	return keys
}

// H04.a: GetKey never panics; it returns the entry one alias hop away, and
// only if that entry names a token; unknown names, dangling aliases, nil
// entries and token-less keys yield an error.
func VH_C04_GetKey() {
	conf := &Config{Keys: vhKeys()}
	req := append(append([]string{}, vhNames...), "nope")[vhConcretize(vhInt("request", 0, 3), 4)]
	kc, err := conf.GetKey(req)
	vhReach("returned") // vh:require returned
	// reference resolution
	var want *KeyConfig
	if e, ok := conf.Keys[req]; ok && e != nil {
		want = e
		if e.Alias != "" {
			want = conf.Keys[e.Alias]
		}
	}
	if want != nil && want.Token == "" {
		want = nil
	}
	if err == nil {
		vhReach("resolved") // vh:require resolved
		vhAssert(kc != nil && kc == want, "getkey-returns-entry-one-alias-hop-away-with-token")
	} else {
		vhAssert(want == nil, "resolvable-key-not-refused")
		vhAssert(kc == nil, "error-returns-no-key")
	}
}
