package sym

import (
	"fmt"
	"go/types"

	"golang.org/x/tools/go/ssa"

	"gosmt/smt"
)

// A small model of package reflect: enough for length-prefixed serializers
// that walk struct / slice / []byte / uint32 values (signers/apk). A
// reflect.Value is kept in its own three-field shape:
//   field 0: the interned location that stands for the dynamic type
//   field 1: where the value lives - a pointer-like Value (addressable) or a
//            reflBox holding a copy (not addressable)
//   field 2: 1 when addressable
// A reflect.Type is an interface value whose data word is that interned
// location, so == on types is pointer equality, as in the real package.

type reflBox struct{ V Value }

func (in *Interp) reflTypeLoc(t types.Type) *Loc {
	if in.reflTypes == nil {
		in.reflTypes = map[string]*Loc{}
	}
	key := types.TypeString(t, nil)
	if l, ok := in.reflTypes[key]; ok {
		return l
	}
	l := in.newLoc(types.Typ[types.Uintptr])
	l.Native = t
	in.reflTypes[key] = l
	return l
}

func (in *Interp) reflTypeIface(t types.Type) IfaceV {
	return IfaceV{T: types.NewPointer(in.namedType("reflect", "rtype")), V: in.reflTypeLoc(t)}
}

func (in *Interp) reflTypeArg(v Value) types.Type {
	switch x := v.(type) {
	case IfaceV:
		return in.reflTypeArg(x.V)
	case *Loc:
		if x != nil {
			if t, ok := x.Native.(types.Type); ok {
				return t
			}
		}
	}
	panic(unsupported{fmt.Sprintf("reflect: not a modelled Type: %T", v)})
}

func (in *Interp) mkRV(t types.Type, target Value, addressable bool) Value {
	f := uint64(0)
	if addressable {
		f = 1
	}
	return StructV{in.reflTypeLoc(t), target, in.ctx.BV(f, 64)}
}

func (in *Interp) rvParts(v Value) (types.Type, Value, bool) {
	s, ok := v.(StructV)
	if !ok || len(s) != 3 {
		panic(unsupported{fmt.Sprintf("reflect: not a modelled Value: %T", v)})
	}
	tl, _ := s[0].(*Loc)
	if tl == nil {
		return nil, nil, false // the zero Value
	}
	fl, _ := s[2].(*smt.Term)
	return tl.Native.(types.Type), s[1], fl != nil && fl.IsConst() && fl.Val == 1
}

func (in *Interp) rvGet(v Value) (types.Type, Value) {
	t, target, _ := in.rvParts(v)
	if t == nil {
		in.throwRuntime("reflect: call of method on zero Value")
	}
	if b, ok := target.(reflBox); ok {
		return t, b.V
	}
	return t, in.load(target)
}

func (in *Interp) rvSet(v Value, x Value) {
	t, target, addr := in.rvParts(v)
	if t == nil || !addr {
		in.throwRuntime("reflect: Set using unaddressable value")
	}
	in.store(target, x)
}

func reflKind(t types.Type) uint64 {
	switch u := under(t).(type) {
	case *types.Basic:
		switch u.Kind() {
		case types.Bool:
			return 1
		case types.Int:
			return 2
		case types.Int8:
			return 3
		case types.Int16:
			return 4
		case types.Int32:
			return 5
		case types.Int64:
			return 6
		case types.Uint:
			return 7
		case types.Uint8:
			return 8
		case types.Uint16:
			return 9
		case types.Uint32:
			return 10
		case types.Uint64:
			return 11
		case types.Uintptr:
			return 12
		case types.Float32:
			return 13
		case types.Float64:
			return 14
		case types.String:
			return 24
		case types.UnsafePointer:
			return 26
		}
	case *types.Array:
		return 17
	case *types.Chan:
		return 18
	case *types.Signature:
		return 19
	case *types.Interface:
		return 20
	case *types.Map:
		return 21
	case *types.Pointer:
		return 22
	case *types.Slice:
		return 23
	case *types.Struct:
		return 25
	}
	panic(unsupported{"reflect: kind of " + t.String()})
}

func registerReflect(e *Engine) {
	I := e.intrinsics
	I["reflect.TypeOf"] = func(in *Interp, fn *ssa.Function, a []Value) Value {
		iv := a[0].(IfaceV)
		if iv.T == nil {
			return IfaceV{}
		}
		return in.reflTypeIface(iv.T)
	}
	I["reflect.ValueOf"] = func(in *Interp, fn *ssa.Function, a []Value) Value {
		iv := a[0].(IfaceV)
		if iv.T == nil {
			return in.zero(fn.Signature.Results().At(0).Type())
		}
		return in.mkRV(iv.T, reflBox{iv.V}, false)
	}
	I["reflect.Zero"] = func(in *Interp, fn *ssa.Function, a []Value) Value {
		t := in.reflTypeArg(a[0])
		return in.mkRV(t, reflBox{in.zero(t)}, false)
	}
	I["reflect.Append"] = func(in *Interp, fn *ssa.Function, a []Value) Value {
		t, sv := in.rvGet(a[0])
		s := in.conc(sv.(SliceV))
		xs := in.conc(a[1].(SliceV))
		elemT := under(t).(*types.Slice).Elem()
		need := s.Len + xs.Len
		if need > in.eng.MaxArray {
			panic(unwindFail{fmt.Sprintf("reflect.Append grows slice to %d elements (engine limit %d)", need, in.eng.MaxArray)})
		}
		out := in.makeSlice(elemT, need, max(need, 2*s.Cap))
		for i := 0; i < s.Len; i++ {
			in.sliceSet(out, i, in.sliceGet(s, i))
		}
		for i := 0; i < xs.Len; i++ {
			_, xv := in.rvGet(in.sliceGet(xs, i))
			in.sliceSet(out, s.Len+i, xv)
		}
		return in.mkRV(t, reflBox{out}, false)
	}
	I["(*reflect.rtype).Elem"] = func(in *Interp, fn *ssa.Function, a []Value) Value {
		switch u := under(in.reflTypeArg(a[0])).(type) {
		case *types.Slice:
			return in.reflTypeIface(u.Elem())
		case *types.Pointer:
			return in.reflTypeIface(u.Elem())
		case *types.Array:
			return in.reflTypeIface(u.Elem())
		}
		in.throwRuntime("reflect: Elem of invalid type")
		return nil
	}
	I["(*reflect.rtype).String"] = func(in *Interp, fn *ssa.Function, a []Value) Value {
		return StrV{S: types.TypeString(in.reflTypeArg(a[0]), func(p *types.Package) string { return p.Name() })}
	}
	I["(reflect.Value).Type"] = func(in *Interp, fn *ssa.Function, a []Value) Value {
		t, _, _ := in.rvParts(a[0])
		if t == nil {
			in.throwRuntime("reflect: call of reflect.Value.Type on zero Value")
		}
		return in.reflTypeIface(t)
	}
	I["(reflect.Value).Kind"] = func(in *Interp, fn *ssa.Function, a []Value) Value {
		t, _, _ := in.rvParts(a[0])
		if t == nil {
			return in.ctx.BV(0, 64)
		}
		return in.ctx.BV(reflKind(t), 64)
	}
	I["(reflect.Value).IsValid"] = func(in *Interp, fn *ssa.Function, a []Value) Value {
		t, _, _ := in.rvParts(a[0])
		return in.ctx.Bool(t != nil)
	}
	I["(reflect.Value).IsNil"] = func(in *Interp, fn *ssa.Function, a []Value) Value {
		_, v := in.rvGet(a[0])
		switch x := v.(type) {
		case *Loc:
			return in.ctx.Bool(x == nil)
		case SliceV:
			return in.ctx.Bool(x.Nil)
		case IfaceV:
			return in.ctx.Bool(x.T == nil)
		}
		return in.ctx.Bool(false)
	}
	I["(reflect.Value).Elem"] = func(in *Interp, fn *ssa.Function, a []Value) Value {
		t, v := in.rvGet(a[0])
		switch u := under(t).(type) {
		case *types.Pointer:
			l, _ := v.(*Loc)
			if l == nil {
				return in.zero(fn.Signature.Results().At(0).Type())
			}
			return in.mkRV(u.Elem(), l, true)
		case *types.Interface:
			iv := v.(IfaceV)
			if iv.T == nil {
				return in.zero(fn.Signature.Results().At(0).Type())
			}
			return in.mkRV(iv.T, reflBox{iv.V}, false)
		}
		in.throwRuntime("reflect: call of reflect.Value.Elem on " + t.String() + " Value")
		return nil
	}
	I["(reflect.Value).Len"] = func(in *Interp, fn *ssa.Function, a []Value) Value {
		_, v := in.rvGet(a[0])
		switch x := v.(type) {
		case SliceV:
			return in.lenTerm(x)
		case StrV:
			return in.intTerm(x.Len())
		case ArrayV:
			return in.intTerm(len(x))
		}
		in.throwRuntime("reflect: call of reflect.Value.Len on unsupported Value")
		return nil
	}
	I["(reflect.Value).SetLen"] = func(in *Interp, fn *ssa.Function, a []Value) Value {
		_, v := in.rvGet(a[0])
		s := in.conc(v.(SliceV))
		n := in.concreteInt(a[1], "reflect SetLen")
		if n < 0 || n > s.Cap {
			in.throwRuntime("reflect: slice length out of range in SetLen")
		}
		s.Len = n
		in.rvSet(a[0], s)
		return TupleV{}
	}
	I["(reflect.Value).Set"] = func(in *Interp, fn *ssa.Function, a []Value) Value {
		_, x := in.rvGet(a[1])
		in.rvSet(a[0], x)
		return TupleV{}
	}
	I["(reflect.Value).SetUint"] = func(in *Interp, fn *ssa.Function, a []Value) Value {
		t, _, _ := in.rvParts(a[0])
		w := 64
		if b, ok := under(t).(*types.Basic); ok {
			switch b.Kind() {
			case types.Uint8:
				w = 8
			case types.Uint16:
				w = 16
			case types.Uint32:
				w = 32
			}
		}
		x := a[1].(*smt.Term)
		if w < 64 {
			x = in.ctx.Extract(x, w-1, 0)
		}
		in.rvSet(a[0], x)
		return TupleV{}
	}
	I["(reflect.Value).Uint"] = func(in *Interp, fn *ssa.Function, a []Value) Value {
		_, v := in.rvGet(a[0])
		x := v.(*smt.Term)
		if x.W < 64 {
			x = in.ctx.ZExt(x, 64)
		}
		return x
	}
	I["(reflect.Value).SetBytes"] = func(in *Interp, fn *ssa.Function, a []Value) Value {
		in.rvSet(a[0], a[1])
		return TupleV{}
	}
	I["(reflect.Value).Bytes"] = func(in *Interp, fn *ssa.Function, a []Value) Value {
		_, v := in.rvGet(a[0])
		return v
	}
	I["(reflect.Value).Index"] = func(in *Interp, fn *ssa.Function, a []Value) Value {
		t, v := in.rvGet(a[0])
		i := in.concreteInt(a[1], "reflect Index")
		switch u := under(t).(type) {
		case *types.Slice:
			s := in.conc(v.(SliceV))
			if i < 0 || i >= s.Len {
				in.throwRuntime("reflect: slice index out of range")
			}
			return in.mkRV(u.Elem(), in.sliceElemPtr(s, i), true)
		}
		panic(unsupported{"reflect: Index on " + t.String()})
	}
	I["(reflect.Value).NumField"] = func(in *Interp, fn *ssa.Function, a []Value) Value {
		t, _, _ := in.rvParts(a[0])
		st, ok := under(t).(*types.Struct)
		if !ok {
			in.throwRuntime("reflect: call of reflect.Value.NumField on non-struct Value")
		}
		return in.intTerm(st.NumFields())
	}
	I["(reflect.Value).Field"] = func(in *Interp, fn *ssa.Function, a []Value) Value {
		t, target, addr := in.rvParts(a[0])
		st, ok := under(t).(*types.Struct)
		if !ok {
			in.throwRuntime("reflect: call of reflect.Value.Field on non-struct Value")
		}
		i := in.concreteInt(a[1], "reflect Field")
		if i < 0 || i >= st.NumFields() {
			in.throwRuntime("reflect: Field index out of range")
		}
		ft := st.Field(i).Type()
		if b, isBox := target.(reflBox); isBox {
			return in.mkRV(ft, reflBox{b.V.(StructV)[i]}, false)
		}
		l, isLoc := target.(*Loc)
		if !isLoc || l == nil || l.Kids == nil {
			// a struct stored as one element of a compact array: copy out
			sv := in.load(target).(StructV)
			return in.mkRV(ft, reflBox{sv[i]}, false)
		}
		return in.mkRV(ft, l.Kids[i], addr)
	}
}
