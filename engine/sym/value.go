// Package sym is a bounded symbolic executor for Go SSA: concrete heap shape,
// concrete slice lengths, symbolic bit-vector scalars.
package sym

import (
	"fmt"
	"go/types"
	"strings"

	"gosmt/smt"

	"golang.org/x/tools/go/ssa"
)

// Value is one of:
//
//	*smt.Term   bool and integer scalars
//	FloatV      concrete floating point
//	StrV        string
//	*Loc, ElemPtr  pointers
//	SliceV, StructV, ArrayV, IfaceV, TupleV
//	*MapV, *FuncV, *ChanV
//	PoisonV     result of an unsupported initialiser; any use aborts the path
type Value interface{}

type FloatV float64

type ComplexV complex128

// StrV is a string of concrete length: either a concrete Go string or a
// vector of (possibly symbolic) byte terms.
type StrV struct {
	S   string
	Sym []*smt.Term // non-nil => symbolic bytes (len = length)
}

func (s StrV) Len() int {
	if s.Sym != nil {
		return len(s.Sym)
	}
	return len(s.S)
}

func (s StrV) IsConcrete() bool {
	if s.Sym == nil {
		return true
	}
	for _, b := range s.Sym {
		if !b.IsConst() {
			return false
		}
	}
	return true
}

// Concrete returns the Go string if all bytes are constants.
func (s StrV) Concrete() (string, bool) {
	if s.Sym == nil {
		return s.S, true
	}
	bs := make([]byte, len(s.Sym))
	for i, b := range s.Sym {
		if !b.IsConst() {
			return "", false
		}
		bs[i] = byte(b.Val)
	}
	return string(bs), true
}

// Loc is an addressable memory location (a variable, a field, an array).
type Loc struct {
	T      types.Type
	V      Value       // leaf value
	Kids   []*Loc      // struct fields, or elements of an array of aggregates
	Elems  []Value     // compact array of leaf elements (nil entry = zero value)
	ElemT  types.Type  // element type for arrays
	Native interface{} // attached native model (file, hash, ...)
	Lazy   bool        // array backing that grows on demand (symbolic-length slices)
	ID     int
	Parent *Loc // for array element / field locs (used by SliceToArrayPointer only)
}

// ElemPtr points at one element of a compact array.
type ElemPtr struct {
	Arr *Loc
	Idx int
}

type SliceV struct {
	Arr *Loc // array loc (compact or kids); nil for nil/empty
	Off int
	Len int
	Cap int
	Nil bool
	// SLen != nil: the length (and capacity) is this symbolic term; Len/Cap
	// are meaningless and the backing array is lazy (grows on demand).
	SLen *smt.Term
}

type StructV []Value
type ArrayV []Value
type TupleV []Value

type IfaceV struct {
	T types.Type // dynamic type; nil => nil interface
	V Value
}

type FuncV struct {
	Fn     *ssa.Function
	Env    []Value // closure bindings
	Bi     *ssa.Builtin
	Recv   Value  // bound method receiver (for intrinsics producing method values)
	Name   string // native function name (intrinsic-created)
	Native func(in *Interp, args []Value) Value
}

type mapEntry struct {
	K, V Value
}

type MapV struct {
	T       *types.Map
	Entries []mapEntry
	ID      int
}

type ChanV struct {
	T      *types.Chan
	Closed bool
	Buf    []Value
	Cap    int
	ID     int
	// Sym: a harness-declared symbolic channel: readiness decided by the explorer
	Sym bool
	Tag string
}

type PoisonV struct{ Why string }

// ---------------------------------------------------------------------

func under(t types.Type) types.Type { return types.Unalias(t).Underlying() }

func isLeafType(t types.Type) bool {
	switch under(t).(type) {
	case *types.Struct, *types.Array:
		return false
	}
	return true
}

func intWidth(b *types.Basic) (w int, signed bool, ok bool) {
	switch b.Kind() {
	case types.Bool, types.UntypedBool:
		return 0, false, true
	case types.Int8:
		return 8, true, true
	case types.Int16:
		return 16, true, true
	case types.Int32, types.UntypedRune:
		return 32, true, true
	case types.Int, types.Int64, types.UntypedInt:
		return 64, true, true
	case types.Uint8:
		return 8, false, true
	case types.Uint16:
		return 16, false, true
	case types.Uint32:
		return 32, false, true
	case types.Uint, types.Uint64, types.Uintptr:
		return 64, false, true
	}
	return 0, false, false
}

// typeWidth returns bit width and signedness of an integer type.
func typeWidth(t types.Type) (int, bool) {
	if b, ok := under(t).(*types.Basic); ok {
		w, s, ok := intWidth(b)
		if ok {
			return w, s
		}
	}
	panic(unsupported{fmt.Sprintf("not an integer type: %v", t)})
}

func isIntType(t types.Type) bool {
	if b, ok := under(t).(*types.Basic); ok {
		return b.Info()&types.IsInteger != 0
	}
	return false
}

func isFloatType(t types.Type) bool {
	if b, ok := under(t).(*types.Basic); ok {
		return b.Info()&types.IsFloat != 0
	}
	return false
}

func isStringType(t types.Type) bool {
	if b, ok := under(t).(*types.Basic); ok {
		return b.Info()&types.IsString != 0
	}
	return false
}

func isBoolType(t types.Type) bool {
	if b, ok := under(t).(*types.Basic); ok {
		return b.Info()&types.IsBoolean != 0
	}
	return false
}

func (in *Interp) zero(t types.Type) Value {
	switch u := under(t).(type) {
	case *types.Basic:
		switch {
		case u.Info()&types.IsBoolean != 0:
			return in.ctx.False
		case u.Info()&types.IsInteger != 0:
			w, _ := typeWidth(u)
			return in.ctx.BV(0, w)
		case u.Info()&types.IsFloat != 0:
			return FloatV(0)
		case u.Info()&types.IsComplex != 0:
			return ComplexV(0)
		case u.Info()&types.IsString != 0:
			return StrV{}
		case u.Kind() == types.UnsafePointer:
			return (*Loc)(nil)
		case u.Kind() == types.UntypedNil:
			return IfaceV{}
		}
	case *types.Pointer:
		return (*Loc)(nil)
	case *types.Slice:
		return SliceV{Nil: true}
	case *types.Map:
		return (*MapV)(nil)
	case *types.Chan:
		return (*ChanV)(nil)
	case *types.Signature:
		return (*FuncV)(nil)
	case *types.Interface:
		return IfaceV{}
	case *types.Struct:
		s := make(StructV, u.NumFields())
		for i := range s {
			s[i] = in.zero(u.Field(i).Type())
		}
		return s
	case *types.Array:
		n := int(u.Len())
		if n > 1<<16 {
			panic(unsupported{fmt.Sprintf("array value too large: %v", t)})
		}
		a := make(ArrayV, n)
		z := in.zero(u.Elem())
		for i := range a {
			a[i] = z // values are immutable: sharing is fine
		}
		return a
	case *types.Tuple:
		tv := make(TupleV, u.Len())
		for i := range tv {
			tv[i] = in.zero(u.At(i).Type())
		}
		return tv
	}
	panic(unsupported{fmt.Sprintf("zero of %v", t)})
}

func (in *Interp) newLoc(t types.Type) *Loc {
	in.nextID++
	l := &Loc{T: t, ID: in.nextID}
	switch u := under(t).(type) {
	case *types.Struct:
		l.Kids = make([]*Loc, u.NumFields())
		for i := range l.Kids {
			l.Kids[i] = in.newLoc(u.Field(i).Type())
			l.Kids[i].Parent = l
		}
	case *types.Array:
		in.initArrayLoc(l, u.Elem(), int(u.Len()))
	default:
		l.V = in.zero(t)
	}
	return l
}

func (in *Interp) initArrayLoc(l *Loc, elem types.Type, n int) {
	l.ElemT = elem
	if n > in.eng.MaxArray {
		panic(unsupported{fmt.Sprintf("array of %d elements exceeds engine limit %d", n, in.eng.MaxArray)})
	}
	if isLeafType(elem) {
		l.Elems = make([]Value, n)
	} else {
		l.Kids = make([]*Loc, n)
		for i := range l.Kids {
			l.Kids[i] = in.newLoc(elem)
			l.Kids[i].Parent = l
		}
	}
}

// newArray allocates a backing array of n elements of type elem.
func (in *Interp) newArray(elem types.Type, n int) *Loc {
	in.nextID++
	l := &Loc{T: types.NewArray(elem, int64(n)), ID: in.nextID}
	in.initArrayLoc(l, elem, n)
	return l
}

func (l *Loc) isArray() bool { return l.ElemT != nil }

func (l *Loc) arrayLen() int {
	if l.Elems != nil || l.Kids == nil {
		return len(l.Elems)
	}
	return len(l.Kids)
}

// elemPtr returns a pointer value to element i of array loc l.
func (l *Loc) elemPtr(i int) Value {
	if l.Kids != nil {
		return l.Kids[i]
	}
	return ElemPtr{l, i}
}

func (in *Interp) load(p Value) Value {
	switch p := p.(type) {
	case *Loc:
		if p == nil {
			in.throwRuntime("invalid memory address or nil pointer dereference")
		}
		return in.loadLoc(p)
	case ElemPtr:
		v := p.Arr.Elems[p.Idx]
		if v == nil {
			return in.zero(p.Arr.ElemT)
		}
		return v
	case SymElemPtr:
		return in.symLoad(p)
	case PoisonV:
		panic(unsupported{"use of poisoned value: " + p.Why})
	}
	panic(unsupported{fmt.Sprintf("load through %T", p)})
}

func (in *Interp) loadLoc(l *Loc) Value {
	switch {
	case l.isArray():
		n := l.arrayLen()
		a := make(ArrayV, n)
		if l.Kids != nil {
			for i, k := range l.Kids {
				a[i] = in.loadLoc(k)
			}
		} else {
			var z Value
			for i, e := range l.Elems {
				if e == nil {
					if z == nil {
						z = in.zero(l.ElemT)
					}
					e = z
				}
				a[i] = e
			}
		}
		return a
	case l.Kids != nil:
		s := make(StructV, len(l.Kids))
		for i, k := range l.Kids {
			s[i] = in.loadLoc(k)
		}
		return s
	default:
		if _, isStruct := under(l.T).(*types.Struct); isStruct {
			return StructV{}
		}
		return l.V
	}
}

func (in *Interp) store(p Value, v Value) {
	switch p := p.(type) {
	case *Loc:
		if p == nil {
			in.throwRuntime("invalid memory address or nil pointer dereference")
		}
		in.storeLoc(p, v)
		return
	case ElemPtr:
		p.Arr.Elems[p.Idx] = v
		return
	case SymElemPtr:
		in.symStore(p, v)
		return
	case PoisonV:
		panic(unsupported{"use of poisoned value: " + p.Why})
	}
	panic(unsupported{fmt.Sprintf("store through %T", p)})
}

func (in *Interp) storeLoc(l *Loc, v Value) {
	switch {
	case l.isArray():
		a, ok := v.(ArrayV)
		if !ok {
			panic(unsupported{fmt.Sprintf("store %T into array", v)})
		}
		if l.Kids != nil {
			for i, k := range l.Kids {
				in.storeLoc(k, a[i])
			}
		} else {
			copy(l.Elems, a)
		}
	case l.Kids != nil:
		s, ok := v.(StructV)
		if !ok {
			panic(unsupported{fmt.Sprintf("store %T into struct %v", v, l.T)})
		}
		for i, k := range l.Kids {
			in.storeLoc(k, s[i])
		}
	default:
		if _, isStruct := under(l.T).(*types.Struct); isStruct {
			return // empty struct
		}
		l.V = v
	}
}

// ---------------------------------------------------------------------
// slices

// ensureArr grows a lazy backing array to at least n elements.
func (in *Interp) ensureArr(l *Loc, n int) {
	if !l.Lazy || n <= l.arrayLen() {
		return
	}
	if n > in.eng.MaxArray {
		panic(unwindFail{fmt.Sprintf("lazy array grows to %d elements (engine limit %d) at %s", n, in.eng.MaxArray, in.site())})
	}
	if isLeafType(l.ElemT) {
		for len(l.Elems) < n {
			l.Elems = append(l.Elems, nil)
		}
	} else {
		for len(l.Kids) < n {
			k := in.newLoc(l.ElemT)
			k.Parent = l
			l.Kids = append(l.Kids, k)
		}
	}
}

func (in *Interp) newLazyArray(elem types.Type) *Loc {
	in.nextID++
	l := &Loc{T: types.NewArray(elem, 0), ID: in.nextID, ElemT: elem, Lazy: true}
	if isLeafType(elem) {
		l.Elems = []Value{}
	} else {
		l.Kids = []*Loc{}
	}
	return l
}

func (in *Interp) sliceElemPtr(s SliceV, i int) Value {
	in.ensureArr(s.Arr, s.Off+i+1)
	return s.Arr.elemPtr(s.Off + i)
}

func (in *Interp) sliceGet(s SliceV, i int) Value {
	return in.load(in.sliceElemPtr(s, i))
}

func (in *Interp) sliceSet(s SliceV, i int, v Value) {
	in.store(in.sliceElemPtr(s, i), v)
}

// lenTerm returns the length of s as a term.
func (in *Interp) lenTerm(s SliceV) *smt.Term {
	if s.SLen != nil {
		return s.SLen
	}
	return in.ctx.BV(uint64(s.Len), 64)
}

// conc turns a symbolic-length slice into a concrete-length one by forking
// over the feasible lengths (up to the harness bound).
func (in *Interp) conc(s SliceV) SliceV {
	if s.SLen == nil {
		return s
	}
	n := in.Concretize(s.SLen, in.maxLen, "slice length")
	in.ensureArr(s.Arr, s.Off+n)
	cp := n
	if s.Cap > n {
		cp = s.Cap
	}
	return SliceV{Arr: s.Arr, Off: s.Off, Len: n, Cap: cp}
}

// concValue concretizes slices at the top level of a value (also inside an interface).
func (in *Interp) concValue(v Value) Value {
	switch x := v.(type) {
	case SliceV:
		return in.conc(x)
	case IfaceV:
		if sv, ok := x.V.(SliceV); ok && sv.SLen != nil {
			return IfaceV{T: x.T, V: in.conc(sv)}
		}
	}
	return v
}

func (in *Interp) makeSlice(elem types.Type, n, c int) SliceV {
	return SliceV{Arr: in.newArray(elem, c), Off: 0, Len: n, Cap: c}
}

// bytesToSlice builds a fresh []byte from terms.
func (in *Interp) bytesToSlice(bs []*smt.Term) SliceV {
	s := in.makeSlice(types.Typ[types.Uint8], len(bs), len(bs))
	for i, b := range bs {
		s.Arr.Elems[i] = b
	}
	return s
}

// sliceBytes reads a []byte slice as terms.
func (in *Interp) sliceBytes(s SliceV) []*smt.Term {
	out := make([]*smt.Term, s.Len)
	for i := 0; i < s.Len; i++ {
		out[i] = in.sliceGet(s, i).(*smt.Term)
	}
	return out
}

func (in *Interp) strBytes(s StrV) []*smt.Term {
	if s.Sym != nil {
		return s.Sym
	}
	out := make([]*smt.Term, len(s.S))
	for i := 0; i < len(s.S); i++ {
		out[i] = in.ctx.BV(uint64(s.S[i]), 8)
	}
	return out
}

func (in *Interp) mkStr(bs []*smt.Term) StrV {
	all := true
	for _, b := range bs {
		if !b.IsConst() {
			all = false
			break
		}
	}
	if all {
		raw := make([]byte, len(bs))
		for i, b := range bs {
			raw[i] = byte(b.Val)
		}
		return StrV{S: string(raw)}
	}
	if bs == nil {
		bs = []*smt.Term{}
	}
	return StrV{Sym: bs}
}

// ---------------------------------------------------------------------
// debugging

func (in *Interp) show(v Value) string {
	switch v := v.(type) {
	case nil:
		return "<nil>"
	case *smt.Term:
		s := v.String()
		if len(s) > 80 {
			s = s[:80] + "…"
		}
		return s
	case StrV:
		if c, ok := v.Concrete(); ok {
			return fmt.Sprintf("%q", c)
		}
		return fmt.Sprintf("str[%d]", v.Len())
	case *Loc:
		if v == nil {
			return "nil"
		}
		return fmt.Sprintf("&loc%d(%v)", v.ID, v.T)
	case SliceV:
		if v.SLen != nil {
			return "slice[sym]"
		}
		return fmt.Sprintf("slice[%d:%d]", v.Len, v.Cap)
	case StructV:
		parts := make([]string, len(v))
		for i, f := range v {
			parts[i] = in.show(f)
		}
		return "{" + strings.Join(parts, ", ") + "}"
	case IfaceV:
		if v.T == nil {
			return "nil-iface"
		}
		return fmt.Sprintf("iface(%v: %s)", v.T, in.show(v.V))
	case TupleV:
		parts := make([]string, len(v))
		for i, f := range v {
			parts[i] = in.show(f)
		}
		return "(" + strings.Join(parts, ", ") + ")"
	}
	return fmt.Sprintf("%T", v)
}
