package sym

import (
	"fmt"
	"go/types"
	"strings"

	"gosmt/smt"

	"golang.org/x/tools/go/ssa"
)

// encoding/binary Read/Write/Size over fixed-size data, by type layout.

func binSize(t types.Type) (int, bool) {
	switch u := under(t).(type) {
	case *types.Basic:
		switch u.Kind() {
		case types.Bool, types.Int8, types.Uint8:
			return 1, true
		case types.Int16, types.Uint16:
			return 2, true
		case types.Int32, types.Uint32, types.Float32:
			return 4, true
		case types.Int64, types.Uint64, types.Float64:
			return 8, true
		}
		return 0, false
	case *types.Array:
		n, ok := binSize(u.Elem())
		return n * int(u.Len()), ok
	case *types.Struct:
		sum := 0
		for i := 0; i < u.NumFields(); i++ {
			n, ok := binSize(u.Field(i).Type())
			if !ok {
				return 0, false
			}
			sum += n
		}
		return sum, true
	}
	return 0, false
}

func isBigEndian(order Value) bool {
	iv, ok := order.(IfaceV)
	if !ok || iv.T == nil {
		panic(unsupported{"binary: nil byte order"})
	}
	s := iv.T.String()
	switch {
	case strings.HasSuffix(s, "bigEndian"):
		return true
	case strings.HasSuffix(s, "littleEndian"):
		return false
	}
	panic(unsupported{"binary: unknown byte order " + s})
}

// decodeInto fills the location tree at l (type t) from bs, returning bytes consumed.
func (in *Interp) binDecode(t types.Type, bs []*smt.Term, big bool, blank bool) (Value, int) {
	c := in.ctx
	switch u := under(t).(type) {
	case *types.Basic:
		n, ok := binSize(u)
		if !ok {
			panic(unsupported{fmt.Sprintf("binary: type %v", t)})
		}
		if u.Kind() == types.Bool {
			return c.Not(c.Eq(bs[0], c.BV(0, 8))), 1
		}
		if u.Info()&types.IsFloat != 0 {
			panic(unsupported{"binary: float field"})
		}
		var v *smt.Term
		for i := 0; i < n; i++ {
			var b *smt.Term
			if big {
				b = bs[i]
			} else {
				b = bs[n-1-i]
			}
			if v == nil {
				v = b
			} else {
				v = c.Concat(v, b)
			}
		}
		return v, n
	case *types.Array:
		a := make(ArrayV, u.Len())
		off := 0
		for i := range a {
			v, n := in.binDecode(u.Elem(), bs[off:], big, blank)
			a[i] = v
			off += n
		}
		return a, off
	case *types.Struct:
		s := make(StructV, u.NumFields())
		off := 0
		for i := range s {
			f := u.Field(i)
			v, n := in.binDecode(f.Type(), bs[off:], big, blank)
			if f.Name() == "_" {
				v = in.zero(f.Type())
			}
			s[i] = v
			off += n
		}
		return s, off
	}
	panic(unsupported{fmt.Sprintf("binary: type %v", t)})
}

func (in *Interp) binEncode(t types.Type, v Value, big bool, out *[]*smt.Term) {
	c := in.ctx
	switch u := under(t).(type) {
	case *types.Basic:
		n, ok := binSize(u)
		if !ok {
			panic(unsupported{fmt.Sprintf("binary: type %v", t)})
		}
		x, isT := v.(*smt.Term)
		if !isT {
			panic(unsupported{"binary: non-integer value"})
		}
		if u.Kind() == types.Bool {
			*out = append(*out, c.Ite(x, c.BV(1, 8), c.BV(0, 8)))
			return
		}
		for i := 0; i < n; i++ {
			k := i
			if big {
				k = n - 1 - i
			}
			*out = append(*out, c.Extract(x, 8*k+7, 8*k))
		}
	case *types.Array:
		a := v.(ArrayV)
		for _, e := range a {
			in.binEncode(u.Elem(), e, big, out)
		}
	case *types.Struct:
		s := v.(StructV)
		for i := range s {
			f := u.Field(i)
			if f.Name() == "_" {
				n, _ := binSize(f.Type())
				for j := 0; j < n; j++ {
					*out = append(*out, c.BV(0, 8))
				}
				continue
			}
			in.binEncode(f.Type(), s[i], big, out)
		}
	default:
		panic(unsupported{fmt.Sprintf("binary: type %v", t)})
	}
}

func registerBinary(e *Engine) {
	I := e.intrinsics
	I["encoding/binary.Read"] = func(in *Interp, fn *ssa.Function, a []Value) Value {
		r := a[0].(IfaceV)
		big := isBigEndian(a[1])
		data := a[2].(IfaceV)
		if data.T == nil {
			panic(unsupported{"binary.Read: nil data"})
		}
		var elemT types.Type
		count := 1
		var dstSlice SliceV
		isSlice := false
		switch u := under(data.T).(type) {
		case *types.Pointer:
			elemT = u.Elem()
		case *types.Slice:
			elemT = u.Elem()
			dstSlice = data.V.(SliceV)
			count = dstSlice.Len
			isSlice = true
		default:
			panic(unsupported{fmt.Sprintf("binary.Read into %v", data.T)})
		}
		esz, ok := binSize(elemT)
		if !ok {
			return in.newError("binary.Read: invalid type " + elemT.String())
		}
		total := esz * count
		buf := in.makeSlice(types.Typ[types.Uint8], total, total)
		res := in.callNamed("io", "ReadFull", r, buf).(TupleV)
		if err := res[1].(IfaceV); err.T != nil {
			return err
		}
		bs := in.sliceBytes(buf)
		if isSlice {
			off := 0
			for i := 0; i < count; i++ {
				v, n := in.binDecode(elemT, bs[off:], big, false)
				in.sliceSet(dstSlice, i, v)
				off += n
			}
		} else {
			v, _ := in.binDecode(elemT, bs, big, false)
			in.binStoreKeepBlank(data.V, elemT, v)
		}
		return nilError()
	}
	I["encoding/binary.Write"] = func(in *Interp, fn *ssa.Function, a []Value) Value {
		w := a[0].(IfaceV)
		big := isBigEndian(a[1])
		data := a[2].(IfaceV)
		if data.T == nil {
			panic(unsupported{"binary.Write: nil data"})
		}
		var out []*smt.Term
		switch u := under(data.T).(type) {
		case *types.Pointer:
			if _, ok := binSize(u.Elem()); !ok {
				return in.newError("binary.Write: invalid type")
			}
			in.binEncode(u.Elem(), in.load(data.V), big, &out)
		case *types.Slice:
			if _, ok := binSize(u.Elem()); !ok {
				return in.newError("binary.Write: invalid type")
			}
			s := data.V.(SliceV)
			for i := 0; i < s.Len; i++ {
				in.binEncode(u.Elem(), in.sliceGet(s, i), big, &out)
			}
		default:
			if _, ok := binSize(data.T); !ok {
				return in.newError("binary.Write: invalid type " + data.T.String())
			}
			in.binEncode(data.T, data.V, big, &out)
		}
		buf := in.bytesToSlice(out)
		res := in.callMethod(w, "Write", buf).(TupleV)
		return res[1]
	}
	I["encoding/binary.Size"] = func(in *Interp, fn *ssa.Function, a []Value) Value {
		data := a[0].(IfaceV)
		if data.T == nil {
			return in.intTerm(-1)
		}
		t := data.T
		switch u := under(t).(type) {
		case *types.Pointer:
			t = u.Elem()
		case *types.Slice:
			n, ok := binSize(u.Elem())
			if !ok {
				return in.intTerm(-1)
			}
			return in.intTerm(n * data.V.(SliceV).Len)
		}
		n, ok := binSize(t)
		if !ok {
			return in.intTerm(-1)
		}
		return in.intTerm(n)
	}
}

// binStoreKeepBlank stores a decoded value through pointer p; blank struct
// fields keep their zero value (binary.Read skips them).
func (in *Interp) binStoreKeepBlank(p Value, t types.Type, v Value) {
	in.store(p, v)
}
