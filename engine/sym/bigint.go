package sym

import (
	"fmt"
	"go/types"

	"gosmt/smt"

	"golang.org/x/tools/go/ssa"
)

// math/big.Int is modelled as a 64-bit unsigned magnitude plus sign
// ("64-bit stand-ins for big integers"): enough for comparison, bit length
// and fixed-width (de)serialisation of values up to 8 bytes.

type bigModel struct {
	v   *smt.Term // 64-bit magnitude
	neg *smt.Term // Bool
}

func (in *Interp) bigOf(v Value) *bigModel {
	l, ok := v.(*Loc)
	if !ok || l == nil {
		in.throwRuntime("nil *big.Int dereference")
	}
	if m, ok := l.Native.(*bigModel); ok {
		return m
	}
	return &bigModel{v: in.ctx.BV(0, 64), neg: in.ctx.False}
}

func (in *Interp) setBig(v Value, m *bigModel) Value {
	l := v.(*Loc)
	if l == nil {
		in.throwRuntime("nil *big.Int dereference")
	}
	l.Native = m
	return l
}

func (in *Interp) newBig(m *bigModel) *Loc {
	l := in.newLoc(in.namedType("math/big", "Int"))
	l.Native = m
	return l
}

func (in *Interp) bitLen(x *smt.Term) *smt.Term {
	c := in.ctx
	res := c.BV(0, 64)
	for i := 0; i < x.W; i++ {
		bit := c.Eq(c.Extract(x, i, i), c.BV(1, 1))
		res = c.Ite(bit, c.BV(uint64(i+1), 64), res)
	}
	return res
}

func registerBig(e *Engine) {
	I := e.intrinsics
	I["math/big.NewInt"] = func(in *Interp, fn *ssa.Function, a []Value) Value {
		c := in.ctx
		x := a[0].(*smt.Term)
		neg := c.Slt(x, c.BV(0, 64))
		return in.newBig(&bigModel{v: c.Ite(neg, c.BVNeg(x), x), neg: neg})
	}
	I["(*math/big.Int).SetBytes"] = func(in *Interp, fn *ssa.Function, a []Value) Value {
		c := in.ctx
		bs := in.sliceBytes(a[1].(SliceV))
		// leading bytes beyond 8 must be zero (outside the 64-bit stand-in otherwise)
		for len(bs) > 8 {
			if !in.Branch(c.Eq(bs[0], c.BV(0, 8))) {
				in.res.addCut("big.Int.SetBytes: value wider than 64 bits cut at " + in.site())
				panic(pathEnd{"big.Int wider than the 64-bit stand-in"})
			}
			bs = bs[1:]
		}
		v := c.BV(0, 64)
		for _, b := range bs {
			v = c.BVOr(c.BVShl(v, c.BV(8, 64)), c.ZExt(b, 64))
		}
		return in.setBig(a[0], &bigModel{v: v, neg: c.False})
	}
	I["(*math/big.Int).FillBytes"] = func(in *Interp, fn *ssa.Function, a []Value) Value {
		c := in.ctx
		m := in.bigOf(a[0])
		buf := a[1].(SliceV)
		n := buf.Len
		if n < 8 {
			// value must fit in n bytes
			fits := c.Ult(m.v, c.BV(uint64(1)<<(8*uint(n)), 64))
			if n == 0 {
				fits = c.Eq(m.v, c.BV(0, 64))
			}
			if !in.Branch(fits) {
				panic(in.mkPanic(IfaceV{T: types.Typ[types.String], V: StrV{S: "math/big: buffer too small to fit value"}}, "panic: math/big: buffer too small to fit value"))
			}
		}
		for i := 0; i < n; i++ {
			k := n - 1 - i // byte index from the least significant end
			if k >= 8 {
				in.sliceSet(buf, i, c.BV(0, 8))
			} else {
				in.sliceSet(buf, i, c.Extract(m.v, 8*k+7, 8*k))
			}
		}
		return buf
	}
	I["(*math/big.Int).Bytes"] = func(in *Interp, fn *ssa.Function, a []Value) Value {
		c := in.ctx
		m := in.bigOf(a[0])
		nb := in.Concretize(c.BVLshr(c.BVAdd(in.bitLen(m.v), c.BV(7, 64)), c.BV(3, 64)), 8, "big.Int byte length")
		out := make([]*smt.Term, nb)
		for i := 0; i < nb; i++ {
			k := nb - 1 - i
			out[i] = c.Extract(m.v, 8*k+7, 8*k)
		}
		return in.bytesToSlice(out)
	}
	I["(*math/big.Int).BitLen"] = func(in *Interp, fn *ssa.Function, a []Value) Value {
		return in.bitLen(in.bigOf(a[0]).v)
	}
	I["(*math/big.Int).Sign"] = func(in *Interp, fn *ssa.Function, a []Value) Value {
		c := in.ctx
		m := in.bigOf(a[0])
		return c.Ite(c.Eq(m.v, c.BV(0, 64)), c.BV(0, 64), c.Ite(m.neg, c.BV(^uint64(0), 64), c.BV(1, 64)))
	}
	I["(*math/big.Int).Cmp"] = func(in *Interp, fn *ssa.Function, a []Value) Value {
		c := in.ctx
		x, y := in.bigOf(a[0]), in.bigOf(a[1])
		// sign-magnitude comparison
		xz, yz := c.Eq(x.v, c.BV(0, 64)), c.Eq(y.v, c.BV(0, 64))
		xn, yn := c.And(x.neg, c.Not(xz)), c.And(y.neg, c.Not(yz))
		lt := c.Or(c.And(xn, c.Not(yn)), c.And(c.Not(xn), c.Not(yn), c.Ult(x.v, y.v)), c.And(xn, yn, c.Ult(y.v, x.v)))
		eq := c.And(c.Eq(x.v, y.v), c.Eq(xn, yn))
		return c.Ite(eq, c.BV(0, 64), c.Ite(lt, c.BV(^uint64(0), 64), c.BV(1, 64)))
	}
	I["(*math/big.Int).Set"] = func(in *Interp, fn *ssa.Function, a []Value) Value {
		m := in.bigOf(a[1])
		return in.setBig(a[0], &bigModel{v: m.v, neg: m.neg})
	}
	I["(*math/big.Int).SetUint64"] = func(in *Interp, fn *ssa.Function, a []Value) Value {
		return in.setBig(a[0], &bigModel{v: a[1].(*smt.Term), neg: in.ctx.False})
	}
	I["(*math/big.Int).SetInt64"] = func(in *Interp, fn *ssa.Function, a []Value) Value {
		c := in.ctx
		x := a[1].(*smt.Term)
		neg := c.Slt(x, c.BV(0, 64))
		return in.setBig(a[0], &bigModel{v: c.Ite(neg, c.BVNeg(x), x), neg: neg})
	}
	I["(*math/big.Int).Uint64"] = func(in *Interp, fn *ssa.Function, a []Value) Value { return in.bigOf(a[0]).v }
	I["(*math/big.Int).IsUint64"] = func(in *Interp, fn *ssa.Function, a []Value) Value {
		m := in.bigOf(a[0])
		return in.ctx.Or(in.ctx.Not(m.neg), in.ctx.Eq(m.v, in.ctx.BV(0, 64)))
	}
	I["(*math/big.Int).String"] = func(in *Interp, fn *ssa.Function, a []Value) Value { return StrV{S: "<bigint>"} }
	_ = fmt.Sprint
}
