package sym

type fsModel struct{}
type hashModel struct{}

func newFSModel(in *Interp) *fsModel { return &fsModel{} }
func registerOS(e *Engine)           {}
func registerHash(e *Engine)         {}
func registerMisc(e *Engine)         {}
