package sym

import (
	"fmt"
	"go/types"

	"gosmt/smt"

	"golang.org/x/tools/go/ssa"
)

// time.Time is modelled as {wall: 0, ext: nanoseconds since an epoch, loc: nil}.
func (in *Interp) mkTime(ns *smt.Term) Value {
	return StructV{in.ctx.BV(0, 64), ns, (*Loc)(nil)}
}

func timeNS(v Value) *smt.Term {
	s, ok := v.(StructV)
	if !ok || len(s) != 3 {
		panic(unsupported{"time.Time value of unexpected shape"})
	}
	return s[1].(*smt.Term)
}

func registerMisc(e *Engine) {
	I := e.intrinsics
	// frozen clock: time.Now() is one symbolic instant T0 (internal input) plus
	// whatever the harness advanced through vhClockAdvance.
	I["time.Now"] = func(in *Interp, fn *ssa.Function, a []Value) Value {
		return in.mkTime(in.clockNow())
	}
	I["time.Since"] = func(in *Interp, fn *ssa.Function, a []Value) Value {
		return in.ctx.BVSub(in.clockNow(), timeNS(a[0]))
	}
	I["time.Until"] = func(in *Interp, fn *ssa.Function, a []Value) Value {
		return in.ctx.BVSub(timeNS(a[0]), in.clockNow())
	}
	I["(time.Time).Sub"] = func(in *Interp, fn *ssa.Function, a []Value) Value {
		return in.ctx.BVSub(timeNS(a[0]), timeNS(a[1]))
	}
	I["(time.Time).Add"] = func(in *Interp, fn *ssa.Function, a []Value) Value {
		return in.mkTime(in.ctx.BVAdd(timeNS(a[0]), a[1].(*smt.Term)))
	}
	I["(time.Time).After"] = func(in *Interp, fn *ssa.Function, a []Value) Value {
		return in.ctx.Slt(timeNS(a[1]), timeNS(a[0]))
	}
	I["(time.Time).Before"] = func(in *Interp, fn *ssa.Function, a []Value) Value {
		return in.ctx.Slt(timeNS(a[0]), timeNS(a[1]))
	}
	I["(time.Time).Equal"] = func(in *Interp, fn *ssa.Function, a []Value) Value {
		return in.ctx.Eq(timeNS(a[0]), timeNS(a[1]))
	}
	I["(time.Time).Compare"] = func(in *Interp, fn *ssa.Function, a []Value) Value {
		c := in.ctx
		x, y := timeNS(a[0]), timeNS(a[1])
		return c.Ite(c.Slt(x, y), c.BV(^uint64(0), 64), c.Ite(c.Eq(x, y), c.BV(0, 64), c.BV(1, 64)))
	}
	I["(time.Time).IsZero"] = func(in *Interp, fn *ssa.Function, a []Value) Value {
		return in.ctx.Eq(timeNS(a[0]), in.ctx.BV(0, 64))
	}
	ident := func(in *Interp, fn *ssa.Function, a []Value) Value { return a[0] }
	I["(time.Time).UTC"] = ident
	I["(time.Time).Local"] = ident
	I["(time.Time).Round"] = ident
	I["(time.Time).Truncate"] = ident
	I["(time.Time).In"] = ident
	I["(time.Time).UnixNano"] = func(in *Interp, fn *ssa.Function, a []Value) Value { return timeNS(a[0]) }
	I["(time.Time).Format"] = func(in *Interp, fn *ssa.Function, a []Value) Value { return StrV{S: "<time>"} }
	I["(time.Time).String"] = func(in *Interp, fn *ssa.Function, a []Value) Value { return StrV{S: "<time>"} }
	I["time.Sleep"] = func(in *Interp, fn *ssa.Function, a []Value) Value {
		in.res.Events = append(in.res.Events, "sleep")
		in.now = in.ctx.BVAdd(in.clockNow(), a[0].(*smt.Term))
		return TupleV{}
	}
	harnessIntrinsics["vhClockAdvance"] = func(in *Interp, fn *ssa.Function, a []Value) Value {
		in.now = in.ctx.BVAdd(in.clockNow(), a[0].(*smt.Term))
		return TupleV{}
	}
	// timers: C is a symbolic channel that can fire at most vhTimerBudget times
	I["time.NewTimer"] = func(in *Interp, fn *ssa.Function, a []Value) Value {
		t := in.namedType("time", "Timer")
		l := in.newLoc(t)
		in.nextID++
		elem := under(in.structField(l, "C").T).(*types.Chan)
		in.structField(l, "C").V = &ChanV{T: elem, Sym: true, Tag: "timer", ID: in.nextID}
		return l
	}
	I["(*time.Timer).Reset"] = func(in *Interp, fn *ssa.Function, a []Value) Value { return in.ctx.True }
	I["(*time.Timer).Stop"] = func(in *Interp, fn *ssa.Function, a []Value) Value { return in.ctx.True }
	I["time.After"] = func(in *Interp, fn *ssa.Function, a []Value) Value {
		in.nextID++
		ct := types.NewChan(types.RecvOnly, in.namedType("time", "Time"))
		return &ChanV{T: ct, Sym: true, Tag: "after", ID: in.nextID}
	}
	harnessIntrinsics["vhTimerBudget"] = func(in *Interp, fn *ssa.Function, a []Value) Value {
		in.timerBudget = in.concreteInt(a[0], "timer budget")
		return TupleV{}
	}
	// contexts: deadlines and cancellation are not modelled here (no timers, no
	// goroutines): the derived context is the parent, cancel is a no-op.
	ctxDerive := func(in *Interp, fn *ssa.Function, a []Value) Value {
		cancel := &FuncV{Name: "cancel", Native: func(in *Interp, args []Value) Value { return TupleV{} }}
		return TupleV{a[0], cancel}
	}
	I["context.WithTimeout"] = ctxDerive
	I["context.WithDeadline"] = ctxDerive
	I["context.WithCancel"] = ctxDerive

	// sort.Slice / SliceStable: the insertion sort the standard library uses
	// for short slices (n <= 12), driven by the caller's less function.
	sortSlice := func(in *Interp, fn *ssa.Function, a []Value) Value {
		iv := a[0].(IfaceV)
		s, ok := iv.V.(SliceV)
		if !ok {
			panic(unsupported{"sort.Slice of non-slice"})
		}
		if s.Len > 12 {
			panic(unsupported{fmt.Sprintf("sort.Slice of %d elements (model covers n<=12)", s.Len)})
		}
		less := a[1]
		for i := 1; i < s.Len; i++ {
			for j := i; j > 0; j-- {
				r := in.call(less, []Value{in.intTerm(j), in.intTerm(j - 1)}, 0).(*smt.Term)
				if !in.Branch(r) {
					break
				}
				x, y := in.sliceGet(s, j), in.sliceGet(s, j-1)
				in.sliceSet(s, j, y)
				in.sliceSet(s, j-1, x)
			}
		}
		return TupleV{}
	}
	I["sort.Slice"] = sortSlice
	I["sort.SliceStable"] = sortSlice

	I["context.WithValue"] = func(in *Interp, fn *ssa.Function, a []Value) Value {
		parent := a[0].(IfaceV)
		if parent.T == nil {
			in.throwRuntime("cannot create context from nil parent")
		}
		if k := a[1].(IfaceV); k.T == nil {
			in.throwRuntime("nil key")
		} else if !types.Comparable(k.T) {
			in.throwRuntime("key is not comparable")
		}
		t := in.namedType("context", "valueCtx")
		l := in.newLoc(t)
		l.Kids[0].V = parent
		l.Kids[1].V = a[1]
		l.Kids[2].V = a[2]
		return IfaceV{T: types.NewPointer(t), V: l}
	}
	// encoding/json: Marshal returns an opaque one-byte blob that carries the
	// value; Unmarshal of such a blob copies it back when the types agree.
	I["encoding/json.Marshal"] = func(in *Interp, fn *ssa.Function, a []Value) Value {
		v := a[0].(IfaceV)
		blob := in.bytesToSlice([]*smt.Term{in.ctx.BV('?', 8)})
		blob.Arr.Native = &jsonBlob{val: in.deepCopy(v).(IfaceV)}
		return TupleV{blob, nilError()}
	}
	I["encoding/json.Unmarshal"] = func(in *Interp, fn *ssa.Function, a []Value) Value {
		b := a[0].(SliceV)
		dst := a[1].(IfaceV)
		var jb *jsonBlob
		if b.Arr != nil {
			jb, _ = b.Arr.Native.(*jsonBlob)
		}
		if jb == nil {
			panic(unsupported{"json.Unmarshal of bytes not produced by json.Marshal in this run"})
		}
		pt, ok := under(dst.T).(*types.Pointer)
		if !ok {
			return in.newError("json: Unmarshal(non-pointer)")
		}
		if jb.val.T == nil {
			return nilError()
		}
		if !types.Identical(pt.Elem(), jb.val.T) {
			if _, isI := under(pt.Elem()).(*types.Interface); isI {
				in.store(dst.V, jb.val)
				return nilError()
			}
			panic(unsupported{fmt.Sprintf("json.Unmarshal into %v of a blob carrying %v", pt.Elem(), jb.val.T)})
		}
		in.store(dst.V, in.deepCopy(jb.val).(IfaceV).V)
		return nilError()
	}
	I["os.Getenv"] = func(in *Interp, fn *ssa.Function, a []Value) Value { return StrV{} }
	I["os.Hostname"] = func(in *Interp, fn *ssa.Function, a []Value) Value {
		return TupleV{StrV{S: "host"}, nilError()}
	}
	I["os.Getpid"] = func(in *Interp, fn *ssa.Function, a []Value) Value { return in.intTerm(4242) }
	I["os.IsNotExist"] = func(in *Interp, fn *ssa.Function, a []Value) Value {
		return in.ctx.Bool(in.errHasErrno(a[0].(IfaceV), eNOENT, 0))
	}
	I["os.IsExist"] = func(in *Interp, fn *ssa.Function, a []Value) Value {
		return in.ctx.Bool(in.errHasErrno(a[0].(IfaceV), eEXIST, 0))
	}
	// unsafe string/slice helpers used by strings/bytes
	I["unsafe.String"] = func(in *Interp, fn *ssa.Function, a []Value) Value {
		panic(unsupported{"unsafe.String"})
	}
	_ = types.Typ
}

func (in *Interp) errHasErrno(err IfaceV, code int, depth int) bool {
	if err.T == nil || depth > 10 {
		return false
	}
	if n, ok := types.Unalias(err.T).(*types.Named); ok && n.Obj().Name() == "Errno" {
		t := err.V.(*smt.Term)
		return in.Branch(in.ctx.Eq(t, in.ctx.BV(uint64(code), t.W)))
	}
	for _, u := range in.unwrapErr(err) {
		if in.errHasErrno(u, code, depth+1) {
			return true
		}
	}
	// *PathError etc. expose Err through Unwrap; nothing else to look at
	return false
}

type jsonBlob struct{ val IfaceV }

// deepCopy copies slices (fresh backing arrays) so that a marshalled value
// does not alias the original.
func (in *Interp) deepCopy(v Value) Value {
	switch x := v.(type) {
	case IfaceV:
		return IfaceV{T: x.T, V: in.deepCopy(x.V)}
	case SliceV:
		x = in.conc(x)
		if x.Arr == nil {
			return x
		}
		out := in.makeSlice(x.Arr.ElemT, x.Len, x.Len)
		for i := 0; i < x.Len; i++ {
			in.sliceSet(out, i, in.deepCopy(in.sliceGet(x, i)))
		}
		return out
	case StructV:
		o := make(StructV, len(x))
		for i := range x {
			o[i] = in.deepCopy(x[i])
		}
		return o
	case ArrayV:
		o := make(ArrayV, len(x))
		for i := range x {
			o[i] = in.deepCopy(x[i])
		}
		return o
	}
	return v
}

func (in *Interp) clockNow() *smt.Term {
	if in.now == nil {
		c := in.ctx
		t := in.fresh("time.T0", 64)
		in.inputs = append(in.inputs, Input{Tag: "time.T0", Kind: "u64", Term: t, Internal: true})
		in.assume(c.And(c.Sle(c.BV(1<<40, 64), t), c.Slt(t, c.BV(1<<61, 64))))
		in.now = t
	}
	return in.now
}
