package sym

import (
	"fmt"
	"go/types"
	"strings"

	"gosmt/smt"

	"golang.org/x/tools/go/ssa"
)

// time.Time is modelled as {wall: 0, ext: nanoseconds since an epoch, loc: nil}.
func (in *Interp) mkTime(ns *smt.Term) Value {
	return StructV{in.ctx.BV(0, 64), ns, (*Loc)(nil)}
}

func timeNS(v Value) *smt.Term {
	s, ok := v.(StructV)
	if !ok || len(s) != 3 {
		panic(unsupported{"time.Time value of unexpected shape"})
	}
	return s[1].(*smt.Term)
}

func registerMisc(e *Engine) {
	I := e.intrinsics
	// frozen clock: time.Now() is one symbolic instant T0 (internal input) plus
	// whatever the harness advanced through vhClockAdvance.
	I["time.Now"] = func(in *Interp, fn *ssa.Function, a []Value) Value {
		return in.mkTime(in.clockNow())
	}
	I["time.Since"] = func(in *Interp, fn *ssa.Function, a []Value) Value {
		return in.ctx.BVSub(in.clockNow(), timeNS(a[0]))
	}
	I["time.Until"] = func(in *Interp, fn *ssa.Function, a []Value) Value {
		return in.ctx.BVSub(timeNS(a[0]), in.clockNow())
	}
	I["(time.Time).Sub"] = func(in *Interp, fn *ssa.Function, a []Value) Value {
		return in.ctx.BVSub(timeNS(a[0]), timeNS(a[1]))
	}
	I["(time.Time).Add"] = func(in *Interp, fn *ssa.Function, a []Value) Value {
		return in.mkTime(in.ctx.BVAdd(timeNS(a[0]), a[1].(*smt.Term)))
	}
	I["(time.Time).After"] = func(in *Interp, fn *ssa.Function, a []Value) Value {
		return in.ctx.Slt(timeNS(a[1]), timeNS(a[0]))
	}
	I["(time.Time).Before"] = func(in *Interp, fn *ssa.Function, a []Value) Value {
		return in.ctx.Slt(timeNS(a[0]), timeNS(a[1]))
	}
	I["(time.Time).Equal"] = func(in *Interp, fn *ssa.Function, a []Value) Value {
		return in.ctx.Eq(timeNS(a[0]), timeNS(a[1]))
	}
	I["(time.Time).Compare"] = func(in *Interp, fn *ssa.Function, a []Value) Value {
		c := in.ctx
		x, y := timeNS(a[0]), timeNS(a[1])
		return c.Ite(c.Slt(x, y), c.BV(^uint64(0), 64), c.Ite(c.Eq(x, y), c.BV(0, 64), c.BV(1, 64)))
	}
	I["(time.Time).IsZero"] = func(in *Interp, fn *ssa.Function, a []Value) Value {
		return in.ctx.Eq(timeNS(a[0]), in.ctx.BV(0, 64))
	}
	ident := func(in *Interp, fn *ssa.Function, a []Value) Value { return a[0] }
	I["(time.Time).UTC"] = ident
	I["(time.Time).Local"] = ident
	I["(time.Time).Round"] = ident
	I["(time.Time).Truncate"] = ident
	I["(time.Time).In"] = ident
	I["(time.Time).UnixNano"] = func(in *Interp, fn *ssa.Function, a []Value) Value { return timeNS(a[0]) }
	I["(time.Time).Format"] = func(in *Interp, fn *ssa.Function, a []Value) Value { return StrV{S: "<time>"} }
	I["(time.Time).String"] = func(in *Interp, fn *ssa.Function, a []Value) Value { return StrV{S: "<time>"} }
	I["time.Sleep"] = func(in *Interp, fn *ssa.Function, a []Value) Value {
		in.res.Events = append(in.res.Events, "sleep")
		in.now = in.ctx.BVAdd(in.clockNow(), a[0].(*smt.Term))
		return TupleV{}
	}
	// zerolog is opaque, but a context handed to it must come back: it still
	// carries the request's own values (cancellation, user info)
	for _, n := range []string{"(github.com/rs/zerolog.Logger).WithContext", "(*github.com/rs/zerolog.Logger).WithContext"} {
		I[n] = func(in *Interp, fn *ssa.Function, a []Value) Value { return a[1] }
	}
	// vhClockConcrete(): the clock reads a fixed instant from here on (for code
	// that only formats the time into output the property does not look at;
	// calendar arithmetic on a symbolic instant is division-heavy)
	harnessIntrinsics["vhClockConcrete"] = func(in *Interp, fn *ssa.Function, a []Value) Value {
		in.now = in.ctx.BV(1600000000_000000000, 64)
		return TupleV{}
	}
	harnessIntrinsics["vhClockAdvance"] = func(in *Interp, fn *ssa.Function, a []Value) Value {
		in.now = in.ctx.BVAdd(in.clockNow(), a[0].(*smt.Term))
		return TupleV{}
	}
	// timers: C is a symbolic channel that can fire at most vhTimerBudget times
	I["time.NewTimer"] = func(in *Interp, fn *ssa.Function, a []Value) Value {
		t := in.namedType("time", "Timer")
		l := in.newLoc(t)
		in.nextID++
		elem := under(in.structField(l, "C").T).(*types.Chan)
		in.structField(l, "C").V = &ChanV{T: elem, Sym: true, Tag: "timer", ID: in.nextID}
		return l
	}
	I["(*time.Timer).Reset"] = func(in *Interp, fn *ssa.Function, a []Value) Value { return in.ctx.True }
	I["(*time.Timer).Stop"] = func(in *Interp, fn *ssa.Function, a []Value) Value { return in.ctx.True }
	I["time.After"] = func(in *Interp, fn *ssa.Function, a []Value) Value {
		in.nextID++
		ct := types.NewChan(types.RecvOnly, in.namedType("time", "Time"))
		return &ChanV{T: ct, Sym: true, Tag: "after", ID: in.nextID}
	}
	harnessIntrinsics["vhTimerBudget"] = func(in *Interp, fn *ssa.Function, a []Value) Value {
		in.timerBudget = in.concreteInt(a[0], "timer budget")
		return TupleV{}
	}
	// derived contexts: a *context.cancelCtx / *context.timerCtx value with a
	// native model attached. No goroutines or timers: a deadline "eventually
	// passes" - Done() of a timeout context is a closed channel and from then
	// on Err() is DeadlineExceeded, unless the parent reports an error first.
	mkCtx := func(in *Interp, parent IfaceV, timeout bool) (Value, *ctxModel) {
		if parent.T == nil {
			in.throwRuntime("cannot create context from nil parent")
		}
		tn := "cancelCtx"
		if timeout {
			tn = "timerCtx"
		}
		t := in.namedType("context", tn)
		l := in.newLoc(t)
		cc := l
		if timeout {
			cc = l.Kids[0] // embedded cancelCtx
		}
		cc.Kids[0].V = parent // cancelCtx.Context
		m := &ctxModel{parent: parent, timeout: timeout}
		cc.Native = m
		return IfaceV{T: types.NewPointer(t), V: l}, m
	}
	ctxWith := func(timeout bool) intrinsicFn {
		return func(in *Interp, fn *ssa.Function, a []Value) Value {
			ctx, m := mkCtx(in, a[0].(IfaceV), timeout)
			cancel := &FuncV{Name: "cancel", Native: func(in *Interp, args []Value) Value {
				if !m.fired {
					m.cancelled = true
				}
				return TupleV{}
			}}
			return TupleV{ctx, cancel}
		}
	}
	I["context.WithTimeout"] = ctxWith(true)
	I["context.WithDeadline"] = ctxWith(true)
	I["context.WithCancel"] = ctxWith(false)
	ctxOf := func(v Value) *ctxModel {
		l, _ := v.(*Loc)
		if l == nil {
			panic(unsupported{"context method on nil"})
		}
		m, ok := l.Native.(*ctxModel)
		if !ok {
			panic(unsupported{"context value not created by the context model"})
		}
		return m
	}
	parentErr := func(in *Interp, m *ctxModel) IfaceV {
		return in.callMethod(m.parent, "Err").(IfaceV)
	}
	I["(*context.cancelCtx).Done"] = func(in *Interp, fn *ssa.Function, a []Value) Value {
		m := ctxOf(a[0])
		ct := types.NewChan(types.RecvOnly, types.NewStruct(nil, nil))
		in.nextID++
		ch := &ChanV{T: ct, ID: in.nextID}
		if m.cancelled || m.fired || parentErr(in, m).T != nil {
			ch.Closed = true
		} else if m.timeout {
			// the deadline eventually passes
			m.fired = true
			ch.Closed = true
		}
		return ch
	}
	I["(*context.cancelCtx).Err"] = func(in *Interp, fn *ssa.Function, a []Value) Value {
		m := ctxOf(a[0])
		if m.cancelled {
			return in.globalVar("context", "Canceled")
		}
		if pe := parentErr(in, m); pe.T != nil {
			return pe
		}
		if m.fired {
			return in.globalVar("context", "DeadlineExceeded")
		}
		return nilError()
	}
	I["(*context.timerCtx).Deadline"] = func(in *Interp, fn *ssa.Function, a []Value) Value {
		return TupleV{in.mkTime(in.ctx.BV(0, 64)), in.ctx.False}
	}
	// (*http.Client).Do with a harness transport: c.Transport.RoundTrip(req);
	// a transport error is wrapped in *url.Error as the real client does.
	I["(*net/http.Client).Do"] = func(in *Interp, fn *ssa.Function, a []Value) Value {
		c := a[0].(*Loc)
		tr := in.load(in.structField(c, "Transport")).(IfaceV)
		if tr.T == nil {
			panic(unsupported{"http.Client.Do without a harness transport (real HTTP is outside the engine)"})
		}
		req := a[1].(*Loc)
		res := in.callMethod(tr, "RoundTrip", req).(TupleV)
		if err := res[1].(IfaceV); err.T != nil {
			t := in.namedType("net/url", "Error")
			l := in.newLoc(t)
			method := "Get"
			if ms, ok := in.load(in.structField(req, "Method")).(StrV); ok {
				if cs, ok := ms.Concrete(); ok && cs != "" {
					method = cs[:1] + strings.ToLower(cs[1:])
				}
			}
			in.structField(l, "Op").V = StrV{S: method}
			in.structField(l, "URL").V = StrV{S: "<url>"}
			in.structField(l, "Err").V = err
			return TupleV{(*Loc)(nil), IfaceV{T: types.NewPointer(t), V: l}}
		}
		return res
	}

	// sort.Slice / SliceStable: the insertion sort the standard library uses
	// for short slices (n <= 12), driven by the caller's less function.
	sortSlice := func(in *Interp, fn *ssa.Function, a []Value) Value {
		iv := a[0].(IfaceV)
		s, ok := iv.V.(SliceV)
		if !ok {
			panic(unsupported{"sort.Slice of non-slice"})
		}
		if s.Len > 12 {
			panic(unsupported{fmt.Sprintf("sort.Slice of %d elements (model covers n<=12)", s.Len)})
		}
		less := a[1]
		for i := 1; i < s.Len; i++ {
			for j := i; j > 0; j-- {
				r := in.call(less, []Value{in.intTerm(j), in.intTerm(j - 1)}, 0).(*smt.Term)
				if !in.Branch(r) {
					break
				}
				x, y := in.sliceGet(s, j), in.sliceGet(s, j-1)
				in.sliceSet(s, j, y)
				in.sliceSet(s, j-1, x)
			}
		}
		return TupleV{}
	}
	I["sort.Slice"] = sortSlice
	I["sort.SliceStable"] = sortSlice

	I["context.WithValue"] = func(in *Interp, fn *ssa.Function, a []Value) Value {
		parent := a[0].(IfaceV)
		if parent.T == nil {
			in.throwRuntime("cannot create context from nil parent")
		}
		if k := a[1].(IfaceV); k.T == nil {
			in.throwRuntime("nil key")
		} else if !types.Comparable(k.T) {
			in.throwRuntime("key is not comparable")
		}
		t := in.namedType("context", "valueCtx")
		l := in.newLoc(t)
		l.Kids[0].V = parent
		l.Kids[1].V = a[1]
		l.Kids[2].V = a[2]
		return IfaceV{T: types.NewPointer(t), V: l}
	}
	// encoding/json: Marshal returns an opaque one-byte blob that carries the
	// value; Unmarshal of such a blob copies it back when the types agree.
	I["encoding/json.Marshal"] = func(in *Interp, fn *ssa.Function, a []Value) Value {
		v := a[0].(IfaceV)
		in.jsonBlobs = append(in.jsonBlobs, in.deepCopy(v).(IfaceV))
		id := len(in.jsonBlobs) - 1
		raw := []byte{0, 'J', 'S', 'O', 'N', byte(id >> 8), byte(id), 0}
		bs := make([]*smt.Term, len(raw))
		for i, b := range raw {
			bs[i] = in.ctx.BV(uint64(b), 8)
		}
		return TupleV{in.bytesToSlice(bs), nilError()}
	}
	I["encoding/json.Unmarshal"] = func(in *Interp, fn *ssa.Function, a []Value) Value {
		b := a[0].(SliceV)
		dst := a[1].(IfaceV)
		id := -1
		if b.Len == 8 {
			bs := in.sliceBytes(b)
			ok := true
			for _, t := range bs {
				if !t.IsConst() {
					ok = false
				}
			}
			if ok && bs[0].Val == 0 && bs[1].Val == 'J' && bs[2].Val == 'S' && bs[3].Val == 'O' && bs[4].Val == 'N' {
				id = int(bs[5].Val)<<8 | int(bs[6].Val)
			}
		}
		if id < 0 || id >= len(in.jsonBlobs) {
			// bytes that no json.Marshal of this run produced: a syntax error
			return in.newError("invalid character looking for beginning of value")
		}
		val := in.jsonBlobs[id]
		pt, ok := under(dst.T).(*types.Pointer)
		if !ok {
			return in.newError("json: Unmarshal(non-pointer)")
		}
		if val.T == nil {
			return nilError()
		}
		src := val.T
		if sp, ok := under(src).(*types.Pointer); ok && !types.Identical(src, pt.Elem()) {
			// marshalled through a pointer: same encoding as the pointee
			if l, ok := val.V.(*Loc); ok && l != nil {
				val = IfaceV{T: sp.Elem(), V: in.load(l)}
				src = sp.Elem()
			}
		}
		if !types.Identical(pt.Elem(), src) {
			if _, isI := under(pt.Elem()).(*types.Interface); isI {
				in.store(dst.V, val)
				return nilError()
			}
			panic(unsupported{fmt.Sprintf("json.Unmarshal into %v of a blob carrying %v", pt.Elem(), src)})
		}
		in.store(dst.V, in.deepCopy(val).(IfaceV).V)
		return nilError()
	}
	// unique.Make: canonical handles (netip.Addr zones): equal values share one
	// pointer, kept in a per-path table.
	I["unique.Make"] = func(in *Interp, fn *ssa.Function, a []Value) Value {
		for _, e := range in.uniques {
			if eq := in.valueEqSafe(e.val, a[0]); eq != nil && eq.IsTrue() {
				return StructV{e.loc}
			}
		}
		t := fn.Signature.Params().At(0).Type()
		l := in.newLoc(t)
		in.storeLoc(l, a[0])
		in.uniques = append(in.uniques, uniqueEntry{val: a[0], loc: l})
		return StructV{l}
	}
	I["(unique.Handle).Value"] = func(in *Interp, fn *ssa.Function, a []Value) Value {
		h := a[0].(StructV)
		return in.load(h[0])
	}
	I["os.Getenv"] = func(in *Interp, fn *ssa.Function, a []Value) Value { return StrV{} }
	I["os.Hostname"] = func(in *Interp, fn *ssa.Function, a []Value) Value {
		return TupleV{StrV{S: "host"}, nilError()}
	}
	I["os.Getpid"] = func(in *Interp, fn *ssa.Function, a []Value) Value { return in.intTerm(4242) }
	I["os.IsNotExist"] = func(in *Interp, fn *ssa.Function, a []Value) Value {
		return in.ctx.Bool(in.errHasErrno(a[0].(IfaceV), eNOENT, 0))
	}
	I["os.IsExist"] = func(in *Interp, fn *ssa.Function, a []Value) Value {
		return in.ctx.Bool(in.errHasErrno(a[0].(IfaceV), eEXIST, 0))
	}
	// unsafe string/slice helpers used by strings/bytes
	I["unsafe.String"] = func(in *Interp, fn *ssa.Function, a []Value) Value {
		panic(unsupported{"unsafe.String"})
	}
	_ = types.Typ
}

func (in *Interp) errHasErrno(err IfaceV, code int, depth int) bool {
	if err.T == nil || depth > 10 {
		return false
	}
	if n, ok := types.Unalias(err.T).(*types.Named); ok && n.Obj().Name() == "Errno" {
		t := err.V.(*smt.Term)
		return in.Branch(in.ctx.Eq(t, in.ctx.BV(uint64(code), t.W)))
	}
	for _, u := range in.unwrapErr(err) {
		if in.errHasErrno(u, code, depth+1) {
			return true
		}
	}
	// *PathError etc. expose Err through Unwrap; nothing else to look at
	return false
}

type ctxModel struct {
	parent    IfaceV
	timeout   bool
	cancelled bool
	fired     bool
}

// deepCopy copies slices (fresh backing arrays) so that a marshalled value
// does not alias the original.
func (in *Interp) deepCopy(v Value) Value {
	switch x := v.(type) {
	case IfaceV:
		return IfaceV{T: x.T, V: in.deepCopy(x.V)}
	case SliceV:
		x = in.conc(x)
		if x.Arr == nil {
			return x
		}
		out := in.makeSlice(x.Arr.ElemT, x.Len, x.Len)
		for i := 0; i < x.Len; i++ {
			in.sliceSet(out, i, in.deepCopy(in.sliceGet(x, i)))
		}
		return out
	case StructV:
		o := make(StructV, len(x))
		for i := range x {
			o[i] = in.deepCopy(x[i])
		}
		return o
	case ArrayV:
		o := make(ArrayV, len(x))
		for i := range x {
			o[i] = in.deepCopy(x[i])
		}
		return o
	}
	return v
}

func (in *Interp) clockNow() *smt.Term {
	if in.now == nil {
		c := in.ctx
		t := in.fresh("time.T0", 64)
		in.inputs = append(in.inputs, Input{Tag: "time.T0", Kind: "u64", Term: t, Internal: true})
		in.assume(c.And(c.Sle(c.BV(1<<40, 64), t), c.Slt(t, c.BV(1<<61, 64))))
		in.now = t
	}
	return in.now
}

type uniqueEntry struct {
	val Value
	loc *Loc
}

// valueEqSafe is valueEq that returns nil instead of aborting on shapes it cannot compare.
func (in *Interp) valueEqSafe(x, y Value) (t *smt.Term) {
	defer func() {
		if r := recover(); r != nil {
			if _, ok := r.(unsupported); ok {
				t = nil
				return
			}
			panic(r)
		}
	}()
	return in.valueEq(x, y)
}
