package sym

import (
	"crypto/md5"
	"crypto/sha1"
	"crypto/sha256"
	"crypto/sha512"
	"fmt"
	"go/types"
	"hash/crc32"

	"gosmt/smt"

	"golang.org/x/tools/go/ssa"
)

// Hash functions are modelled as injective functions of the byte stream:
// Sum returns fresh bytes H_k, and for every pair of Sum results of the same
// algorithm on a path  stream_i = stream_j  <=>  H_i = H_j  is asserted.
// Collision freedom is therefore an assumption of every digest claim.

type hashModel struct {
	alg    string
	size   int
	block  int
	stream []*smt.Term
}

type hashSum struct {
	alg    string
	stream []*smt.Term
	out    []*smt.Term
	real   bool // computed from a constant stream, not modelled
}

type hashAlg struct {
	pkg, typ string
	size     int
	block    int
}

var hashAlgs = map[string]hashAlg{
	"sha1":   {"crypto/sha1", "digest", 20, 64},
	"sha256": {"crypto/sha256", "digest", 32, 64},
	"sha224": {"crypto/sha256", "digest", 28, 64},
	"sha512": {"crypto/sha512", "digest", 64, 128},
	"sha384": {"crypto/sha512", "digest", 48, 128},
	"md5":    {"crypto/md5", "digest", 16, 64},
	"crc32":  {"hash/crc32", "digest", 4, 1},
}

func (in *Interp) newHash(alg string) Value {
	a := hashAlgs[alg]
	t := in.namedType(a.pkg, a.typ)
	l := in.newLoc(t)
	l.Native = &hashModel{alg: alg, size: a.size, block: a.block}
	return IfaceV{T: types.NewPointer(t), V: l}
}

func hashOf(v Value) *hashModel {
	l, ok := v.(*Loc)
	if !ok || l == nil {
		panic(unsupported{"hash method on nil"})
	}
	h, ok := l.Native.(*hashModel)
	if !ok {
		panic(unsupported{"hash object not created by the hash model (zero-value digest?)"})
	}
	return h
}

func (in *Interp) hashSum(alg string, size int, stream []*smt.Term) []*smt.Term {
	c := in.ctx
	// identical stream seen before: same result
	for _, s := range in.sums {
		if s.alg == alg && len(s.stream) == len(stream) {
			same := true
			for i := range stream {
				if s.stream[i] != stream[i] {
					same = false
					break
				}
			}
			if same {
				return s.out
			}
		}
	}
	out := make([]*smt.Term, size)
	allConst := true
	for _, b := range stream {
		if !b.IsConst() {
			allConst = false
		}
	}
	tag := "H." + alg
	if allConst && in.eng.ReplayModel != nil {
		// concrete re-execution: every stream is constant now; this digest was
		// modelled in the symbolic run exactly if the model names its output
		name := freshName(tag, in.symCount[tag], 8)
		if _, modelled := in.eng.ReplayModel[name]; modelled {
			allConst = false
		}
	}
	if allConst {
		// a constant stream has its real digest; the output symbols it would
		// have used are skipped so that numbering stays aligned with replay
		raw := make([]byte, len(stream))
		for i, b := range stream {
			raw[i] = byte(b.Val)
		}
		sum := realDigest(alg, raw)
		for i := range out {
			out[i] = c.BV(uint64(sum[i]), 8)
		}
		in.symCount[tag] += size
	} else {
		for i := range out {
			out[i] = in.fresh(tag, 8)
		}
	}
	for _, s := range in.sums {
		if s.alg != alg || (allConst && s.real) {
			// two real digests need no axiom
			continue
		}
		var outEq []*smt.Term
		for i := range out {
			outEq = append(outEq, c.Eq(out[i], s.out[i]))
		}
		if len(s.stream) != len(stream) {
			in.assume(c.Not(c.And(outEq...)))
			continue
		}
		var inEq []*smt.Term
		for i := range stream {
			inEq = append(inEq, c.Eq(stream[i], s.stream[i]))
		}
		in.assume(c.Eq(c.And(inEq...), c.And(outEq...)))
	}
	in.sums = append(in.sums, &hashSum{alg: alg, stream: append([]*smt.Term(nil), stream...), out: out, real: allConst})
	in.res.Events = append(in.res.Events, fmt.Sprintf("hash:%s len=%d", alg, len(stream)))
	return out
}

func registerHash(e *Engine) {
	I := e.intrinsics
	mk := func(alg string) intrinsicFn {
		return func(in *Interp, fn *ssa.Function, a []Value) Value { return in.newHash(alg) }
	}
	I["crypto/sha1.New"] = mk("sha1")
	I["crypto/sha256.New"] = mk("sha256")
	I["crypto/sha256.New224"] = mk("sha224")
	I["crypto/sha512.New"] = mk("sha512")
	I["crypto/sha512.New384"] = mk("sha384")
	I["crypto/md5.New"] = mk("md5")
	I["hash/crc32.NewIEEE"] = mk("crc32")
	I["(crypto.Hash).New"] = func(in *Interp, fn *ssa.Function, a []Value) Value {
		h := in.Concretize(a[0].(*smt.Term), 20, "crypto.Hash")
		switch h {
		case 2:
			return in.newHash("md5")
		case 3:
			return in.newHash("sha1")
		case 4:
			return in.newHash("sha224")
		case 5:
			return in.newHash("sha256")
		case 6:
			return in.newHash("sha384")
		case 7:
			return in.newHash("sha512")
		}
		panic(in.mkPanic(IfaceV{T: types.Typ[types.String], V: StrV{S: "crypto: requested hash function is unavailable"}}, "panic: crypto: requested hash function #"+fmt.Sprint(h)+" is unavailable"))
	}
	I["(crypto.Hash).Available"] = func(in *Interp, fn *ssa.Function, a []Value) Value {
		c := in.ctx
		h := a[0].(*smt.Term)
		return c.And(c.Ule(c.BV(2, h.W), h), c.Ule(h, c.BV(7, h.W)))
	}
	for _, p := range []string{"crypto/sha1", "crypto/sha256", "crypto/sha512", "crypto/md5", "hash/crc32"} {
		pre := "(*" + p + ".digest)."
		I[pre+"Write"] = func(in *Interp, fn *ssa.Function, a []Value) Value {
			h := hashOf(a[0])
			b := a[1].(SliceV)
			h.stream = append(h.stream, in.sliceBytes(b)...)
			return TupleV{in.intTerm(b.Len), nilError()}
		}
		I[pre+"Sum"] = func(in *Interp, fn *ssa.Function, a []Value) Value {
			h := hashOf(a[0])
			out := in.hashSum(h.alg, h.size, h.stream)
			return in.appendDigest(a[1].(SliceV), out)
		}
		I[pre+"Reset"] = func(in *Interp, fn *ssa.Function, a []Value) Value {
			hashOf(a[0]).stream = nil
			return TupleV{}
		}
		I[pre+"Size"] = func(in *Interp, fn *ssa.Function, a []Value) Value { return in.intTerm(hashOf(a[0]).size) }
		I[pre+"BlockSize"] = func(in *Interp, fn *ssa.Function, a []Value) Value { return in.intTerm(hashOf(a[0]).block) }
	}
	I["(*hash/crc32.digest).Sum32"] = func(in *Interp, fn *ssa.Function, a []Value) Value {
		h := hashOf(a[0])
		out := in.hashSum(h.alg, 4, h.stream)
		c := in.ctx
		return c.Concat(c.Concat(c.Concat(out[0], out[1]), out[2]), out[3])
	}
	sumFn := func(alg string, size int) intrinsicFn {
		return func(in *Interp, fn *ssa.Function, a []Value) Value {
			out := in.hashSum(alg, size, in.sliceBytes(a[0].(SliceV)))
			arr := make(ArrayV, size)
			for i := range arr {
				arr[i] = out[i]
			}
			return arr
		}
	}
	I["crypto/sha1.Sum"] = sumFn("sha1", 20)
	I["crypto/sha256.Sum256"] = sumFn("sha256", 32)
	I["crypto/sha512.Sum512"] = sumFn("sha512", 64)
	I["crypto/md5.Sum"] = sumFn("md5", 16)
	I["hash/crc32.ChecksumIEEE"] = func(in *Interp, fn *ssa.Function, a []Value) Value {
		out := in.hashSum("crc32", 4, in.sliceBytes(a[0].(SliceV)))
		c := in.ctx
		return c.Concat(c.Concat(c.Concat(out[0], out[1]), out[2]), out[3])
	}
	I["crypto/hmac.Equal"] = func(in *Interp, fn *ssa.Function, a []Value) Value {
		return in.strEq(in.mkStr(in.sliceBytes(a[0].(SliceV))), in.mkStr(in.sliceBytes(a[1].(SliceV))))
	}
	I["crypto/subtle.ConstantTimeCompare"] = func(in *Interp, fn *ssa.Function, a []Value) Value {
		c := in.ctx
		eq := in.strEq(in.mkStr(in.sliceBytes(a[0].(SliceV))), in.mkStr(in.sliceBytes(a[1].(SliceV))))
		return c.Ite(eq, c.BV(1, 64), c.BV(0, 64))
	}
}

// realDigest computes the actual digest of a constant byte stream.
func realDigest(alg string, b []byte) []byte {
	switch alg {
	case "sha1":
		s := sha1.Sum(b)
		return s[:]
	case "sha256":
		s := sha256.Sum256(b)
		return s[:]
	case "sha224":
		s := sha256.Sum224(b)
		return s[:]
	case "sha512":
		s := sha512.Sum512(b)
		return s[:]
	case "sha384":
		s := sha512.Sum384(b)
		return s[:]
	case "md5":
		s := md5.Sum(b)
		return s[:]
	case "crc32":
		v := crc32.ChecksumIEEE(b)
		return []byte{byte(v >> 24), byte(v >> 16), byte(v >> 8), byte(v)}
	}
	panic(unsupported{"digest algorithm " + alg})
}

// appendDigest is append(prefix, digest...) with Go's aliasing and capacity
// behaviour: written in place when the prefix has room (callers re-slice the
// result up to the capacity they allocated), into a fresh array otherwise.
func (in *Interp) appendDigest(prefix SliceV, out []*smt.Term) Value {
	prefix = in.conc(prefix)
	need := prefix.Len + len(out)
	if prefix.Arr != nil && need <= prefix.Cap {
		res := SliceV{Arr: prefix.Arr, Off: prefix.Off, Len: need, Cap: prefix.Cap}
		for i, v := range out {
			in.sliceSet(res, prefix.Len+i, v)
		}
		return res
	}
	all := append(in.sliceBytes(prefix), out...)
	return in.bytesToSlice(all)
}
