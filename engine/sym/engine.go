package sym

import (
	"fmt"
	"go/types"
	"os"
	"runtime/debug"
	"sort"
	"strconv"
	"strings"
	"sync"
	"time"

	"gosmt/smt"

	"golang.org/x/tools/go/packages"
	"golang.org/x/tools/go/ssa"
	"golang.org/x/tools/go/ssa/ssautil"
)

type intrinsicFn func(in *Interp, fn *ssa.Function, args []Value) Value

// Engine holds what is shared (read-only) between path executions.
type Engine struct {
	RepoDir string
	Prog    *ssa.Program
	Pkgs    []*ssa.Package
	Sizes   types.Sizes

	MaxDepth   int
	MaxSteps   int
	MaxArray   int
	MaxIte     int
	LoopBound  int
	MaxLen     int
	SolverKind string
	TimeoutMs  int
	Workers    int
	MaxPaths   int

	Tier        int
	ReverseMaps bool
	LazySlices  bool
	PathTimeout time.Duration
	// ReplayModel != nil: every fresh symbol takes its value from this model
	// (concrete re-execution of a counterexample in the interpreter)
	ReplayModel       map[string]uint64
	SamplesPerHarness int
	RunGoInline       bool
	SkipInit          map[string]bool

	intrinsics  map[string]intrinsicFn
	opaquePkgs  map[string]string
	opaqueCache sync.Map
	harnessPkg  map[*ssa.Package]bool

	// ConstOverride: per function name -> map from constant value to replacement (constant scaling)
	LoadDur time.Duration
}

func (e *Engine) isHarnessPkg(p *ssa.Package) bool { return true }

// OpaquePrefixes: calls into these packages have no effect and return zero
// values (logging and metrics have empty bodies unless they are the subject).
var OpaquePrefixes = []string{
	"github.com/rs/zerolog",
	"github.com/prometheus/",
	"log",
}

func (e *Engine) isOpaquePkg(path string) bool {
	if path == "" {
		return false
	}
	if v, ok := e.opaqueCache.Load(path); ok {
		return v.(bool)
	}
	r := false
	for _, p := range OpaquePrefixes {
		if path == p || strings.HasPrefix(path, p+"/") || (strings.HasSuffix(p, "/") && strings.HasPrefix(path, p)) {
			r = true
		}
	}
	e.opaqueCache.Store(path, r)
	return r
}

// Load type-checks and builds SSA for the given package patterns of the repo
// with overlay harness files injected.
func Load(repoDir string, patterns []string, overlay map[string][]byte, tags string) (*Engine, error) {
	t0 := time.Now()
	cfg := &packages.Config{
		Mode:    packages.LoadAllSyntax,
		Dir:     repoDir,
		Overlay: overlay,
		Env:     append(os.Environ(), "GOFLAGS=-mod=mod", "GOPROXY=off", "GOSUMDB=off", "GOTOOLCHAIN=local", "CGO_ENABLED=0"),
	}
	if tags != "" {
		cfg.BuildFlags = []string{"-tags", tags}
	}
	pkgs, err := packages.Load(cfg, patterns...)
	if err != nil {
		return nil, err
	}
	var errs []string
	packages.Visit(pkgs, nil, func(p *packages.Package) {
		for _, e := range p.Errors {
			errs = append(errs, e.Error())
		}
	})
	if len(errs) > 0 {
		if len(errs) > 12 {
			errs = errs[:12]
		}
		return nil, fmt.Errorf("package load errors:\n%s", strings.Join(errs, "\n"))
	}
	prog, spkgs := ssautil.AllPackages(pkgs, ssa.InstantiateGenerics)
	prog.Build()
	e := &Engine{
		RepoDir: repoDir, Prog: prog, Sizes: types.SizesFor("gc", "amd64"),
		MaxDepth: 120, MaxSteps: 4_000_000, MaxArray: 1 << 17, MaxIte: 512, LoopBound: 300, MaxLen: 64,
		SolverKind: "z3-new", TimeoutMs: 10000, Workers: 8, MaxPaths: 200000,
		SkipInit:   map[string]bool{},
		LazySlices: true, SamplesPerHarness: samplesPerHarness(), PathTimeout: 120 * time.Second,
		intrinsics: map[string]intrinsicFn{},
		opaquePkgs: map[string]string{},
	}
	for _, p := range spkgs {
		if p != nil {
			e.Pkgs = append(e.Pkgs, p)
		}
	}
	registerIntrinsics(e)
	e.LoadDur = time.Since(t0)
	return e, nil
}

// FindFunc locates a package-level function by package path and name.
func (e *Engine) FindFunc(pkgPath, name string) *ssa.Function {
	for _, p := range e.Prog.AllPackages() {
		if p.Pkg.Path() == pkgPath {
			return p.Func(name)
		}
	}
	return nil
}

// ---------------------------------------------------------------------
// results

type Violation struct {
	Kind      string            `json:"kind"` // assert | panic | alloc | hang
	ID        string            `json:"id"`
	Msg       string            `json:"msg"`
	Site      string            `json:"site"`
	RepoFn    string            `json:"repo_fn"`
	RepoFile  string            `json:"repo_file"`
	RepoLine  int               `json:"repo_line"`
	SrcText   string            `json:"src_text"`
	Tape      []TapeEntry       `json:"tape"`
	Stack     []string          `json:"stack,omitempty"`
	Harness   string            `json:"harness"`
	FSPlan    []FSOp            `json:"fs_plan,omitempty"`
	Model     map[string]uint64 `json:"model,omitempty"`
	Decisions []int             `json:"decisions,omitempty"`
}

// Key identifies the failing site independent of line numbers.
func (v *Violation) Key() string {
	if v.Kind == "assert" {
		return "assert:" + v.ID
	}
	return v.Kind + ":" + v.RepoFn + ":" + v.SrcText
}

type TapeEntry struct {
	Tag   string `json:"tag"`
	Kind  string `json:"kind"`
	Val   uint64 `json:"val"`
	Bytes string `json:"bytes,omitempty"` // hex, kind == "bytes"
}

type PathResult struct {
	Outcome          string
	Detail           string
	Violations       []Violation
	Reached          []string
	Events           []string
	Cuts             []string
	Branches         int
	UnknownBranches  int
	UnknownAsserts   int
	Asserts          int
	Discharged       int
	Steps            int
	Decisions        []int
	Stack            []string
	ForkSites        []string
	ReplayMissing    []string
	PortfolioQueries int
	NoNative         bool        // path depends on environment choices the native replay cannot force (crash point, injected fault, clock, select)
	SampleTape       []TapeEntry // a concrete input driving this path (translator validation)
	SampleFSPlan     []FSOp      // the OS calls of that path (injected failures / crash point), when it has any
	NoNativeHard     bool        // path depends on stubs or a select choice: no native run can be forced down it
}

func (r *PathResult) addCut(s string) {
	for _, c := range r.Cuts {
		if c == s {
			return
		}
	}
	r.Cuts = append(r.Cuts, s)
}

type HarnessResult struct {
	Name            string
	Paths           int
	Outcomes        map[string]int
	Violations      map[string]*Violation // by key: first witness
	ViolCount       map[string]int
	Reached         map[string]int
	Cuts            map[string]int
	Unsupported     map[string]int
	Unwinds         map[string]int
	CutReasons      map[string]int
	Asserts         int
	Discharged      int
	UnknownA        int
	UnknownB        int
	Steps           int64
	Queries         int
	SolverDur       time.Duration
	Wall            time.Duration
	Samples         []string
	Truncated       bool
	Funcs           map[string]bool
	Events          map[string]int
	NontrivialPaths int
	ForkSites       map[string]int
	replayMissing   bool
	SampleTapes     []SamplePath
	sampleWant      int
}

// SamplePath is a concrete witness of one explored path, replayed natively to
// validate the translation (same witnesses must be reached).
type SamplePath struct {
	Tape    []TapeEntry
	Reached []string
	FSPlan  []FSOp
}

// ---------------------------------------------------------------------
// exploration

type worker struct {
	ctx *smt.Ctx
	sol *smt.Solver
}

// Explore runs every path of harness function fn.
func (e *Engine) Explore(fn *ssa.Function, name string) *HarnessResult {
	t0 := time.Now()
	hr := &HarnessResult{Name: name, Outcomes: map[string]int{}, Violations: map[string]*Violation{}, ViolCount: map[string]int{},
		Reached: map[string]int{}, Cuts: map[string]int{}, Unsupported: map[string]int{}, Unwinds: map[string]int{}, CutReasons: map[string]int{},
		Funcs: map[string]bool{}, Events: map[string]int{}, ForkSites: map[string]int{}}
	var mu sync.Mutex
	work := [][]int{nil}
	active := 0
	cond := sync.NewCond(&mu)
	var wg sync.WaitGroup
	for w := 0; w < e.Workers; w++ {
		wg.Add(1)
		go func() {
			defer wg.Done()
			wk := &worker{ctx: smt.NewCtx()}
			var err error
			wk.sol, err = smt.NewSolver(e.SolverKind, wk.ctx, e.TimeoutMs)
			if d := os.Getenv("GOSMT_SMTLOG"); d != "" && err == nil {
				if f, ferr := os.Create(fmt.Sprintf("%s/w%d.smt2", d, w)); ferr == nil {
					wk.sol.Log = f
				}
			}
			if err != nil {
				mu.Lock()
				hr.Unsupported["solver start: "+err.Error()]++
				mu.Unlock()
				return
			}
			defer func() { wk.sol.Close() }()
			npaths := 0
			for {
				mu.Lock()
				for len(work) == 0 && active > 0 {
					cond.Wait()
				}
				if len(work) == 0 || hr.Paths >= e.MaxPaths {
					if len(work) > 0 {
						hr.Truncated = true
					}
					mu.Unlock()
					cond.Broadcast()
					break
				}
				prefix := work[len(work)-1]
				work = work[:len(work)-1]
				active++
				hr.Paths++
				mu.Unlock()

				npaths++
				if npaths%200 == 0 {
					// bound memory: fresh term table and solver
					q, d := wk.sol.Queries, wk.sol.SolverDur
					wk.sol.Close()
					wk.ctx = smt.NewCtx()
					wk.sol, _ = smt.NewSolver(e.SolverKind, wk.ctx, e.TimeoutMs)
					if d := os.Getenv("GOSMT_SMTLOG"); d != "" && wk.sol != nil {
						if f, ferr := os.Create(fmt.Sprintf("%s/w%d.%d.smt2", d, w, npaths)); ferr == nil {
							wk.sol.Log = f
						}
					}
					wk.sol.Queries, wk.sol.SolverDur = q, d
				}
				mu.Lock()
				ws := len(hr.SampleTapes) < e.SamplesPerHarness
				mu.Unlock()
				tPath := time.Now()
				q0, d0 := wk.sol.Queries, wk.sol.SolverDur
				res, pend, funcs := e.runPath(wk, fn, prefix, ws)
				if el := time.Since(tPath); el > 2*time.Second && os.Getenv("GOSMT_SLOW") != "" {
					fmt.Fprintf(os.Stderr, "SLOW path %.1fs steps=%d queries=%d solver=%.1fs decisions=%d outcome=%s %s terms=%d send=%.1fs getvalue=%.1fs\n", el.Seconds(), res.Steps, wk.sol.Queries-q0, (wk.sol.SolverDur - d0).Seconds(), len(res.Decisions), res.Outcome, res.Detail, wk.ctx.NumTerms(), wk.sol.SendDur.Seconds(), wk.sol.ValueDur.Seconds())
					if n := len(res.ForkSites); n > 0 {
						lo := n - 14
						if lo < 0 {
							lo = 0
						}
						fmt.Fprintf(os.Stderr, "   last forks: %v\n", res.ForkSites[lo:])
					}
				}

				mu.Lock()
				active--
				work = append(work, pend...)
				hr.Outcomes[res.Outcome]++
				switch res.Outcome {
				case "unsupported":
					hr.Unsupported[res.Detail]++
				case "unwind":
					hr.Unwinds[res.Detail]++
				case "cut":
					hr.CutReasons[res.Detail]++
				}
				for i := range res.Violations {
					v := &res.Violations[i]
					v.Harness = name
					k := v.Key()
					hr.ViolCount[k]++
					if _, ok := hr.Violations[k]; !ok {
						hr.Violations[k] = v
					}
				}
				for _, r := range res.Reached {
					hr.Reached[r]++
				}
				if len(res.Reached) > 0 {
					hr.NontrivialPaths++
				}
				if len(res.ReplayMissing) > 0 {
					hr.replayMissing = true
				}
				if res.SampleTape != nil && len(hr.SampleTapes) < e.SamplesPerHarness {
					hr.SampleTapes = append(hr.SampleTapes, SamplePath{Tape: res.SampleTape, Reached: res.Reached, FSPlan: res.SampleFSPlan})
				}
				for _, c := range res.Cuts {
					hr.Cuts[c]++
				}
				for _, ev := range res.Events {
					hr.Events[ev]++
				}
				for _, f := range res.ForkSites {
					hr.ForkSites[f]++
				}
				hr.Asserts += res.Asserts
				hr.Discharged += res.Discharged
				hr.UnknownA += res.UnknownAsserts
				hr.UnknownB += res.UnknownBranches
				hr.Steps += int64(res.Steps)
				for f := range funcs {
					hr.Funcs[f] = true
				}
				if len(hr.Samples) < 6 {
					hr.Samples = append(hr.Samples, fmt.Sprintf("path decisions=%v outcome=%s %s asserts=%d reached=%v", compactDecisions(res.Decisions), res.Outcome, res.Detail, res.Asserts, res.Reached))
				}
				mu.Unlock()
				cond.Broadcast()
			}
			mu.Lock()
			hr.Queries += wk.sol.Queries
			hr.SolverDur += wk.sol.SolverDur
			mu.Unlock()
		}()
	}
	wg.Wait()
	hr.Wall = time.Since(t0)
	return hr
}

func compactDecisions(d []int) string {
	var sb strings.Builder
	for i, x := range d {
		if i > 40 {
			sb.WriteString("…")
			break
		}
		v := x >> 1
		if x&1 == 1 {
			fmt.Fprintf(&sb, "%d'", v)
		} else {
			fmt.Fprintf(&sb, "%d", v)
		}
		sb.WriteByte(' ')
	}
	return strings.TrimSpace(sb.String())
}

func (e *Engine) runPath(wk *worker, fn *ssa.Function, prefix []int, wantSample bool) (res *PathResult, pending [][]int, funcs map[string]bool) {
	in := &Interp{
		eng: e, ctx: wk.ctx, sol: wk.sol, prefix: prefix,
		globals: map[*ssa.Global]*Loc{}, pkgInit: map[*ssa.Package]int{},
		res: &PathResult{}, symCount: map[string]int{},
		loopBound: e.LoopBound, maxLen: e.MaxLen,
		tmpDefined: map[string]bool{}, allocSeen: map[string]bool{},
		funcsSeen: map[string]bool{},
		started:   time.Now(),
	}
	in.fs = newFSModel(in)
	res = in.res
	wk.sol.Push()
	defer func() {
		r := recover()
		if r != nil {
			switch x := r.(type) {
			case goPanic:
				res.Outcome = "panic"
				res.Detail = x.msg
				in.reportPanic(x)
			case goroutineCrash:
				// a panic that left a goroutine: no caller's recover can stop it
				res.Outcome = "panic"
				res.Detail = "in goroutine: " + x.gp.msg
				in.reportPanic(x.gp)
			case pathEnd:
				res.Outcome = "cut"
				res.Detail = x.why
			case unsupported:
				res.Outcome = "unsupported"
				res.Detail = x.msg + " @ " + in.site()
				res.Stack = in.stack()
			case unwindFail:
				res.Outcome = "unwind"
				res.Detail = x.msg
				if in.hangCheck {
					in.report("hang", x.msg, in.currentModel())
				}
			default:
				res.Outcome = "unsupported"
				res.Detail = fmt.Sprintf("engine panic: %v @ %s", r, in.site())
				if os.Getenv("GOSMT_DEBUG") != "" {
					fmt.Fprintf(os.Stderr, "ENGINE PANIC %v\n%s\n", r, debug.Stack())
				}
				res.Stack = in.stack()
			}
		}
		res.Steps = in.steps
		res.Decisions = in.trace
		pending = in.pending
		funcs = in.funcsSeen
		wk.sol.Pop()
	}()
	in.callFunction(fn, nil, nil)
	res.Outcome = "ok"
	if wantSample && !res.NoNativeHard && len(res.Reached) > 0 && len(res.Violations) == 0 {
		// paths with injected OS failures or a crash point are sampled too:
		// they are replayed under a system-call tracer that forces the same
		// failures (the plan says which calls)
		if m := in.currentModel(); m != nil || len(in.inputTerms()) == 0 {
			res.SampleTape = in.buildTape(m)
			if res.SampleTape == nil {
				res.SampleTape = []TapeEntry{}
			}
			if res.NoNative && in.fs != nil {
				res.SampleFSPlan = append([]FSOp(nil), in.fs.plan...)
			}
		}
	}
	return
}

func (in *Interp) inputTerms() []*smt.Term {
	ts := make([]*smt.Term, 0, len(in.inputs))
	for _, i := range in.inputs {
		if i.Term != nil && !i.Term.IsConst() {
			ts = append(ts, i.Term)
		}
	}
	// plus every other fresh symbol (hash outputs, internal choices), so that
	// a counterexample can be re-executed concretely
	seen := map[int]bool{}
	for _, t := range ts {
		seen[t.ID] = true
	}
	for _, t := range in.freshTerms {
		if !seen[t.ID] {
			seen[t.ID] = true
			ts = append(ts, t)
		}
	}
	return ts
}

func (in *Interp) currentModel() map[string]uint64 {
	r, m := in.sol.CheckModel(in.inputTerms())
	if r != smt.Sat {
		return nil
	}
	return m
}

func (in *Interp) reportPanic(p goPanic) {
	m := in.currentModel()
	v := Violation{Kind: "panic", Msg: p.msg, Site: p.site, Model: m, Stack: p.stack, RepoFn: p.repoFn, RepoLine: p.repoLine}
	if p.repoFile != "" {
		v.SrcText = in.eng.srcLine(p.repoFile, p.repoLine)
		v.RepoFile = shortPath(p.repoFile)
	}
	v.Tape = in.buildTape(m)
	v.FSPlan = append([]FSOp(nil), in.fs.plan...)
	in.res.Violations = append(in.res.Violations, v)
}

func (in *Interp) report(kind, msg string, model map[string]uint64) {
	in.reportAt(kind, "", msg, model, in.site())
}

func (in *Interp) reportAssert(id, msg string, model map[string]uint64) {
	in.reportAt("assert", id, msg, model, in.site())
}

func (in *Interp) reportAt(kind, id, msg string, model map[string]uint64, site string) {
	v := Violation{Kind: kind, ID: id, Msg: msg, Site: site, Model: model, Stack: in.stack()}
	v.RepoFn, v.RepoFile, v.RepoLine = in.repoSite()
	if v.RepoFile != "" {
		v.SrcText = in.eng.srcLine(v.RepoFile, v.RepoLine)
		v.RepoFile = shortPath(v.RepoFile)
	}
	v.Tape = in.buildTape(model)
	v.FSPlan = append([]FSOp(nil), in.fs.plan...)
	in.res.Violations = append(in.res.Violations, v)
}

func (in *Interp) buildTape(model map[string]uint64) []TapeEntry {
	var tape []TapeEntry
	i := 0
	for i < len(in.inputs) {
		inp := in.inputs[i]
		if inp.Kind == "bytes" {
			var sb strings.Builder
			for j := 0; j < inp.N; j++ {
				b := in.inputs[i+1+j]
				fmt.Fprintf(&sb, "%02x", modelVal(model, b.Term)&0xff)
			}
			tape = append(tape, TapeEntry{Tag: inp.Tag, Kind: "bytes", Val: uint64(inp.N), Bytes: sb.String()})
			i += 1 + inp.N
			continue
		}
		if !inp.Internal {
			tape = append(tape, TapeEntry{Tag: inp.Tag, Kind: inp.Kind, Val: modelVal(model, inp.Term)})
		}
		i++
	}
	return tape
}

func modelVal(model map[string]uint64, t *smt.Term) uint64 {
	if t == nil {
		return 0
	}
	if t.IsConst() {
		return t.Val
	}
	return model[t.Name]
}

var srcCache sync.Map

func (e *Engine) srcLine(file string, line int) string {
	var lines []string
	if v, ok := srcCache.Load(file); ok {
		lines = v.([]string)
	} else {
		b, err := os.ReadFile(file)
		if err != nil {
			return ""
		}
		lines = strings.Split(string(b), "\n")
		srcCache.Store(file, lines)
	}
	if line-1 < len(lines) && line >= 1 {
		return strings.Join(strings.Fields(lines[line-1]), " ")
	}
	return ""
}

func sortedKeys[V any](m map[string]V) []string {
	ks := make([]string, 0, len(m))
	for k := range m {
		ks = append(ks, k)
	}
	sort.Strings(ks)
	return ks
}

// ReplayConcrete re-executes harness fn with every fresh symbol fixed to the
// model's value: a fully concrete run of the real SSA inside the interpreter.
// It returns the violation keys that occur on that single concrete path.
func (e *Engine) ReplayConcrete(fn *ssa.Function, name string, model map[string]uint64) (keys map[string]bool, concrete bool) {
	savedW, savedS := e.Workers, e.SamplesPerHarness
	e.ReplayModel = model
	e.Workers, e.SamplesPerHarness = 1, 0
	defer func() { e.ReplayModel = nil; e.Workers, e.SamplesPerHarness = savedW, savedS }()
	hr := e.Explore(fn, name)
	keys = map[string]bool{}
	for k := range hr.Violations {
		keys[k] = true
	}
	return keys, hr.Paths == 1 && !hr.replayMissing
}

// samplesPerHarness: sampled paths per harness for translator validation
// (GOSMT_SAMPLES overrides the default of 2 when probing the os model).
func samplesPerHarness() int {
	if v, err := strconv.Atoi(os.Getenv("GOSMT_SAMPLES")); err == nil && v >= 0 {
		return v
	}
	return 2
}
