package sym

import (
	"fmt"
	"go/constant"
	"go/token"
	"go/types"
	"os"
	"strings"
	"time"

	"gosmt/smt"

	"golang.org/x/tools/go/ssa"
)

// control-flow panics used inside the interpreter
type goPanic struct { // a panic of the interpreted program
	val      Value
	site     string
	msg      string
	repoFn   string
	repoFile string
	repoLine int
	stack    []string
}

func (in *Interp) mkPanic(val Value, msg string) goPanic {
	p := goPanic{val: val, site: in.site(), msg: msg, stack: in.stack()}
	p.repoFn, p.repoFile, p.repoLine = in.repoSite()
	return p
}

type pathEnd struct{ why string }     // path terminated quietly (assume false, cut)
type unsupported struct{ msg string } // engine cannot continue: path is inconclusive
type unwindFail struct{ msg string }  // loop/step budget exceeded: inconclusive

type deferred struct {
	fn   Value
	args []Value
	pos  token.Pos
}

type frame struct {
	in        *Interp
	fn        *ssa.Function
	env       map[ssa.Value]Value
	block     *ssa.BasicBlock
	prev      *ssa.BasicBlock
	defers    []*deferred
	result    Value
	panicking bool
	panicVal  goPanic
	caller    *frame
	pos       token.Pos
	visits    map[int]int
	depth     int
}

// Interp executes one path.
type Interp struct {
	eng    *Engine
	ctx    *smt.Ctx
	sol    *smt.Solver
	nextID int

	// path decisions
	prefix  []int
	pos     int
	trace   []int
	pending [][]int

	globals  map[*ssa.Global]*Loc
	pkgInit  map[*ssa.Package]int // 0 none, 1 running, 2 done
	steps    int
	top      *frame
	res      *PathResult
	symCount map[string]int
	inputs   []Input
	pc       []*smt.Term

	// harness-declared limits
	loopBound  int
	allocLimit int64
	maxLen     int

	fs        *fsModel
	reflTypes map[string]*Loc // reflect model: interned type locations
	hashes    []*hashModel
	tolerant  int // >0 while running package initialisers

	sums        []*hashSum
	jsonBlobs   []IfaceV
	now         *smt.Term // frozen clock: symbolic instant + harness-controlled advances
	timerBudget int

	started     time.Time
	loopBoundIn map[string]int
	goQueue     []goTask
	uniques     []uniqueEntry
	freshTerms  []*smt.Term
	stubs       map[string]Value
	tmpDefined  map[string]bool
	allocSeen   map[string]bool
	funcsSeen   map[string]bool
	hangCheck   bool
}

// Input is one value drawn from the harness tape.
type Input struct {
	Tag  string
	Kind string // "u8","u16","u32","u64","bool","int","bytes"
	Term *smt.Term
	N    int // for bytes: count; terms follow as separate inputs
	// Internal inputs are environment values drawn by an intrinsic (not by a
	// vh* call in the harness): they are not part of the replay tape.
	Internal bool
}

func (in *Interp) fresh(tag string, w int) *smt.Term {
	n := in.symCount[tag]
	in.symCount[tag] = n + 1
	name := freshName(tag, n, w)
	if in.eng.ReplayModel != nil {
		// concrete re-execution of a counterexample inside the interpreter
		v, ok := in.eng.ReplayModel[name]
		if !ok {
			in.res.ReplayMissing = append(in.res.ReplayMissing, name)
		}
		if w == 0 {
			return in.ctx.Bool(v != 0)
		}
		return in.ctx.BV(v, w)
	}
	t := in.ctx.Var(name, w)
	in.freshTerms = append(in.freshTerms, t)
	return t
}

// freshName names the n-th symbol created under a tag. The width is part of
// the name: a harness may use one tag for values of different widths, and on
// different paths the n-th one need not have the same width, while a solver
// context declares each name once.
func freshName(tag string, n, w int) string {
	return fmt.Sprintf("%s!%d.%d", sanitize(tag), n, w)
}

func sanitize(s string) string {
	var sb strings.Builder
	for _, r := range s {
		switch {
		case r >= 'a' && r <= 'z', r >= 'A' && r <= 'Z', r >= '0' && r <= '9', r == '_', r == '.':
			sb.WriteRune(r)
		default:
			sb.WriteByte('_')
		}
	}
	if sb.Len() == 0 {
		return "v"
	}
	return sb.String()
}

// ---------------------------------------------------------------------
// decisions

func (in *Interp) assume(c *smt.Term) {
	if c.IsTrue() {
		return
	}
	in.pc = append(in.pc, c)
	in.sol.Assert(c)
}

// Branch decides which way a symbolic condition goes on this path.
func (in *Interp) Branch(c *smt.Term) bool {
	if c.W != 0 {
		panic(unsupported{"branch on non-bool"})
	}
	if c.IsConst() {
		return c.IsTrue()
	}
	if in.pos < len(in.prefix) {
		d := in.prefix[in.pos]
		in.pos++
		in.trace = append(in.trace, d)
		taken := d>>1 == 1
		if d&1 == 0 {
			if taken {
				in.assume(c)
			} else {
				in.assume(in.ctx.Not(c))
			}
		}
		return taken
	}
	in.pos++
	in.res.Branches++
	rt := in.sol.CheckAssuming(c)
	if rt == smt.Unsat {
		in.trace = append(in.trace, 0<<1|1)
		return false
	}
	rf := in.sol.CheckAssuming(in.ctx.Not(c))
	if rf == smt.Unsat {
		in.trace = append(in.trace, 1<<1|1)
		return true
	}
	if rt == smt.Unknown || rf == smt.Unknown {
		in.res.UnknownBranches++
		dbg("unknown branch at %s: %s", in.site(), in.sol.LastErr)
	}
	alt := append(append([]int(nil), in.trace...), 0<<1)
	in.pending = append(in.pending, alt)
	in.res.ForkSites = append(in.res.ForkSites, "br "+in.site())
	in.trace = append(in.trace, 1<<1)
	in.assume(c)
	return true
}

// Concretize forks the path over the feasible values of t in [0,bound].
// If values above bound are feasible, over is called (may record a finding)
// and the path continues under t <= bound.
func (in *Interp) Concretize(t *smt.Term, bound int, what string) int {
	if t.IsConst() {
		return int(int64(t.Val))
	}
	if in.pos < len(in.prefix) {
		d := in.prefix[in.pos]
		in.pos++
		in.trace = append(in.trace, d)
		v := d >> 1
		in.assume(in.ctx.Eq(t, in.ctx.BV(uint64(v), t.W)))
		return v
	}
	in.pos++
	bt := in.ctx.BV(uint64(bound), t.W)
	if in.sol.CheckAssuming(in.ctx.Ult(bt, t)) != smt.Unsat {
		in.res.addCut(fmt.Sprintf("%s: value > %d cut at %s", what, bound, in.site()))
	}
	var vals []int
	var excl []*smt.Term
	excl = append(excl, in.ctx.Ule(t, bt))
	for {
		r, m := in.sol.CheckModel([]*smt.Term{in.tmpVar(t)}, excl...)
		if r == smt.Unknown {
			in.res.UnknownBranches++
			break
		}
		if r == smt.Unsat {
			break
		}
		v := int(m[in.tmpVar(t).Name])
		vals = append(vals, v)
		excl = append(excl, in.ctx.Not(in.ctx.Eq(t, in.ctx.BV(uint64(v), t.W))))
		if len(vals) > bound+1 {
			break
		}
	}
	dbg("concretize %s at %s: vals=%v", what, in.site(), vals)
	if len(vals) == 0 {
		in.res.addCut(fmt.Sprintf("%s: only values > %d feasible, path abandoned at %s", what, bound, in.site()))
		panic(pathEnd{"concretize: no feasible value for " + what})
	}
	// take the first now, queue the others
	for _, v := range vals[1:] {
		alt := append(append([]int(nil), in.trace...), v<<1)
		in.pending = append(in.pending, alt)
		in.res.ForkSites = append(in.res.ForkSites, "cz("+what+") "+in.site())
	}
	v := vals[0]
	in.trace = append(in.trace, v<<1)
	in.assume(in.ctx.Eq(t, in.ctx.BV(uint64(v), t.W)))
	return v
}

// Unique returns the constant t must equal under the path condition, if the
// solver shows there is exactly one, and t otherwise. It never forks. Used to
// stop index terms from nesting (table[table[table[i]]]...) when the code has
// already pinned the index down, e.g. by reading the sector it names.
func (in *Interp) Unique(t *smt.Term) *smt.Term {
	if t.IsConst() {
		return t
	}
	if in.pos < len(in.prefix) {
		d := in.prefix[in.pos]
		in.pos++
		in.trace = append(in.trace, d)
		if d == -1 {
			return t
		}
		k := in.ctx.BV(uint64(d>>1), t.W)
		in.assume(in.ctx.Eq(t, k))
		return k
	}
	in.pos++
	tv := in.tmpVar(t)
	r, m := in.sol.CheckModel([]*smt.Term{tv})
	if r == smt.Sat {
		v := m[tv.Name]
		if v < 1<<40 {
			k := in.ctx.BV(v, t.W)
			if in.sol.CheckAssuming(in.ctx.Not(in.ctx.Eq(t, k))) == smt.Unsat {
				in.trace = append(in.trace, int(v)<<1|1)
				in.assume(in.ctx.Eq(t, k))
				return k
			}
		}
	}
	in.trace = append(in.trace, -1)
	return t
}

// tmpVar returns a variable equal to t (so get-value can name it).
func (in *Interp) tmpVar(t *smt.Term) *smt.Term {
	if t.Op == smt.OpVar {
		return t
	}
	v := in.ctx.Var(fmt.Sprintf("cz!%d", t.ID), t.W)
	key := v.Name
	if !in.tmpDefined[key] {
		in.tmpDefined[key] = true
		in.assume(in.ctx.Eq(v, t))
	}
	return v
}

// ---------------------------------------------------------------------

func (in *Interp) site() string {
	for fr := in.top; fr != nil; fr = fr.caller {
		if fr.pos.IsValid() {
			p := in.eng.Prog.Fset.Position(fr.pos)
			return fmt.Sprintf("%s (%s:%d)", fr.fn.String(), shortPath(p.Filename), p.Line)
		}
	}
	if in.top != nil {
		return in.top.fn.String()
	}
	return "?"
}

// repoSite returns the innermost frame located in the code under test (not
// stdlib / harness), as function name and source line text.
func (in *Interp) repoSite() (fn string, file string, line int) {
	for fr := in.top; fr != nil; fr = fr.caller {
		if !fr.pos.IsValid() {
			continue
		}
		p := in.eng.Prog.Fset.Position(fr.pos)
		if strings.HasPrefix(p.Filename, in.eng.RepoDir+"/") && !strings.Contains(p.Filename, "zz_verif_") {
			return fr.fn.String(), p.Filename, p.Line
		}
	}
	return "", "", 0
}

func (in *Interp) stack() []string {
	var out []string
	for fr := in.top; fr != nil; fr = fr.caller {
		p := in.eng.Prog.Fset.Position(fr.pos)
		out = append(out, fmt.Sprintf("%s %s:%d", fr.fn.String(), shortPath(p.Filename), p.Line))
		if len(out) > 25 {
			break
		}
	}
	return out
}

func shortPath(p string) string {
	if i := strings.Index(p, "/repo/"); i >= 0 {
		return p[i+6:]
	}
	if i := strings.LastIndex(p, "/src/"); i >= 0 {
		return p[i+5:]
	}
	return p
}

func (in *Interp) throwRuntime(msg string) {
	panic(in.mkPanic(IfaceV{T: types.Typ[types.String], V: StrV{S: "runtime error: " + msg}}, "runtime error: "+msg))
}

// ---------------------------------------------------------------------

func (fr *frame) get(v ssa.Value) Value {
	switch v := v.(type) {
	case *ssa.Const:
		return fr.in.constValue(v)
	case *ssa.Global:
		return fr.in.globalLoc(v)
	case *ssa.Function:
		return &FuncV{Fn: v}
	case *ssa.Builtin:
		return &FuncV{Bi: v}
	case nil:
		return nil
	}
	if r, ok := fr.env[v]; ok {
		if p, isP := r.(PoisonV); isP && fr.in.tolerant == 0 {
			panic(unsupported{"use of poisoned value: " + p.Why})
		}
		return r
	}
	panic(unsupported{fmt.Sprintf("get: no value for %s (%T) in %s", v.Name(), v, fr.fn)})
}

func (in *Interp) constValue(c *ssa.Const) Value {
	t := c.Type()
	if c.Value == nil {
		return in.zero(t)
	}
	switch u := under(t).(type) {
	case *types.Basic:
		switch {
		case u.Info()&types.IsBoolean != 0:
			return in.ctx.Bool(constantBool(c))
		case u.Info()&types.IsInteger != 0:
			w, _ := typeWidth(u)
			if constant.Sign(constant.ToInt(c.Value)) < 0 {
				return in.ctx.BV(uint64(c.Int64()), w)
			}
			return in.ctx.BV(c.Uint64(), w)
		case u.Info()&types.IsFloat != 0:
			return FloatV(c.Float64())
		case u.Info()&types.IsComplex != 0:
			return ComplexV(c.Complex128())
		case u.Info()&types.IsString != 0:
			return StrV{S: constantString(c)}
		}
	case *types.TypeParam:
		panic(unsupported{"const of type parameter"})
	}
	panic(unsupported{fmt.Sprintf("const %v of type %v", c, t)})
}

// ---------------------------------------------------------------------
// globals and package initialisation

func (in *Interp) globalLoc(g *ssa.Global) *Loc {
	if l, ok := in.globals[g]; ok {
		return l
	}
	in.ensureInit(g.Pkg)
	if l, ok := in.globals[g]; ok {
		return l
	}
	l := in.newLoc(g.Type().(*types.Pointer).Elem())
	in.globals[g] = l
	return l
}

func (in *Interp) ensureInit(p *ssa.Package) {
	if p == nil || in.pkgInit[p] != 0 {
		return
	}
	in.pkgInit[p] = 1
	// allocate every global of the package first
	for _, m := range p.Members {
		if g, ok := m.(*ssa.Global); ok {
			if _, ok := in.globals[g]; !ok {
				in.globals[g] = in.newLoc(g.Type().(*types.Pointer).Elem())
			}
		}
	}
	if in.eng.SkipInit[p.Pkg.Path()] {
		in.pkgInit[p] = 2
		return
	}
	initFn := p.Func("init")
	if initFn != nil && initFn.Blocks != nil {
		in.runInitTolerant(initFn)
	}
	in.pkgInit[p] = 2
	if p.Pkg.Path() == "os" && in.fs != nil {
		// the process's standard streams: three distinct open files of the FS
		// model (the real initialiser builds them from descriptors 0..2)
		for i, name := range []string{"Stdin", "Stdout", "Stderr"} {
			if g, ok := p.Members[name].(*ssa.Global); ok {
				ino := in.fs.newInode()
				of := &openFile{ino: ino, name: "/dev/" + strings.ToLower(name), rd: i == 0, wr: i != 0, app: i != 0}
				in.globals[g].V = in.fs.newFileValue(of)
			}
		}
	}
}

// runInitTolerant executes the synthesized package initialiser in program
// order. Calls to other packages' init are skipped (those run lazily on their
// own first access); any instruction the engine cannot execute poisons its
// result instead of failing the path.
func (in *Interp) runInitTolerant(fn *ssa.Function) {
	in.tolerant++
	savedTop := in.top
	defer func() { in.tolerant--; in.top = savedTop }()
	fr := &frame{in: in, fn: fn, env: map[ssa.Value]Value{}, caller: nil, visits: map[int]int{}}
	in.top = fr
	for _, l := range fn.Locals {
		// composite literals of struct type in initialisers are stack locals
		fr.env[l] = in.newLoc(l.Type().(*types.Pointer).Elem())
	}
	// find the block following the init-guard test: execute all blocks in
	// order except the first test; the synthesized init has the shape
	//   0: if init$guard goto 2 else 1 ; 1: guard=true; ...stores...; jump 2 ; 2: return
	// with extra blocks when initialisers contain control flow.
	fr.block = fn.Blocks[0]
	for fr.block != nil {
		in.runInitBlock(fr)
	}
}

func (in *Interp) runInitBlock(fr *frame) {
	b := fr.block
	for _, instr := range b.Instrs {
		if ph, ok := instr.(*ssa.Phi); ok {
			for i, pred := range b.Preds {
				if pred == fr.prev {
					fr.env[ph] = fr.get(ph.Edges[i])
					break
				}
			}
			continue
		}
		var next *ssa.BasicBlock
		done := false
		func() {
			defer func() {
				if r := recover(); r != nil {
					why := fmt.Sprint(r)
					switch r := r.(type) {
					case unsupported:
						why = r.msg
					case goPanic:
						why = "panic in initialiser: " + r.msg
					case unwindFail:
						why = r.msg
					case pathEnd:
						panic(r)
					}
					dbg("init of %s: %s poisoned: %s", fr.fn.Pkg.Pkg.Path(), instr.String(), why)
					if v, ok := instr.(ssa.Value); ok {
						fr.env[v] = PoisonV{Why: why}
					}
					switch instr.(type) {
					case *ssa.If, *ssa.Jump, *ssa.Return:
						done = true
						next = nil
					}
				}
			}()
			switch x := instr.(type) {
			case *ssa.If:
				// init guard: always take the "not yet initialised" side
				if b.Index == 0 {
					next = b.Succs[1]
				} else {
					c := fr.get(x.Cond).(*smt.Term)
					if in.Branch(c) {
						next = b.Succs[0]
					} else {
						next = b.Succs[1]
					}
				}
				done = true
			case *ssa.Jump:
				next = b.Succs[0]
				done = true
			case *ssa.Return:
				next = nil
				done = true
			case *ssa.Call:
				if callee := x.Call.StaticCallee(); callee != nil && callee.Name() == "init" && callee.Pkg != fr.fn.Pkg {
					fr.env[x] = TupleV{}
					return
				}
				in.visit(fr, instr)
			default:
				in.visit(fr, instr)
			}
		}()
		if done {
			fr.prev = b
			fr.block = next
			return
		}
	}
	fr.block = nil
}

// ---------------------------------------------------------------------
// calls

func (in *Interp) call(fnv Value, args []Value, pos token.Pos) Value {
	f, ok := fnv.(*FuncV)
	if !ok {
		if p, isP := fnv.(PoisonV); isP {
			panic(unsupported{"call of poisoned function: " + p.Why})
		}
		panic(unsupported{fmt.Sprintf("call of %T", fnv)})
	}
	if f == nil {
		in.throwRuntime("invalid memory address or nil pointer dereference (nil func)")
	}
	if f.Native != nil {
		return f.Native(in, args)
	}
	if f.Bi != nil {
		return in.callBuiltin(f.Bi, args, pos)
	}
	fn := f.Fn
	if len(f.Env) > 0 || fn.FreeVars != nil {
		return in.callFunction(fn, args, f.Env)
	}
	return in.callFunction(fn, args, nil)
}

func (in *Interp) callFunction(fn *ssa.Function, args []Value, env []Value) Value {
	name := fn.String()
	if fn.Origin() != nil {
		name = fn.Origin().String()
	}
	if st, ok := in.stubs[name]; ok {
		in.res.Events = append(in.res.Events, "stub:"+name)
		return in.call(st, args, 0)
	}
	if intr, ok := in.eng.intrinsics[name]; ok {
		for i := range args {
			args[i] = in.concValue(args[i])
		}
		return intr(in, fn, args)
	}
	if fn.Pkg != nil && strings.HasPrefix(fn.Name(), "vh") && in.eng.isHarnessPkg(fn.Pkg) {
		if h, ok := harnessIntrinsics[fn.Name()]; ok {
			for i := range args {
				args[i] = in.concValue(args[i])
			}
			return h(in, fn, args)
		}
	}
	if fn.Blocks == nil {
		// try to build lazily (dependencies)
		if fn.Pkg != nil {
			fn.Pkg.Build()
		}
		if fn.Blocks == nil {
			panic(unsupported{"no body for " + name})
		}
	}
	if in.eng.isOpaquePkg(pkgPathOf(fn)) {
		return in.opaqueCall(fn, args, "")
	}
	depth := 0
	if in.top != nil {
		depth = in.top.depth + 1
	}
	if depth > in.eng.MaxDepth {
		panic(unwindFail{fmt.Sprintf("call depth %d exceeded at %s", depth, name)})
	}
	in.funcsSeen[name] = true
	fr := &frame{in: in, fn: fn, env: make(map[ssa.Value]Value, len(fn.Params)+16), caller: in.top, depth: depth}
	for i, p := range fn.Params {
		fr.env[p] = args[i]
	}
	for i, fv := range fn.FreeVars {
		fr.env[fv] = env[i]
	}
	for _, l := range fn.Locals {
		fr.env[l] = in.newLoc(l.Type().(*types.Pointer).Elem())
	}
	saved := in.top
	in.top = fr
	fr.block = fn.Blocks[0]
	for fr.block != nil {
		in.runFrame(fr)
	}
	in.top = saved
	return fr.result
}

func pkgPathOf(fn *ssa.Function) string {
	if fn.Pkg != nil {
		return fn.Pkg.Pkg.Path()
	}
	if o := fn.Object(); o != nil && o.Pkg() != nil {
		return o.Pkg().Path()
	}
	if fn.Origin() != nil {
		return pkgPathOf(fn.Origin())
	}
	return ""
}

func (in *Interp) runFrame(fr *frame) {
	defer func() {
		if fr.block == nil {
			return // normal return
		}
		r := recover()
		gp, ok := r.(goPanic)
		if !ok {
			panic(r) // engine control flow: propagate untouched
		}
		in.top = fr
		fr.panicking = true
		fr.panicVal = gp
		in.runDefers(fr)
		// recovered: continue at the recover block (or return zero results)
		fr.block = fr.fn.Recover
		if fr.block == nil {
			// no named results: return zero values
			fr.result = in.zeroResults(fr.fn)
		}
	}()
	for {
		b := fr.block
		if fr.visits == nil {
			fr.visits = map[int]int{}
		}
		fr.visits[b.Index]++
		lb := in.loopBound
		if in.loopBoundIn != nil {
			if v, ok := in.loopBoundIn[fr.fn.Name()]; ok {
				lb = v
			}
		}
		if fr.visits[b.Index] > lb {
			panic(unwindFail{fmt.Sprintf("loop bound %d exceeded in %s block %d (%s)", lb, fr.fn, b.Index, in.site())})
		}
		// phis first (simultaneous)
		nphi := 0
		var phiVals []Value
		for _, instr := range b.Instrs {
			ph, ok := instr.(*ssa.Phi)
			if !ok {
				break
			}
			nphi++
			for i, pred := range b.Preds {
				if pred == fr.prev {
					phiVals = append(phiVals, fr.get(ph.Edges[i]))
					break
				}
			}
		}
		for i := 0; i < nphi; i++ {
			fr.env[b.Instrs[i].(*ssa.Phi)] = phiVals[i]
		}
		jumped := false
		for _, instr := range b.Instrs[nphi:] {
			in.steps++
			if in.steps&1023 == 0 && time.Since(in.started) > in.eng.PathTimeout {
				panic(unwindFail{fmt.Sprintf("path time budget %s exceeded at %s", in.eng.PathTimeout, in.site())})
			}
			if in.steps > in.eng.MaxSteps {
				panic(unwindFail{fmt.Sprintf("step budget %d exceeded at %s", in.eng.MaxSteps, in.site())})
			}
			if p := instr.Pos(); p.IsValid() {
				fr.pos = p
			}
			if traceOn && (traceMode != "replay" || in.eng.ReplayModel != nil) {
				fmt.Fprintf(os.Stderr, "  [%s b%d] %s\n", fr.fn.Name(), b.Index, instr.String())
			}
			switch x := instr.(type) {
			case *ssa.If:
				c, ok := fr.get(x.Cond).(*smt.Term)
				if !ok {
					panic(unsupported{"if on non-term"})
				}
				succ := 1
				if in.Branch(c) {
					succ = 0
				}
				fr.prev, fr.block = b, b.Succs[succ]
				jumped = true
			case *ssa.Jump:
				fr.prev, fr.block = b, b.Succs[0]
				jumped = true
			case *ssa.Return:
				switch len(x.Results) {
				case 0:
					fr.result = TupleV{}
				case 1:
					fr.result = fr.get(x.Results[0])
				default:
					res := make(TupleV, len(x.Results))
					for i, r := range x.Results {
						res[i] = fr.get(r)
					}
					fr.result = res
				}
				fr.block = nil
				return
			case *ssa.Panic:
				v := fr.get(x.X)
				panic(in.mkPanic(v, "panic: "+in.panicText(v)))
			default:
				in.visit(fr, instr)
				if traceOn && (traceMode != "replay" || in.eng.ReplayModel != nil) {
					if v, ok := instr.(ssa.Value); ok {
						if t, ok := fr.env[v].(*smt.Term); ok && t != nil && t.IsConst() {
							fmt.Fprintf(os.Stderr, "      %s = %d\n", v.Name(), int64(t.Val))
						}
					}
				}
			}
			if jumped {
				break
			}
		}
		if !jumped {
			panic(unsupported{"block fell through: " + fr.fn.String()})
		}
	}
}

func (in *Interp) panicText(v Value) string {
	if iv, ok := v.(IfaceV); ok {
		if s, ok := iv.V.(StrV); ok {
			if c, ok := s.Concrete(); ok {
				return c
			}
		}
		if iv.T != nil {
			return fmt.Sprintf("(%v)", iv.T)
		}
	}
	return "?"
}

func (in *Interp) zeroResults(fn *ssa.Function) Value {
	res := fn.Signature.Results()
	switch res.Len() {
	case 0:
		return TupleV{}
	case 1:
		return in.zero(res.At(0).Type())
	}
	return in.zero(res)
}

func (in *Interp) runDefers(fr *frame) {
	for len(fr.defers) > 0 {
		d := fr.defers[len(fr.defers)-1]
		fr.defers = fr.defers[:len(fr.defers)-1]
		in.runDefer(fr, d)
	}
	if fr.panicking {
		panic(fr.panicVal)
	}
}

func (in *Interp) runDefer(fr *frame, d *deferred) {
	ok := false
	defer func() {
		if !ok {
			r := recover()
			gp, isGo := r.(goPanic)
			if !isGo {
				panic(r)
			}
			// deferred call itself panicked: replaces current panic
			fr.panicking = true
			fr.panicVal = gp
			in.top = fr
		}
	}()
	in.call(d.fn, d.args, d.pos)
	ok = true
}

// prepareCall resolves callee and arguments of a call instruction.
func (in *Interp) prepareCall(fr *frame, c *ssa.CallCommon) (Value, []Value) {
	v := fr.get(c.Value)
	var fn Value
	var args []Value
	if c.Method == nil {
		fn = v
	} else {
		recv, ok := v.(IfaceV)
		if !ok {
			panic(unsupported{fmt.Sprintf("invoke on %T", v)})
		}
		if recv.T == nil {
			// a nil interface handed out by an opaque package (logger, metric):
			// the call is opaque too
			if n, ok := types.Unalias(c.Value.Type()).(*types.Named); ok && n.Obj().Pkg() != nil && in.eng.isOpaquePkg(n.Obj().Pkg().Path()) {
				sig := c.Method.Type().(*types.Signature)
				var res Value = TupleV{}
				switch sig.Results().Len() {
				case 0:
				case 1:
					res = in.zero(sig.Results().At(0).Type())
				default:
					res = in.zero(sig.Results())
				}
				return &FuncV{Name: "opaque", Native: func(in *Interp, args []Value) Value { return res }}, nil
			}
			in.throwRuntime("invalid memory address or nil pointer dereference (nil interface method call " + c.Method.Name() + ")")
		}
		m := in.lookupMethod(recv.T, c.Method)
		if m == nil {
			panic(unsupported{fmt.Sprintf("method %s not found on %v", c.Method.Name(), recv.T)})
		}
		fn = &FuncV{Fn: m}
		args = append(args, recv.V)
	}
	for _, a := range c.Args {
		args = append(args, fr.get(a))
	}
	return fn, args
}

func (in *Interp) lookupMethod(t types.Type, m *types.Func) *ssa.Function {
	return in.eng.Prog.LookupMethod(t, m.Pkg(), m.Name())
}

// callMethod invokes method name on an interface value (used by intrinsics).
func (in *Interp) callMethod(recv IfaceV, name string, args ...Value) Value {
	if recv.T == nil {
		in.throwRuntime("nil interface method call " + name)
	}
	ms := in.eng.Prog.MethodSets.MethodSet(recv.T)
	for i := 0; i < ms.Len(); i++ {
		sel := ms.At(i)
		if sel.Obj().Name() == name {
			fn := in.eng.Prog.MethodValue(sel)
			if fn == nil {
				break
			}
			return in.callFunction(fn, append([]Value{recv.V}, args...), nil)
		}
	}
	panic(unsupported{fmt.Sprintf("callMethod: %s not in method set of %v", name, recv.T)})
}

func constantBool(c *ssa.Const) bool     { return c.Value.String() == "true" }
func constantString(c *ssa.Const) string { return constantStringVal(c) }

var traceMode = os.Getenv("GOSMT_TRACE")
var traceOn = traceMode != ""

func dbg(format string, args ...interface{}) {
	if os.Getenv("GOSMT_DEBUG") != "" {
		fmt.Fprintf(os.Stderr, format+"\n", args...)
	}
}
