package sym

import (
	"fmt"
	"go/types"
	"path/filepath"
	"sort"
	"strings"

	"gosmt/smt"

	"golang.org/x/tools/go/ssa"
)

// A small in-memory file system standing in for package os: names map to
// inodes, inodes hold a byte vector (concrete length, symbolic bytes). Every
// mutating call is a numbered FS step; a harness may ask for a crash (process
// kill) before step k, and for symbolic fault injection on fallible calls.

type inode struct {
	id      int
	data    []*smt.Term
	nlink   int
	mode    uint32 // permission bits
	isDir   bool
	special bool
	link    string // symbolic link: the path it points to
}

type openFile struct {
	ino    *inode
	pos    int
	name   string
	closed bool
	app    bool
	rd, wr bool
}

type fsModel struct {
	in       *Interp
	names    map[string]*inode
	files    map[*Loc]*openFile
	nextIno  int
	step     int
	crashAt  int // <0: never
	faults   bool
	log      []string
	tmpSeq   int
	plan     []FSOp
	planOpen bool
}

type fsCrash struct{}

func newFSModel(in *Interp) *fsModel {
	return &fsModel{in: in, names: map[string]*inode{}, files: map[*Loc]*openFile{}, crashAt: -1}
}

func (fs *fsModel) newInode() *inode {
	fs.nextIno++
	return &inode{id: fs.nextIno, nlink: 1, mode: 0o644}
}

// FSOp is one OS call of the code under test inside a fault / crash bracket,
// in execution order: the plan a native replay has to line up with the
// system calls of the real process.
type FSOp struct {
	Kind     string `json:"kind"` // open read write pwrite close truncate fstat stat rename unlink fchmod chmod
	Mutating bool   `json:"mutating,omitempty"`
	Fault    bool   `json:"fault,omitempty"` // this call is made to fail
	Crash    bool   `json:"crash,omitempty"` // the process is killed just before this call
}

func opKind(what string) string {
	k := what
	if i := strings.IndexByte(what, ' '); i >= 0 {
		k = what[:i]
	}
	switch k {
	case "ftruncate":
		return "truncate"
	case "create", "truncate-on-open":
		return "open"
	}
	return k
}

// mutate is called before every state-changing OS call.
func (fs *fsModel) mutate(what string) {
	kind := opKind(what)
	bracket := fs.faults || fs.crashAt >= 0
	crashing := fs.crashAt >= 0 && fs.step == fs.crashAt
	if bracket {
		if n := len(fs.plan); n > 0 && !fs.plan[n-1].Mutating && fs.plan[n-1].Kind == kind && fs.planOpen {
			fs.plan[n-1].Mutating = true
			fs.plan[n-1].Crash = crashing
		} else {
			fs.plan = append(fs.plan, FSOp{Kind: kind, Mutating: true, Crash: crashing})
		}
		fs.planOpen = false
	}
	if crashing {
		fs.log = append(fs.log, fmt.Sprintf("CRASH before step %d (%s)", fs.step, what))
		panic(fsCrash{})
	}
	fs.log = append(fs.log, fmt.Sprintf("%d:%s", fs.step, what))
	fs.in.res.Events = append(fs.in.res.Events, "fs:"+what)
	fs.step++
}

// fault draws a symbolic "this call fails" bit when fault injection is on.
func (fs *fsModel) fault(op string) bool {
	if !fs.faults {
		return false
	}
	b := fs.in.fresh("fsfault."+op, 0)
	fs.in.inputs = append(fs.in.inputs, Input{Tag: "fsfault." + op, Kind: "bool", Term: b, Internal: true})
	fs.in.res.NoNative = true
	r := fs.in.Branch(b)
	fs.plan = append(fs.plan, FSOp{Kind: opKind(op), Fault: r})
	fs.planOpen = true // a following mutate() of the same kind belongs to this call
	return r
}

func (in *Interp) structField(l *Loc, name string) *Loc {
	st := under(l.T).(*types.Struct)
	for i := 0; i < st.NumFields(); i++ {
		if st.Field(i).Name() == name {
			return l.Kids[i]
		}
	}
	panic(unsupported{"no field " + name + " in " + l.T.String()})
}

func (in *Interp) errnoErr(code int) Value {
	t := in.namedType("syscall", "Errno")
	return IfaceV{T: t, V: in.ctx.BV(uint64(code), 64)}
}

func (in *Interp) pathError(op, path string, code int) Value {
	t := in.namedType("io/fs", "PathError")
	l := in.newLoc(t)
	in.structField(l, "Op").V = StrV{S: op}
	in.structField(l, "Path").V = StrV{S: path}
	in.structField(l, "Err").V = in.errnoErr(code)
	return IfaceV{T: types.NewPointer(t), V: l}
}

const (
	eNOENT = 2
	eIO    = 5
	eBADF  = 9
	eEXIST = 17
	eINVAL = 22
	eNOSPC = 28
)

func (fs *fsModel) newFileValue(of *openFile) *Loc {
	in := fs.in
	ft := in.namedType("os", "File")
	inner := in.namedType("os", "file")
	fl := in.newLoc(inner)
	in.structField(fl, "name").V = StrV{S: of.name}
	in.structField(fl, "appendMode").V = in.ctx.Bool(of.app)
	outer := in.newLoc(ft)
	outer.Kids[0].V = fl
	fs.files[fl] = of
	return outer
}

func (fs *fsModel) fileOf(recv Value) (*openFile, *Loc) {
	l, ok := recv.(*Loc)
	if !ok || l == nil {
		fs.in.throwRuntime("nil *os.File")
	}
	inner, _ := l.Kids[0].V.(*Loc)
	if inner == nil {
		fs.in.throwRuntime("os.File with nil file")
	}
	of := fs.files[inner]
	if of == nil {
		panic(unsupported{"os.File not created by the FS model"})
	}
	return of, inner
}

func (fs *fsModel) fileInfo(name string, ino *inode) Value {
	in := fs.in
	c := in.ctx
	t := in.namedType("os", "fileStat")
	l := in.newLoc(t)
	in.structField(l, "name").V = StrV{S: filepath.Base(name)}
	in.structField(l, "size").V = c.BV(uint64(len(ino.data)), 64)
	mode := uint64(ino.mode)
	if ino.isDir {
		mode |= 1 << 31
	}
	if ino.special {
		mode |= 1 << 26 // ModeDevice
	}
	if ino.link != "" {
		mode |= 1 << 27 // ModeSymlink
	}
	in.structField(l, "mode").V = c.BV(mode, 32)
	sys := in.structField(l, "sys")
	in.structField(sys, "Dev").V = c.BV(1, 64)
	in.structField(sys, "Ino").V = c.BV(uint64(ino.id), 64)
	in.structField(sys, "Nlink").V = c.BV(uint64(ino.nlink), 64)
	in.structField(sys, "Size").V = c.BV(uint64(len(ino.data)), 64)
	return IfaceV{T: types.NewPointer(t), V: l}
}

func (fs *fsModel) open(name string, flag int, perm uint32) (Value, Value) {
	in := fs.in
	const (
		oWRONLY = 1
		oRDWR   = 2
		oCREATE = 0x40
		oEXCL   = 0x80
		oTRUNC  = 0x200
		oAPPEND = 0x400
	)
	name, ino := fs.resolve(name)
	if fs.fault("open") {
		return (*Loc)(nil), in.pathError("open", name, eIO)
	}
	if ino == nil {
		if flag&oCREATE == 0 {
			return (*Loc)(nil), in.pathError("open", name, eNOENT)
		}
		fs.mutate("create " + name)
		ino = fs.newInode()
		ino.mode = perm & 0o777
		fs.names[name] = ino
	} else {
		if flag&oCREATE != 0 && flag&oEXCL != 0 {
			return (*Loc)(nil), in.pathError("open", name, eEXIST)
		}
		if flag&oTRUNC != 0 && len(ino.data) > 0 {
			fs.mutate("truncate-on-open " + name)
			ino.data = nil
		}
	}
	of := &openFile{ino: ino, name: name, app: flag&oAPPEND != 0}
	acc := flag & 3
	of.rd = acc == 0 || acc == oRDWR
	of.wr = acc == oWRONLY || acc == oRDWR
	return fs.newFileValue(of), nilError()
}

// resolve follows symbolic links (as open, stat, chmod, truncate do; lstat,
// unlink and rename act on the link itself).
func (fs *fsModel) resolve(name string) (string, *inode) {
	for i := 0; i < 8; i++ {
		ino := fs.names[name]
		if ino == nil || ino.link == "" {
			return name, ino
		}
		name = ino.link
	}
	return name, nil
}

func (fs *fsModel) sortedNames() []string {
	var ns []string
	for n := range fs.names {
		ns = append(ns, n)
	}
	sort.Strings(ns)
	return ns
}

func registerOS(e *Engine) {
	I := e.intrinsics
	cs := func(in *Interp, v Value, what string) string { return in.concreteStr(v, what) }
	I["os.OpenFile"] = func(in *Interp, fn *ssa.Function, a []Value) Value {
		f, err := in.fs.open(cs(in, a[0], "OpenFile name"), in.concreteInt(a[1], "flag"), uint32(in.concreteInt(a[2], "perm")))
		return TupleV{f, err}
	}
	I["os.Open"] = func(in *Interp, fn *ssa.Function, a []Value) Value {
		f, err := in.fs.open(cs(in, a[0], "Open name"), 0, 0)
		return TupleV{f, err}
	}
	I["os.Create"] = func(in *Interp, fn *ssa.Function, a []Value) Value {
		f, err := in.fs.open(cs(in, a[0], "Create name"), 2|0x40|0x200, 0o666)
		return TupleV{f, err}
	}
	I["os.CreateTemp"] = func(in *Interp, fn *ssa.Function, a []Value) Value {
		dir, pat := cs(in, a[0], "dir"), cs(in, a[1], "pattern")
		if dir == "" {
			dir = "/tmp"
		}
		prefix, suffix := pat, ""
		if i := strings.LastIndexByte(pat, '*'); i >= 0 {
			prefix, suffix = pat[:i], pat[i+1:]
		}
		in.fs.tmpSeq++
		name := filepath.Join(dir, fmt.Sprintf("%s%09d%s", prefix, in.fs.tmpSeq, suffix))
		f, err := in.fs.open(name, 2|0x40|0x80, 0o600)
		return TupleV{f, err}
	}
	I["io/ioutil.TempFile"] = I["os.CreateTemp"]
	I["(*os.File).read"] = func(in *Interp, fn *ssa.Function, a []Value) Value {
		of, _ := in.fs.fileOf(a[0])
		b := a[1].(SliceV)
		if of.closed {
			return TupleV{in.intTerm(0), in.globalVar("os", "ErrClosed")}
		}
		if in.fs.fault("read") {
			return TupleV{in.intTerm(0), in.errnoErr(eIO)}
		}
		n := min(b.Len, len(of.ino.data)-of.pos)
		if n < 0 {
			n = 0
		}
		for i := 0; i < n; i++ {
			in.sliceSet(b, i, of.ino.data[of.pos+i])
		}
		of.pos += n
		if n == 0 && b.Len > 0 {
			return TupleV{in.intTerm(0), in.globalVar("io", "EOF")}
		}
		return TupleV{in.intTerm(n), nilError()}
	}
	I["(*os.File).pread"] = func(in *Interp, fn *ssa.Function, a []Value) Value {
		of, _ := in.fs.fileOf(a[0])
		b := a[1].(SliceV)
		if of.closed {
			return TupleV{in.intTerm(0), in.globalVar("os", "ErrClosed")}
		}
		// every offset at or beyond the end of the file behaves alike: EOF
		offT := a[2].(*smt.Term)
		if in.Branch(in.ctx.Sle(in.ctx.BV(uint64(len(of.ino.data)), 64), offT)) {
			if b.Len == 0 {
				return TupleV{in.intTerm(0), nilError()}
			}
			return TupleV{in.intTerm(0), in.globalVar("io", "EOF")}
		}
		off := in.Concretize(offT, len(of.ino.data), "pread offset")
		n := min(b.Len, len(of.ino.data)-off)
		if n < 0 {
			n = 0
		}
		for i := 0; i < n; i++ {
			in.sliceSet(b, i, of.ino.data[off+i])
		}
		if n == 0 && b.Len > 0 {
			return TupleV{in.intTerm(0), in.globalVar("io", "EOF")}
		}
		return TupleV{in.intTerm(n), nilError()}
	}
	writeAt := func(in *Interp, of *openFile, b SliceV, off int) {
		if off > len(of.ino.data)+(1<<16) {
			panic(unwindFail{fmt.Sprintf("write at offset %d far beyond the end of a %d-byte file (engine limit)", off, len(of.ino.data))})
		}
		for len(of.ino.data) < off {
			of.ino.data = append(of.ino.data, in.ctx.BV(0, 8))
		}
		for i := 0; i < b.Len; i++ {
			v := in.sliceGet(b, i).(*smt.Term)
			if off+i < len(of.ino.data) {
				of.ino.data[off+i] = v
			} else {
				of.ino.data = append(of.ino.data, v)
			}
		}
	}
	I["(*os.File).write"] = func(in *Interp, fn *ssa.Function, a []Value) Value {
		of, _ := in.fs.fileOf(a[0])
		b := a[1].(SliceV)
		if of.closed {
			return TupleV{in.intTerm(0), in.globalVar("os", "ErrClosed")}
		}
		if !of.wr {
			return TupleV{in.intTerm(0), in.errnoErr(eBADF)}
		}
		if in.fs.fault("write") {
			return TupleV{in.intTerm(0), in.errnoErr(eNOSPC)}
		}
		in.fs.mutate(fmt.Sprintf("write %s [%d bytes]", of.name, b.Len))
		// copy-on-write of the inode contents (other descriptors share the inode)
		of.ino.data = append([]*smt.Term(nil), of.ino.data...)
		if of.app {
			of.pos = len(of.ino.data)
		}
		writeAt(in, of, b, of.pos)
		of.pos += b.Len
		return TupleV{in.intTerm(b.Len), nilError()}
	}
	I["(*os.File).pwrite"] = func(in *Interp, fn *ssa.Function, a []Value) Value {
		of, _ := in.fs.fileOf(a[0])
		b := a[1].(SliceV)
		if of.closed {
			return TupleV{in.intTerm(0), in.globalVar("os", "ErrClosed")}
		}
		if !of.wr {
			return TupleV{in.intTerm(0), in.errnoErr(eBADF)}
		}
		if in.fs.fault("pwrite") {
			return TupleV{in.intTerm(0), in.errnoErr(eNOSPC)}
		}
		off := in.Concretize(a[2].(*smt.Term), len(of.ino.data)+in.maxLen, "pwrite offset")
		in.fs.mutate(fmt.Sprintf("pwrite %s [%d bytes @%d]", of.name, b.Len, off))
		of.ino.data = append([]*smt.Term(nil), of.ino.data...)
		writeAt(in, of, b, off)
		return TupleV{in.intTerm(b.Len), nilError()}
	}
	I["(*os.File).seek"] = func(in *Interp, fn *ssa.Function, a []Value) Value {
		c := in.ctx
		of, _ := in.fs.fileOf(a[0])
		if of.closed {
			return TupleV{in.intTerm(0), in.globalVar("os", "ErrClosed")}
		}
		whence := in.concreteInt(a[2], "seek whence")
		base := 0
		switch whence {
		case 1:
			base = of.pos
		case 2:
			base = len(of.ino.data)
		}
		np := c.BVAdd(a[1].(*smt.Term), c.BV(uint64(base), 64))
		if in.Branch(c.Slt(np, c.BV(0, 64))) {
			return TupleV{in.intTerm(0), in.errnoErr(eINVAL)}
		}
		of.pos = in.Concretize(np, len(of.ino.data)+in.maxLen, "seek position")
		return TupleV{in.intTerm(of.pos), nilError()}
	}
	I["(*os.file).close"] = func(in *Interp, fn *ssa.Function, a []Value) Value {
		l, _ := a[0].(*Loc)
		if l == nil {
			return in.errnoErr(eINVAL)
		}
		of := in.fs.files[l]
		if of == nil {
			panic(unsupported{"close of unknown file"})
		}
		if of.closed {
			return in.pathError("close", of.name, eBADF)
		}
		of.closed = true
		in.res.Events = append(in.res.Events, "fs:close "+of.name)
		if in.fs.fault("close") {
			return in.pathError("close", of.name, eIO)
		}
		return nilError()
	}
	I["(*os.File).Truncate"] = func(in *Interp, fn *ssa.Function, a []Value) Value {
		of, _ := in.fs.fileOf(a[0])
		if of.closed {
			return in.globalVar("os", "ErrClosed")
		}
		if in.fs.fault("truncate") {
			return in.pathError("truncate", of.name, eIO)
		}
		c := in.ctx
		sz := a[1].(*smt.Term)
		if in.Branch(c.Slt(sz, c.BV(0, 64))) {
			return in.pathError("truncate", of.name, eINVAL)
		}
		n := in.Concretize(sz, len(of.ino.data)+in.maxLen, "truncate size")
		in.fs.mutate(fmt.Sprintf("ftruncate %s %d", of.name, n))
		d := append([]*smt.Term(nil), of.ino.data...)
		// a sparse extension far beyond the current size is materialised only
		// up to 64 extra zero bytes (enough for any comparison to see it)
		limit := n
		if limit > len(d)+64 {
			limit = len(d) + 64
			in.res.addCut(fmt.Sprintf("ftruncate to %d bytes: sparse tail materialised up to %d bytes", n, limit))
		}
		for len(d) < limit {
			d = append(d, c.BV(0, 8))
		}
		if n < len(d) {
			d = d[:n]
		}
		of.ino.data = d
		return nilError()
	}
	I["(*os.File).Stat"] = func(in *Interp, fn *ssa.Function, a []Value) Value {
		of, _ := in.fs.fileOf(a[0])
		if of.closed {
			return TupleV{IfaceV{}, in.globalVar("os", "ErrClosed")}
		}
		if in.fs.fault("fstat") {
			return TupleV{IfaceV{}, in.pathError("stat", of.name, eIO)}
		}
		return TupleV{in.fs.fileInfo(of.name, of.ino), nilError()}
	}
	I["(*os.File).Sync"] = func(in *Interp, fn *ssa.Function, a []Value) Value { return nilError() }
	I["(*os.File).chmod"] = func(in *Interp, fn *ssa.Function, a []Value) Value {
		of, _ := in.fs.fileOf(a[0])
		if of.closed {
			return in.globalVar("os", "ErrClosed")
		}
		in.fs.mutate("fchmod " + of.name)
		of.ino.mode = uint32(in.concreteInt(a[1], "mode")) & 0o777
		return nilError()
	}
	// no zero-copy fast paths: fall back to the generic io.Copy loops
	notHandled := func(in *Interp, fn *ssa.Function, a []Value) Value {
		return TupleV{in.intTerm(0), in.ctx.False, nilError()}
	}
	I["(*os.File).readFrom"] = notHandled
	I["(*os.File).writeTo"] = notHandled
	statFn := func(follow bool) intrinsicFn {
		return func(in *Interp, fn *ssa.Function, a []Value) Value {
			name := cs(in, a[0], "stat name")
			ino := in.fs.names[name]
			if follow {
				_, ino = in.fs.resolve(name)
			}
			if ino == nil {
				return TupleV{IfaceV{}, in.pathError("stat", name, eNOENT)}
			}
			if in.fs.fault("stat") {
				return TupleV{IfaceV{}, in.pathError("stat", name, eIO)}
			}
			return TupleV{in.fs.fileInfo(name, ino), nilError()}
		}
	}
	I["os.Stat"] = statFn(true)
	I["os.Lstat"] = statFn(false)
	I["os.Remove"] = func(in *Interp, fn *ssa.Function, a []Value) Value {
		name := cs(in, a[0], "remove name")
		ino := in.fs.names[name]
		if ino == nil {
			return in.pathError("remove", name, eNOENT)
		}
		// cleanup calls (unlink) are assumed not to fail: a failing unlink of a
		// temporary file leaves it behind whatever the caller does
		in.fs.mutate("unlink " + name)
		delete(in.fs.names, name)
		ino.nlink--
		return nilError()
	}
	I["os.Rename"] = func(in *Interp, fn *ssa.Function, a []Value) Value {
		from, to := cs(in, a[0], "rename from"), cs(in, a[1], "rename to")
		ino := in.fs.names[from]
		if ino == nil {
			t := in.namedType("os", "LinkError")
			l := in.newLoc(t)
			in.structField(l, "Op").V = StrV{S: "rename"}
			in.structField(l, "Old").V = StrV{S: from}
			in.structField(l, "New").V = StrV{S: to}
			in.structField(l, "Err").V = in.errnoErr(eNOENT)
			return IfaceV{T: types.NewPointer(t), V: l}
		}
		if in.fs.fault("rename") {
			return in.pathError("rename", from, eIO)
		}
		in.fs.mutate("rename " + from + " -> " + to)
		if old := in.fs.names[to]; old != nil && old != ino {
			old.nlink--
		}
		delete(in.fs.names, from)
		in.fs.names[to] = ino
		return nilError()
	}
	I["os.Chmod"] = func(in *Interp, fn *ssa.Function, a []Value) Value {
		name := cs(in, a[0], "chmod name")
		_, ino := in.fs.resolve(name)
		if ino == nil {
			return in.pathError("chmod", name, eNOENT)
		}
		in.fs.mutate("chmod " + name)
		ino.mode = uint32(in.concreteInt(a[1], "mode")) & 0o777
		return nilError()
	}

	// --- harness-facing FS primitives --------------------------------
	H := harnessIntrinsics
	H["vhFSPath"] = func(in *Interp, fn *ssa.Function, a []Value) Value {
		return StrV{S: "/vhfs/" + cs(in, a[0], "vhFSPath")}
	}
	H["vhFSPut"] = func(in *Interp, fn *ssa.Function, a []Value) Value {
		name := cs(in, a[0], "vhFSPut name")
		ino := in.fs.newInode()
		ino.data = in.sliceBytes(a[1].(SliceV))
		in.fs.names[name] = ino
		return TupleV{}
	}
	H["vhFSLink"] = func(in *Interp, fn *ssa.Function, a []Value) Value {
		from, to := cs(in, a[0], "link from"), cs(in, a[1], "link to")
		ino := in.fs.names[from]
		if ino == nil {
			panic(unsupported{"vhFSLink: no such file"})
		}
		ino.nlink++
		in.fs.names[to] = ino
		return TupleV{}
	}
	H["vhFSSymlink"] = func(in *Interp, fn *ssa.Function, a []Value) Value {
		target, link := cs(in, a[0], "symlink target"), cs(in, a[1], "symlink name")
		ino := in.fs.newInode()
		ino.link = target
		in.fs.names[link] = ino
		return TupleV{}
	}
	H["vhFSIsSymlink"] = func(in *Interp, fn *ssa.Function, a []Value) Value {
		ino := in.fs.names[cs(in, a[0], "vhFSIsSymlink")]
		return in.ctx.Bool(ino != nil && ino.link != "")
	}
	H["vhFSGet"] = func(in *Interp, fn *ssa.Function, a []Value) Value {
		name := cs(in, a[0], "vhFSGet name")
		_, ino := in.fs.resolve(name)
		if ino == nil {
			return TupleV{SliceV{Nil: true}, in.ctx.False}
		}
		return TupleV{in.bytesToSlice(append([]*smt.Term(nil), ino.data...)), in.ctx.True}
	}
	H["vhFSExists"] = func(in *Interp, fn *ssa.Function, a []Value) Value {
		return in.ctx.Bool(in.fs.names[cs(in, a[0], "vhFSExists")] != nil)
	}
	H["vhFSCountPrefix"] = func(in *Interp, fn *ssa.Function, a []Value) Value {
		p := cs(in, a[0], "prefix")
		n := 0
		for name := range in.fs.names {
			if strings.HasPrefix(name, p) {
				n++
			}
		}
		return in.intTerm(n)
	}
	H["vhFSFaults"] = func(in *Interp, fn *ssa.Function, a []Value) Value {
		in.fs.faults = a[0].(*smt.Term).IsTrue()
		return TupleV{}
	}
	H["vhFSSteps"] = func(in *Interp, fn *ssa.Function, a []Value) Value { return in.intTerm(in.fs.step) }
	// vhCrashRun(k, f): run f; the process is killed just before FS step k
	// (counted from the call). Returns true if the crash happened.
	H["vhCrashRun"] = func(in *Interp, fn *ssa.Function, a []Value) (res Value) {
		k := in.Concretize(a[0].(*smt.Term), 64, "crash step")
		in.res.NoNative = true
		saved := in.top
		in.fs.crashAt = in.fs.step + k
		defer func() {
			in.fs.crashAt = -1
			if r := recover(); r != nil {
				if _, ok := r.(fsCrash); ok {
					in.top = saved
					res = in.ctx.True
					return
				}
				panic(r)
			}
		}()
		in.call(a[1], nil, 0)
		return in.ctx.False
	}
}
