package sym

import (
	"fmt"
	"go/constant"
	"go/token"
	"go/types"
	"math"
	"unicode/utf8"

	"gosmt/smt"

	"golang.org/x/tools/go/ssa"
)

func constantStringVal(c *ssa.Const) string {
	if c.Value.Kind() == constant.String {
		return constant.StringVal(c.Value)
	}
	// int constant converted to string type (rune)
	return string(rune(c.Int64()))
}

// SymElemPtr is a pointer to slice element with a symbolic index whose only
// uses are loads and stores (checked at creation).
type SymElemPtr struct {
	S   SliceV
	Idx *smt.Term
}

func (in *Interp) visit(fr *frame, instr ssa.Instruction) {
	switch x := instr.(type) {
	case *ssa.DebugRef:
	case *ssa.UnOp:
		fr.env[x] = in.unop(fr, x)
	case *ssa.BinOp:
		fr.env[x] = in.binop(x.Op, x.X.Type(), fr.get(x.X), fr.get(x.Y), x.Y.Type())
	case *ssa.Call:
		fn, args := in.prepareCall(fr, &x.Call)
		fr.env[x] = in.call(fn, args, x.Pos())
	case *ssa.ChangeInterface:
		fr.env[x] = fr.get(x.X)
	case *ssa.ChangeType:
		fr.env[x] = fr.get(x.X)
	case *ssa.Convert:
		fr.env[x] = in.conv(x.Type(), x.X.Type(), fr.get(x.X))
	case *ssa.MultiConvert:
		fr.env[x] = in.conv(x.Type(), x.X.Type(), fr.get(x.X))
	case *ssa.SliceToArrayPointer:
		s := in.conc(fr.get(x.X).(SliceV))
		at := x.Type().(*types.Pointer).Elem().Underlying().(*types.Array)
		n := int(at.Len())
		if s.Len < n {
			in.throwRuntime("cannot convert slice to array pointer: length too short")
		}
		if s.Arr == nil {
			fr.env[x] = (*Loc)(nil)
			break
		}
		if s.Off == 0 && s.Arr.arrayLen() == n {
			fr.env[x] = s.Arr
			break
		}
		panic(unsupported{"SliceToArrayPointer into the middle of an array"})
	case *ssa.MakeInterface:
		fr.env[x] = IfaceV{T: x.X.Type(), V: fr.get(x.X)}
	case *ssa.Extract:
		tv, ok := fr.get(x.Tuple).(TupleV)
		if !ok {
			panic(unsupported{"extract from non-tuple"})
		}
		fr.env[x] = tv[x.Index]
	case *ssa.Slice:
		fr.env[x] = in.sliceOp(fr, x)
	case *ssa.RunDefers:
		in.runDefers(fr)
	case *ssa.Send:
		ch := fr.get(x.Chan).(*ChanV)
		in.chanSend(ch, fr.get(x.X))
	case *ssa.Store:
		in.store(fr.get(x.Addr), fr.get(x.Val))
	case *ssa.Defer:
		fn, args := in.prepareCall(fr, &x.Call)
		fr.defers = append(fr.defers, &deferred{fn: fn, args: args, pos: x.Pos()})
	case *ssa.Go:
		fn, args := in.prepareCall(fr, &x.Call)
		in.goStmt(fr, fn, args)
	case *ssa.MakeChan:
		sz := in.Concretize(fr.get(x.Size).(*smt.Term), 16, "chan size")
		in.nextID++
		fr.env[x] = &ChanV{T: under(x.Type()).(*types.Chan), Cap: sz, ID: in.nextID}
	case *ssa.Alloc:
		t := x.Type().(*types.Pointer).Elem()
		if x.Heap {
			fr.env[x] = in.newLoc(t)
		} else {
			// local: re-zero on each execution
			l := fr.env[x].(*Loc)
			nl := in.newLoc(t)
			*l = *nl
			for _, k := range l.Kids {
				k.Parent = l
			}
		}
	case *ssa.MakeSlice:
		fr.env[x] = in.makeSliceOp(fr, x)
	case *ssa.MakeMap:
		in.nextID++
		fr.env[x] = &MapV{T: under(x.Type()).(*types.Map), ID: in.nextID}
	case *ssa.Range:
		fr.env[x] = in.rangeIter(fr.get(x.X), x.X.Type())
	case *ssa.Next:
		fr.env[x] = fr.get(x.Iter).(*iter).next(in)
	case *ssa.FieldAddr:
		p := fr.get(x.X)
		l, ok := p.(*Loc)
		if !ok {
			panic(unsupported{fmt.Sprintf("FieldAddr on %T", p)})
		}
		if l == nil {
			in.throwRuntime("invalid memory address or nil pointer dereference")
		}
		fr.env[x] = l.Kids[x.Field]
	case *ssa.Field:
		fr.env[x] = fr.get(x.X).(StructV)[x.Field]
	case *ssa.IndexAddr:
		fr.env[x] = in.indexAddr(fr, x)
	case *ssa.Index:
		fr.env[x] = in.indexOp(fr, x)
	case *ssa.Lookup:
		fr.env[x] = in.lookup(fr, x)
	case *ssa.MapUpdate:
		m := fr.get(x.Map).(*MapV)
		if m == nil {
			in.throwRuntime("assignment to entry in nil map")
		}
		in.mapSet(m, fr.get(x.Key), fr.get(x.Value))
	case *ssa.TypeAssert:
		fr.env[x] = in.typeAssert(x, fr.get(x.X))
	case *ssa.MakeClosure:
		var b []Value
		for _, bd := range x.Bindings {
			b = append(b, fr.get(bd))
		}
		fr.env[x] = &FuncV{Fn: x.Fn.(*ssa.Function), Env: b}
	case *ssa.Select:
		fr.env[x] = in.selectOp(fr, x)
	default:
		panic(unsupported{fmt.Sprintf("instruction %T", instr)})
	}
}

// ---------------------------------------------------------------------

func (in *Interp) unop(fr *frame, x *ssa.UnOp) Value {
	v := fr.get(x.X)
	switch x.Op {
	case token.MUL: // load
		if sp, ok := v.(SymElemPtr); ok {
			return in.symLoad(sp)
		}
		return in.load(v)
	case token.SUB:
		switch v := v.(type) {
		case *smt.Term:
			return in.ctx.BVNeg(v)
		case FloatV:
			return -v
		}
	case token.NOT:
		return in.ctx.Not(v.(*smt.Term))
	case token.XOR:
		return in.ctx.BVNot(v.(*smt.Term))
	case token.ARROW:
		ch := v.(*ChanV)
		val, ok := in.chanRecv(ch)
		if x.CommaOk {
			return TupleV{val, in.ctx.Bool(ok)}
		}
		return val
	}
	panic(unsupported{fmt.Sprintf("unop %v on %T", x.Op, v)})
}

func (in *Interp) symLoad(sp SymElemPtr) Value {
	var res *smt.Term
	w := 0
	for i := sp.S.Len - 1; i >= 0; i-- {
		e, ok := in.sliceGet(sp.S, i).(*smt.Term)
		if !ok {
			panic(unsupported{"symbolic index over non-scalar elements"})
		}
		w = sp.Idx.W
		if res == nil {
			res = e
			continue
		}
		res = in.ctx.Ite(in.ctx.Eq(sp.Idx, in.ctx.BV(uint64(i), w)), e, res)
	}
	return res
}

func (in *Interp) symStore(sp SymElemPtr, v Value) {
	nv := v.(*smt.Term)
	for i := 0; i < sp.S.Len; i++ {
		old := in.sliceGet(sp.S, i).(*smt.Term)
		in.sliceSet(sp.S, i, in.ctx.Ite(in.ctx.Eq(sp.Idx, in.ctx.BV(uint64(i), sp.Idx.W)), nv, old))
	}
}

func (in *Interp) binop(op token.Token, xt types.Type, xv, yv Value, yt types.Type) Value {
	c := in.ctx
	switch a := xv.(type) {
	case *smt.Term:
		b, ok := yv.(*smt.Term)
		if !ok {
			break
		}
		if a.W == 0 { // bools
			switch op {
			case token.EQL:
				return c.Eq(a, b)
			case token.NEQ:
				return c.Not(c.Eq(a, b))
			case token.AND, token.LAND:
				return c.And(a, b)
			case token.OR, token.LOR:
				return c.Or(a, b)
			}
			break
		}
		w, signed := typeWidth(xt)
		switch op {
		case token.ADD:
			return c.BVAdd(a, b)
		case token.SUB:
			return c.BVSub(a, b)
		case token.MUL:
			return c.BVMul(a, b)
		case token.QUO, token.REM:
			if in.Branch(c.Eq(b, c.BV(0, w))) {
				in.throwRuntime("integer divide by zero")
			}
			if signed {
				if op == token.QUO {
					return c.BVSDiv(a, b)
				}
				return c.BVSRem(a, b)
			}
			if op == token.QUO {
				return c.BVUDiv(a, b)
			}
			return c.BVURem(a, b)
		case token.AND:
			return c.BVAnd(a, b)
		case token.OR:
			return c.BVOr(a, b)
		case token.XOR:
			return c.BVXor(a, b)
		case token.AND_NOT:
			return c.BVAnd(a, c.BVNot(b))
		case token.SHL, token.SHR:
			_, ysigned := typeWidth(yt)
			if ysigned && !b.IsConst() {
				if in.Branch(c.Slt(b, c.BV(0, b.W))) {
					in.throwRuntime("negative shift amount")
				}
			} else if ysigned && int64(b.Val<<(64-uint(b.W)))>>(64-uint(b.W)) < 0 {
				in.throwRuntime("negative shift amount")
			}
			// bring count to width w, saturating
			var cnt *smt.Term
			var big *smt.Term = c.False
			if b.W > w {
				big = c.Ule(c.BV(uint64(w), b.W), b)
				cnt = c.Extract(b, w-1, 0)
			} else {
				cnt = c.ZExt(b, w)
				big = c.Ule(c.BV(uint64(w), w), cnt)
			}
			switch {
			case op == token.SHL:
				return c.Ite(big, c.BV(0, w), c.BVShl(a, cnt))
			case signed:
				return c.BVAshr(a, c.Ite(big, c.BV(uint64(w-1), w), cnt))
			default:
				return c.Ite(big, c.BV(0, w), c.BVLshr(a, cnt))
			}
		case token.EQL:
			return c.Eq(a, b)
		case token.NEQ:
			return c.Not(c.Eq(a, b))
		case token.LSS:
			if signed {
				return c.Slt(a, b)
			}
			return c.Ult(a, b)
		case token.LEQ:
			if signed {
				return c.Sle(a, b)
			}
			return c.Ule(a, b)
		case token.GTR:
			if signed {
				return c.Slt(b, a)
			}
			return c.Ult(b, a)
		case token.GEQ:
			if signed {
				return c.Sle(b, a)
			}
			return c.Ule(b, a)
		}
	case FloatV:
		b, ok := yv.(FloatV)
		if !ok {
			break
		}
		f32 := false
		if bt, ok := under(xt).(*types.Basic); ok && bt.Kind() == types.Float32 {
			f32 = true
		}
		rnd := func(f float64) FloatV {
			if f32 {
				return FloatV(float32(f))
			}
			return FloatV(f)
		}
		switch op {
		case token.ADD:
			return rnd(float64(a) + float64(b))
		case token.SUB:
			return rnd(float64(a) - float64(b))
		case token.MUL:
			return rnd(float64(a) * float64(b))
		case token.QUO:
			return rnd(float64(a) / float64(b))
		case token.EQL:
			return c.Bool(a == b)
		case token.NEQ:
			return c.Bool(a != b)
		case token.LSS:
			return c.Bool(a < b)
		case token.LEQ:
			return c.Bool(a <= b)
		case token.GTR:
			return c.Bool(a > b)
		case token.GEQ:
			return c.Bool(a >= b)
		}
	case StrV:
		b, ok := yv.(StrV)
		if !ok {
			break
		}
		switch op {
		case token.ADD:
			if a.Sym == nil && b.Sym == nil {
				return StrV{S: a.S + b.S}
			}
			return in.mkStr(append(append([]*smt.Term{}, in.strBytes(a)...), in.strBytes(b)...))
		case token.EQL:
			return in.strEq(a, b)
		case token.NEQ:
			return c.Not(in.strEq(a, b))
		case token.LSS:
			return in.strLess(a, b, false)
		case token.LEQ:
			return in.strLess(a, b, true)
		case token.GTR:
			return in.strLess(b, a, false)
		case token.GEQ:
			return in.strLess(b, a, true)
		}
	}
	switch op {
	case token.EQL:
		return in.valueEq(xv, yv)
	case token.NEQ:
		return c.Not(in.valueEq(xv, yv))
	}
	panic(unsupported{fmt.Sprintf("binop %v on %T, %T", op, xv, yv)})
}

func (in *Interp) strEq(a, b StrV) *smt.Term {
	if a.Len() != b.Len() {
		return in.ctx.False
	}
	if a.Sym == nil && b.Sym == nil {
		return in.ctx.Bool(a.S == b.S)
	}
	ab, bb := in.strBytes(a), in.strBytes(b)
	cs := make([]*smt.Term, len(ab))
	for i := range ab {
		cs[i] = in.ctx.Eq(ab[i], bb[i])
	}
	return in.ctx.And(cs...)
}

func (in *Interp) strLess(a, b StrV, orEq bool) *smt.Term {
	c := in.ctx
	if a.Sym == nil && b.Sym == nil {
		if orEq {
			return c.Bool(a.S <= b.S)
		}
		return c.Bool(a.S < b.S)
	}
	ab, bb := in.strBytes(a), in.strBytes(b)
	n := min(len(ab), len(bb))
	// result at the end of common prefix
	var res *smt.Term
	if len(ab) < len(bb) {
		res = c.True
	} else if len(ab) == len(bb) {
		res = c.Bool(orEq)
	} else {
		res = c.False
	}
	for i := n - 1; i >= 0; i-- {
		res = c.Ite(c.Eq(ab[i], bb[i]), res, c.Ult(ab[i], bb[i]))
	}
	return res
}

// valueEq builds the equality condition of two Go values.
func (in *Interp) valueEq(x, y Value) *smt.Term {
	c := in.ctx
	switch a := x.(type) {
	case *smt.Term:
		if b, ok := y.(*smt.Term); ok {
			return c.Eq(a, b)
		}
	case FloatV:
		if b, ok := y.(FloatV); ok {
			return c.Bool(a == b)
		}
	case StrV:
		if b, ok := y.(StrV); ok {
			return in.strEq(a, b)
		}
	case *Loc:
		switch b := y.(type) {
		case *Loc:
			return c.Bool(a == b)
		case ElemPtr:
			return c.False
		}
	case ElemPtr:
		switch b := y.(type) {
		case ElemPtr:
			return c.Bool(a == b)
		case *Loc:
			return c.False
		}
	case *MapV:
		if b, ok := y.(*MapV); ok {
			return c.Bool(a == b)
		}
	case *ChanV:
		if b, ok := y.(*ChanV); ok {
			return c.Bool(a == b)
		}
	case *FuncV:
		if b, ok := y.(*FuncV); ok {
			if a == nil || b == nil {
				return c.Bool(a == b)
			}
		}
	case SliceV:
		// only comparison with nil is legal
		if b, ok := y.(SliceV); ok {
			if b.Nil && b.Arr == nil {
				return c.Bool(a.Nil)
			}
			if a.Nil && a.Arr == nil {
				return c.Bool(b.Nil)
			}
		}
	case IfaceV:
		b, ok := y.(IfaceV)
		if !ok {
			break
		}
		if a.T == nil || b.T == nil {
			return c.Bool(a.T == nil && b.T == nil)
		}
		if !types.Identical(a.T, b.T) {
			return c.False
		}
		if !types.Comparable(a.T) {
			in.throwRuntime("comparing uncomparable type " + a.T.String())
		}
		return in.valueEq(a.V, b.V)
	case StructV:
		if b, ok := y.(StructV); ok && len(a) == len(b) {
			cs := make([]*smt.Term, len(a))
			for i := range a {
				cs[i] = in.valueEq(a[i], b[i])
			}
			return c.And(cs...)
		}
	case ArrayV:
		if b, ok := y.(ArrayV); ok && len(a) == len(b) {
			cs := make([]*smt.Term, len(a))
			for i := range a {
				cs[i] = in.valueEq(a[i], b[i])
			}
			return c.And(cs...)
		}
	}
	panic(unsupported{fmt.Sprintf("valueEq %T vs %T", x, y)})
}

// ---------------------------------------------------------------------

func (in *Interp) conv(dst, src types.Type, v Value) Value {
	c := in.ctx
	ud, us := under(dst), under(src)
	switch d := ud.(type) {
	case *types.Basic:
		switch {
		case d.Info()&types.IsInteger != 0:
			switch x := v.(type) {
			case *smt.Term:
				w, _ := typeWidth(d)
				_, ssigned := typeWidth(src)
				return c.Resize(x, w, ssigned)
			case FloatV:
				w, signed := typeWidth(d)
				if signed {
					return c.BV(uint64(int64(x)), w)
				}
				return c.BV(uint64(x), w)
			}
		case d.Info()&types.IsFloat != 0:
			switch x := v.(type) {
			case FloatV:
				if d.Kind() == types.Float32 {
					return FloatV(float32(x))
				}
				return x
			case *smt.Term:
				if !x.IsConst() {
					panic(unsupported{"symbolic integer to float conversion"})
				}
				w, signed := typeWidth(src)
				var f float64
				if signed {
					f = float64(int64(x.Val<<(64-uint(w))) >> (64 - uint(w)))
				} else {
					f = float64(x.Val)
				}
				if d.Kind() == types.Float32 {
					return FloatV(float32(f))
				}
				return FloatV(f)
			}
		case d.Info()&types.IsString != 0:
			switch x := v.(type) {
			case StrV:
				return x
			case *smt.Term: // rune/int -> string
				if !x.IsConst() {
					panic(unsupported{"symbolic rune to string"})
				}
				return StrV{S: string(rune(int64(x.Val)))}
			case SliceV:
				x = in.conc(x)
				if sl, ok := us.(*types.Slice); ok {
					if eb, ok := under(sl.Elem()).(*types.Basic); ok && eb.Kind() == types.Uint8 {
						return in.mkStr(in.sliceBytes(x))
					}
					// []rune -> string
					var rs []rune
					for i := 0; i < x.Len; i++ {
						t := in.sliceGet(x, i).(*smt.Term)
						if !t.IsConst() {
							panic(unsupported{"symbolic []rune to string"})
						}
						rs = append(rs, rune(int32(t.Val)))
					}
					return StrV{S: string(rs)}
				}
			}
		case d.Kind() == types.UnsafePointer:
			return v
		case d.Info()&types.IsBoolean != 0:
			return v
		case d.Info()&types.IsComplex != 0:
			return v
		}
	case *types.Slice:
		if s, ok := v.(StrV); ok {
			eb := under(d.Elem()).(*types.Basic)
			if eb.Kind() == types.Uint8 {
				return in.bytesToSlice(in.strBytes(s))
			}
			// []rune
			cs, ok := s.Concrete()
			if !ok {
				// symbolic text: supported when every byte is ASCII on this
				// path (one rune per byte); multi-byte sequences are not decoded
				bs := in.strBytes(s)
				out := in.makeSlice(d.Elem(), len(bs), len(bs))
				for i, b := range bs {
					if !in.Branch(c.Ult(b, c.BV(0x80, 8))) {
						panic(unsupported{"symbolic non-ASCII string to []rune"})
					}
					out.Arr.Elems[i] = c.ZExt(b, 32)
				}
				return out
			}
			rs := []rune(cs)
			out := in.makeSlice(d.Elem(), len(rs), len(rs))
			for i, r := range rs {
				out.Arr.Elems[i] = c.BV(uint64(r), 32)
			}
			return out
		}
		return v
	case *types.Pointer:
		return v
	}
	if _, ok := v.(PoisonV); ok {
		return v
	}
	panic(unsupported{fmt.Sprintf("convert %v -> %v (%T)", src, dst, v)})
}

// ---------------------------------------------------------------------
// slices and indexing

func (in *Interp) toInt(v Value) *smt.Term {
	t, ok := v.(*smt.Term)
	if !ok {
		panic(unsupported{fmt.Sprintf("expected integer, got %T", v)})
	}
	return t
}

// asIndex normalises an index term of any integer type to 64 bits.
func (in *Interp) asIndex(v Value, t types.Type) *smt.Term {
	x := in.toInt(v)
	if x.W == 64 {
		return x
	}
	_, signed := typeWidth(t)
	return in.ctx.Resize(x, 64, signed)
}

func (in *Interp) makeSliceOp(fr *frame, x *ssa.MakeSlice) Value {
	c := in.ctx
	elem := under(x.Type()).(*types.Slice).Elem()
	ln := in.asIndex(fr.get(x.Len), x.Len.Type())
	cp := in.asIndex(fr.get(x.Cap), x.Cap.Type())
	if in.Branch(c.Or(c.Slt(ln, c.BV(0, 64)), c.Slt(cp, ln))) {
		in.throwRuntime("makeslice: len out of range")
	}
	esz := in.eng.Sizes.Sizeof(elem)
	in.allocCheck(cp, esz, "make")
	if !ln.IsConst() && in.eng.LazySlices {
		return SliceV{Arr: in.newLazyArray(elem), SLen: ln}
	}
	n := in.Concretize(ln, in.maxLen, "make len")
	cc := n
	if cp != ln {
		if cp.IsConst() {
			cc = int(cp.Val)
		} else {
			// a symbolic capacity does not influence behaviour except through
			// cap() and append aliasing: it is not case-split (and not
			// constrained); the slice gets cap = len
			in.res.addCut("make: symbolic capacity treated as cap=len at " + in.site())
		}
	}
	return in.makeSlice(elem, n, cc)
}

// allocCheck reports an allocation finding when n*elemSize can exceed the
// harness-declared limit.
func (in *Interp) allocCheck(n *smt.Term, esz int64, what string) {
	if in.allocLimit <= 0 {
		return
	}
	c := in.ctx
	if esz <= 0 {
		esz = 1
	}
	lim := uint64(in.allocLimit / esz)
	cond := c.Ult(c.BV(lim, 64), n)
	if cond.IsFalse() {
		return
	}
	if cond.IsTrue() {
		in.report("alloc", fmt.Sprintf("allocation of %d x %d bytes exceeds limit %d", n.Val, esz, in.allocLimit), nil)
		panic(pathEnd{"oversized allocation"})
	}
	if in.allocSeen[in.site()] {
		return
	}
	// prefer a witness whose size is comfortably measurable natively (1 MiB .. 256 MiB)
	big := c.And(c.Ult(c.BV(uint64((1<<20)/esz), 64), n), c.Ult(n, c.BV(uint64((256<<20)/esz), 64)))
	r, m := in.sol.CheckModel(in.inputTerms(), cond, big)
	if r != smt.Sat {
		r, m = in.sol.CheckModel(in.inputTerms(), cond)
	}
	if r == smt.Sat {
		in.allocSeen[in.site()] = true
		in.report("alloc", fmt.Sprintf("%s sized by input can exceed %d bytes (elem size %d)", what, in.allocLimit, esz), m)
		in.assume(c.Not(cond))
	} else if r == smt.Unknown {
		in.res.UnknownAsserts++
	}
}

func (in *Interp) sliceOp(fr *frame, x *ssa.Slice) Value {
	c := in.ctx
	xv := fr.get(x.X)
	var ln, cp int
	var base SliceV
	var str StrV
	isStr := false
	switch v := xv.(type) {
	case SliceV:
		if v.SLen != nil {
			return in.sliceOpSym(fr, x, v)
		}
		base = v
		ln, cp = v.Len, v.Cap
	case StrV:
		isStr = true
		str = v
		ln, cp = v.Len(), v.Len()
	case *Loc: // *array
		if v == nil {
			in.throwRuntime("nil pointer dereference (slice of nil array pointer)")
		}
		n := v.arrayLen()
		base = SliceV{Arr: v, Off: 0, Len: n, Cap: n}
		ln, cp = n, n
	default:
		panic(unsupported{fmt.Sprintf("slice of %T", xv)})
	}
	lo := c.BV(0, 64)
	if x.Low != nil {
		lo = in.asIndex(fr.get(x.Low), x.Low.Type())
	}
	hi := c.BV(uint64(ln), 64)
	if x.High != nil {
		hi = in.asIndex(fr.get(x.High), x.High.Type())
	}
	mx := c.BV(uint64(cp), 64)
	if x.Max != nil {
		mx = in.asIndex(fr.get(x.Max), x.Max.Type())
	}
	limit := cp
	if isStr {
		limit = ln
	}
	ok := c.And(c.Sle(c.BV(0, 64), lo), c.Sle(lo, hi), c.Sle(hi, mx), c.Sle(mx, c.BV(uint64(limit), 64)))
	if !in.Branch(ok) {
		in.throwRuntime("slice bounds out of range")
	}
	cb := limit
	if in.maxLen < cb {
		cb = in.maxLen
	}
	l := in.Concretize(lo, cb, "slice low")
	if !isStr && !hi.IsConst() && in.eng.LazySlices && base.Arr != nil && x.Max == nil {
		// symbolic upper bound: keep the length symbolic (bounds were checked above)
		return SliceV{Arr: base.Arr, Off: base.Off + l, SLen: c.BVSub(hi, c.BV(uint64(l), 64)), Cap: base.Cap - l}
	}
	h := in.Concretize(hi, cb, "slice high")
	m := limit
	if x.Max != nil {
		m = in.Concretize(mx, limit, "slice max")
	}
	if isStr {
		if str.Sym != nil {
			return in.mkStr(str.Sym[l:h])
		}
		return StrV{S: str.S[l:h]}
	}
	if base.Arr == nil {
		return SliceV{Nil: base.Nil}
	}
	return SliceV{Arr: base.Arr, Off: base.Off + l, Len: h - l, Cap: m - l}
}

// sliceOpSym slices a symbolic-length slice.
func (in *Interp) sliceOpSym(fr *frame, x *ssa.Slice, v SliceV) Value {
	c := in.ctx
	lo := c.BV(0, 64)
	if x.Low != nil {
		lo = in.asIndex(fr.get(x.Low), x.Low.Type())
	}
	hi := v.SLen
	if x.High != nil {
		hi = in.asIndex(fr.get(x.High), x.High.Type())
	}
	capT := v.SLen
	if v.Cap > 0 {
		capT = c.BV(uint64(v.Cap), 64)
	}
	mx := capT
	if x.Max != nil {
		mx = in.asIndex(fr.get(x.Max), x.Max.Type())
	}
	ok := c.And(c.Sle(c.BV(0, 64), lo), c.Sle(lo, hi), c.Sle(hi, mx), c.Sle(mx, capT))
	if !in.Branch(ok) {
		in.throwRuntime("slice bounds out of range")
	}
	l := in.Concretize(lo, in.maxLen, "slice low")
	ncap := 0
	if v.Cap > 0 {
		ncap = v.Cap - l
	}
	if x.High == nil || !hi.IsConst() {
		return SliceV{Arr: v.Arr, Off: v.Off + l, SLen: c.BVSub(hi, c.BV(uint64(l), 64)), Cap: ncap}
	}
	h := int(hi.Val)
	in.ensureArr(v.Arr, v.Off+h)
	if ncap == 0 {
		ncap = h - l
	}
	return SliceV{Arr: v.Arr, Off: v.Off + l, Len: h - l, Cap: ncap}
}

func onlyLoadsAndStores(x *ssa.IndexAddr) bool {
	refs := x.Referrers()
	if refs == nil {
		return false
	}
	for _, r := range *refs {
		switch r := r.(type) {
		case *ssa.UnOp:
			if r.Op != token.MUL {
				return false
			}
		case *ssa.Store:
			if r.Addr != ssa.Value(x) {
				return false
			}
		case *ssa.DebugRef:
		default:
			return false
		}
	}
	return true
}

func (in *Interp) indexAddr(fr *frame, x *ssa.IndexAddr) Value {
	c := in.ctx
	xv := fr.get(x.X)
	var s SliceV
	switch v := xv.(type) {
	case SliceV:
		s = v
	case *Loc:
		if v == nil {
			in.throwRuntime("invalid memory address or nil pointer dereference")
		}
		n := v.arrayLen()
		s = SliceV{Arr: v, Len: n, Cap: n}
	default:
		panic(unsupported{fmt.Sprintf("IndexAddr on %T", xv)})
	}
	idx := in.asIndex(fr.get(x.Index), x.Index.Type())
	if s.SLen != nil {
		if !in.Branch(c.Ult(idx, s.SLen)) {
			in.throwRuntime("index out of range (symbolic length)")
		}
		if idx.IsConst() {
			return in.sliceElemPtr(s, int(idx.Val))
		}
		s = in.conc(s)
	}
	if !in.Branch(c.Ult(idx, c.BV(uint64(s.Len), 64))) {
		in.throwRuntime(fmt.Sprintf("index out of range [%s] with length %d", in.idxText(idx), s.Len))
	}
	if idx.IsConst() {
		return in.sliceElemPtr(s, int(idx.Val))
	}
	if idx.IteDepth > 0 {
		// the index is itself the result of a symbolic lookup: see whether the
		// path has pinned it to one value before nesting another level
		if k := in.Unique(idx); k.IsConst() {
			return in.sliceElemPtr(s, int(k.Val))
		}
	}
	if s.Arr.Elems != nil && s.Len <= in.eng.MaxIte && onlyLoadsAndStores(x) && isScalarType(s.Arr.ElemT) {
		return SymElemPtr{S: s, Idx: idx}
	}
	i := in.Concretize(idx, s.Len-1, "index")
	return in.sliceElemPtr(s, i)
}

func isScalarType(t types.Type) bool {
	if b, ok := under(t).(*types.Basic); ok {
		return b.Info()&(types.IsInteger|types.IsBoolean) != 0
	}
	return false
}

func (in *Interp) idxText(t *smt.Term) string {
	if t.IsConst() {
		return fmt.Sprint(int64(t.Val))
	}
	return "sym"
}

func (in *Interp) indexOp(fr *frame, x *ssa.Index) Value {
	c := in.ctx
	xv := fr.get(x.X)
	idx := in.asIndex(fr.get(x.Index), x.Index.Type())
	switch v := xv.(type) {
	case ArrayV:
		if !in.Branch(c.Ult(idx, c.BV(uint64(len(v)), 64))) {
			in.throwRuntime("index out of range")
		}
		if idx.IsConst() {
			return v[idx.Val]
		}
		if len(v) > 0 {
			if _, ok := v[0].(*smt.Term); ok && len(v) <= in.eng.MaxIte {
				res := v[len(v)-1].(*smt.Term)
				for i := len(v) - 2; i >= 0; i-- {
					res = c.Ite(c.Eq(idx, c.BV(uint64(i), 64)), v[i].(*smt.Term), res)
				}
				return res
			}
		}
		return v[in.Concretize(idx, len(v)-1, "index")]
	case StrV:
		n := v.Len()
		if !in.Branch(c.Ult(idx, c.BV(uint64(n), 64))) {
			in.throwRuntime("index out of range (string)")
		}
		bs := in.strBytes(v)
		if idx.IsConst() {
			return bs[idx.Val]
		}
		res := bs[n-1]
		for i := n - 2; i >= 0; i-- {
			res = c.Ite(c.Eq(idx, c.BV(uint64(i), 64)), bs[i], res)
		}
		return res
	}
	panic(unsupported{fmt.Sprintf("Index on %T", xv)})
}

// ---------------------------------------------------------------------
// maps

func (in *Interp) mapFind(m *MapV, k Value) int {
	if m == nil {
		return -1
	}
	for i, e := range m.Entries {
		if in.Branch(in.valueEq(e.K, k)) {
			return i
		}
	}
	return -1
}

func (in *Interp) mapSet(m *MapV, k, v Value) {
	if i := in.mapFind(m, k); i >= 0 {
		m.Entries[i].V = v
		return
	}
	m.Entries = append(m.Entries, mapEntry{k, v})
}

func (in *Interp) mapDelete(m *MapV, k Value) {
	if i := in.mapFind(m, k); i >= 0 {
		m.Entries = append(m.Entries[:i:i], m.Entries[i+1:]...)
	}
}

func (in *Interp) lookup(fr *frame, x *ssa.Lookup) Value {
	xv := fr.get(x.X)
	switch v := xv.(type) {
	case *MapV:
		k := fr.get(x.Index)
		i := in.mapFind(v, k)
		var val Value
		if i >= 0 {
			val = v.Entries[i].V
		} else {
			val = in.zero(under(x.X.Type()).(*types.Map).Elem())
		}
		if x.CommaOk {
			return TupleV{val, in.ctx.Bool(i >= 0)}
		}
		return val
	case StrV:
		// string index via Lookup
		idx := in.asIndex(fr.get(x.Index), x.Index.Type())
		n := v.Len()
		if !in.Branch(in.ctx.Ult(idx, in.ctx.BV(uint64(n), 64))) {
			in.throwRuntime("index out of range (string)")
		}
		bs := in.strBytes(v)
		if idx.IsConst() {
			return bs[idx.Val]
		}
		res := bs[n-1]
		for i := n - 2; i >= 0; i-- {
			res = in.ctx.Ite(in.ctx.Eq(idx, in.ctx.BV(uint64(i), 64)), bs[i], res)
		}
		return res
	}
	panic(unsupported{fmt.Sprintf("lookup on %T", xv)})
}

// ---------------------------------------------------------------------
// range

type iter struct {
	kind    int // 0 map, 1 string
	entries []mapEntry
	str     []rune
	offs    []int
	i       int
	kt, vt  types.Type
	symStr  []*smt.Term
}

func (in *Interp) rangeIter(v Value, t types.Type) *iter {
	switch x := v.(type) {
	case *MapV:
		it := &iter{kind: 0}
		mt := under(t).(*types.Map)
		it.kt, it.vt = mt.Key(), mt.Elem()
		if x != nil {
			it.entries = append(it.entries, x.Entries...)
			if in.eng.ReverseMaps {
				for i, j := 0, len(it.entries)-1; i < j; i, j = i+1, j-1 {
					it.entries[i], it.entries[j] = it.entries[j], it.entries[i]
				}
			}
		}
		return it
	case StrV:
		it := &iter{kind: 1}
		s, ok := x.Concrete()
		if !ok {
			// symbolic bytes: only ASCII supported, decided per byte
			bs := x.Sym
			for i, b := range bs {
				if !in.Branch(in.ctx.Ult(b, in.ctx.BV(0x80, 8))) {
					panic(unsupported{"range over symbolic non-ASCII string"})
				}
				it.offs = append(it.offs, i)
			}
			it.kind = 2
			it.entries = nil
			it.str = nil
			it.symStr = bs
			return it
		}
		for i, r := range s {
			it.str = append(it.str, r)
			it.offs = append(it.offs, i)
		}
		return it
	}
	panic(unsupported{fmt.Sprintf("range over %T", v)})
}

func (it *iter) next(in *Interp) Value {
	c := in.ctx
	switch it.kind {
	case 0:
		if it.i >= len(it.entries) {
			return TupleV{c.False, in.zero(it.kt), in.zero(it.vt)}
		}
		e := it.entries[it.i]
		it.i++
		return TupleV{c.True, e.K, e.V}
	case 1:
		if it.i >= len(it.str) {
			return TupleV{c.False, c.BV(0, 64), c.BV(0, 32)}
		}
		r, o := it.str[it.i], it.offs[it.i]
		it.i++
		return TupleV{c.True, c.BV(uint64(o), 64), c.BV(uint64(r), 32)}
	default:
		if it.i >= len(it.symStr) {
			return TupleV{c.False, c.BV(0, 64), c.BV(0, 32)}
		}
		b := it.symStr[it.i]
		o := it.i
		it.i++
		return TupleV{c.True, c.BV(uint64(o), 64), c.ZExt(b, 32)}
	}
}

// ---------------------------------------------------------------------
// type assertions

func (in *Interp) implements(dyn types.Type, it *types.Interface) bool {
	return types.Implements(dyn, it)
}

func (in *Interp) typeAssert(x *ssa.TypeAssert, v Value) Value {
	iv, ok := v.(IfaceV)
	if !ok {
		panic(unsupported{fmt.Sprintf("type assert on %T", v)})
	}
	var res Value
	okk := false
	if it, isI := under(x.AssertedType).(*types.Interface); isI {
		if iv.T != nil && in.implements(iv.T, it) {
			res = iv
			okk = true
		}
	} else if iv.T != nil && types.Identical(iv.T, x.AssertedType) {
		res = iv.V
		okk = true
	}
	if x.CommaOk {
		if !okk {
			res = in.zero(x.AssertedType)
		}
		return TupleV{res, in.ctx.Bool(okk)}
	}
	if !okk {
		dyn := "nil"
		if iv.T != nil {
			dyn = iv.T.String()
		}
		in.throwRuntime(fmt.Sprintf("interface conversion: interface is %s, not %s", dyn, x.AssertedType))
	}
	return res
}

// ---------------------------------------------------------------------
// builtins

func (in *Interp) callBuiltin(b *ssa.Builtin, args []Value, pos token.Pos) Value {
	c := in.ctx
	switch b.Name() {
	case "len":
		switch x := args[0].(type) {
		case SliceV:
			return in.lenTerm(x)
		case StrV:
			return c.BV(uint64(x.Len()), 64)
		case *MapV:
			if x == nil {
				return c.BV(0, 64)
			}
			return c.BV(uint64(len(x.Entries)), 64)
		case ArrayV:
			return c.BV(uint64(len(x)), 64)
		case *Loc:
			return c.BV(uint64(x.arrayLen()), 64)
		case *ChanV:
			if x == nil {
				return c.BV(0, 64)
			}
			return c.BV(uint64(len(x.Buf)), 64)
		}
	case "cap":
		switch x := args[0].(type) {
		case SliceV:
			if x.SLen != nil && x.Cap == 0 {
				return x.SLen
			}
			return c.BV(uint64(x.Cap), 64)
		case ArrayV:
			return c.BV(uint64(len(x)), 64)
		case *Loc:
			return c.BV(uint64(x.arrayLen()), 64)
		case *ChanV:
			return c.BV(uint64(x.Cap), 64)
		}
	case "append":
		s := in.conc(args[0].(SliceV))
		var add []Value
		var elemT types.Type
		switch y := args[1].(type) {
		case SliceV:
			y = in.conc(y)
			for i := 0; i < y.Len; i++ {
				add = append(add, in.sliceGet(y, i))
			}
			if y.Arr != nil {
				elemT = y.Arr.ElemT
			}
		case StrV:
			for _, bt := range in.strBytes(y) {
				add = append(add, bt)
			}
			elemT = types.Typ[types.Uint8]
		default:
			panic(unsupported{fmt.Sprintf("append %T", args[1])})
		}
		if len(add) == 0 {
			return s
		}
		if s.Arr != nil {
			elemT = s.Arr.ElemT
		}
		if elemT == nil {
			elemT = under(b.Type().(*types.Signature).Params().At(0).Type()).(*types.Slice).Elem()
		}
		need := s.Len + len(add)
		if need > in.eng.MaxArray {
			panic(unwindFail{fmt.Sprintf("append grows slice to %d elements (engine limit %d) at %s", need, in.eng.MaxArray, in.site())})
		}
		if s.Arr != nil && need <= s.Cap {
			out := SliceV{Arr: s.Arr, Off: s.Off, Len: need, Cap: s.Cap}
			for i, v := range add {
				in.sliceSet(out, s.Len+i, v)
			}
			return out
		}
		nc := max(2*s.Cap, need)
		if nc < 4 {
			nc = 4
		}
		out := in.makeSlice(elemT, need, nc)
		for i := 0; i < s.Len; i++ {
			in.sliceSet(out, i, in.sliceGet(s, i))
		}
		for i, v := range add {
			in.sliceSet(out, s.Len+i, v)
		}
		return out
	case "copy":
		dst := args[0].(SliceV)
		if y, ok := args[1].(SliceV); ok && y.SLen != nil {
			args[1] = in.conc(y)
		}
		if dst.SLen != nil {
			// copy into a symbolic-length destination from a k-element source:
			// either the destination holds all k, or it is shorter (case-split)
			k := 0
			switch y := args[1].(type) {
			case SliceV:
				k = y.Len
			case StrV:
				k = y.Len()
			}
			if in.Branch(c.Sle(c.BV(uint64(k), 64), dst.SLen)) {
				in.ensureArr(dst.Arr, dst.Off+k)
				dst = SliceV{Arr: dst.Arr, Off: dst.Off, Len: k, Cap: k}
			} else {
				dst = in.conc(dst)
			}
		}
		var src []Value
		switch y := args[1].(type) {
		case SliceV:
			n := min(dst.Len, y.Len)
			for i := 0; i < n; i++ {
				src = append(src, in.sliceGet(y, i))
			}
		case StrV:
			bs := in.strBytes(y)
			n := min(dst.Len, len(bs))
			for i := 0; i < n; i++ {
				src = append(src, bs[i])
			}
		}
		for i, v := range src {
			in.sliceSet(dst, i, v)
		}
		return c.BV(uint64(len(src)), 64)
	case "delete":
		m := args[0].(*MapV)
		if m != nil {
			in.mapDelete(m, args[1])
		}
		return TupleV{}
	case "panic":
		panic(in.mkPanic(args[0], "panic: "+in.panicText(args[0])))
	case "recover":
		// called from a deferred function: the panicking frame is the caller of
		// the function containing the recover call
		fr := in.top
		if fr != nil && fr.caller != nil && fr.caller.panicking {
			fr.caller.panicking = false
			return fr.caller.panicVal.val
		}
		// deferred closures invoked directly by runDefers have caller == panicking frame
		return IfaceV{}
	case "print", "println":
		return TupleV{}
	case "close":
		ch := args[0].(*ChanV)
		if ch == nil {
			in.throwRuntime("close of nil channel")
		}
		if ch.Closed {
			in.throwRuntime("close of closed channel")
		}
		ch.Closed = true
		return TupleV{}
	case "min", "max":
		res := args[0]
		for _, a := range args[1:] {
			x, y := res.(*smt.Term), a.(*smt.Term)
			_, signed := typeWidth(b.Type().(*types.Signature).Params().At(0).Type())
			var lt *smt.Term
			if signed {
				lt = c.Slt(x, y)
			} else {
				lt = c.Ult(x, y)
			}
			if b.Name() == "min" {
				res = c.Ite(lt, x, y)
			} else {
				res = c.Ite(lt, y, x)
			}
		}
		return res
	case "clear":
		switch x := args[0].(type) {
		case *MapV:
			if x != nil {
				x.Entries = nil
			}
		case SliceV:
			x = in.conc(x)
			for i := 0; i < x.Len; i++ {
				in.sliceSet(x, i, in.zero(x.Arr.ElemT))
			}
		}
		return TupleV{}
	case "ssa:wrapnilchk":
		if l, ok := args[0].(*Loc); ok && l == nil {
			in.throwRuntime("value method called using nil pointer")
		}
		return args[0]
	}
	panic(unsupported{"builtin " + b.Name()})
}

// ---------------------------------------------------------------------
// channels, select, go (restricted forms)

func (in *Interp) chanSend(ch *ChanV, v Value) {
	if ch == nil {
		panic(pathEnd{"send on nil channel blocks forever"})
	}
	if ch.Closed {
		in.throwRuntime("send on closed channel")
	}
	if len(ch.Buf) < ch.Cap || ch.Cap == 0 {
		// unbuffered sends are modelled as buffered with one slot: the
		// receiver is not running concurrently
		ch.Buf = append(ch.Buf, v)
		return
	}
	panic(pathEnd{"send blocks (channel full, no concurrent receiver modelled)"})
}

func (in *Interp) chanRecv(ch *ChanV) (Value, bool) {
	if ch == nil {
		panic(pathEnd{"receive on nil channel blocks forever"})
	}
	if len(ch.Buf) > 0 {
		v := ch.Buf[0]
		ch.Buf = ch.Buf[1:]
		return v, true
	}
	if ch.Closed {
		return in.zero(ch.T.Elem()), false
	}
	if ch.Sym {
		return in.symRecv(ch), true
	}
	if in.runGoroutines() {
		return in.chanRecv(ch)
	}
	panic(pathEnd{"receive blocks (no concurrent sender modelled)"})
}

func (in *Interp) symRecv(ch *ChanV) Value {
	if in.timerBudget <= 0 {
		panic(pathEnd{"receive on a timer channel that will not fire again (budget exhausted)"})
	}
	in.timerBudget--
	return in.zero(ch.T.Elem())
}

func (in *Interp) selectOp(fr *frame, x *ssa.Select) Value {
	c := in.ctx
	// collect ready cases
	type cand struct {
		idx int
		ch  *ChanV
	}
	var ready []cand
	for i, st := range x.States {
		ch, _ := fr.get(st.Chan).(*ChanV)
		if ch == nil {
			continue
		}
		if st.Dir == types.RecvOnly {
			if len(ch.Buf) > 0 || ch.Closed || (ch.Sym && in.timerBudget > 0) {
				ready = append(ready, cand{i, ch})
			}
		} else {
			if ch.Closed || len(ch.Buf) < max(ch.Cap, 1) {
				ready = append(ready, cand{i, ch})
			}
		}
	}
	chosen := -1
	if len(ready) == 0 {
		if x.Blocking {
			panic(pathEnd{"select blocks forever"})
		}
	} else {
		// symbolic choice among ready cases (plus default when non-blocking
		// and some case is only symbolically ready)
		n := len(ready)
		k := 0
		if n > 1 {
			v := in.fresh("select", 64)
			in.inputs = append(in.inputs, Input{Tag: "select", Kind: "choice", Term: v, Internal: true})
			in.res.NoNative = true
			in.res.NoNativeHard = true
			in.assume(c.Ult(v, c.BV(uint64(n), 64)))
			k = in.Concretize(v, n-1, "select choice")
		}
		chosen = ready[k].idx
	}
	in.res.Events = append(in.res.Events, fmt.Sprintf("select:%d", chosen))
	r := TupleV{c.BV(uint64(int64(chosen)), 64), c.False}
	for i, st := range x.States {
		if st.Dir != types.RecvOnly {
			if i == chosen {
				in.chanSend(fr.get(st.Chan).(*ChanV), fr.get(st.Send))
			}
			continue
		}
		ch, _ := fr.get(st.Chan).(*ChanV)
		var v Value
		if i == chosen {
			val, ok := in.chanRecv(ch)
			v = val
			r[1] = c.Bool(ok)
		} else {
			v = in.zero(under(st.Chan.Type()).(*types.Chan).Elem())
		}
		r = append(r, v)
	}
	return r
}

func (in *Interp) goStmt(fr *frame, fn Value, args []Value) {
	name := "?"
	if f, ok := fn.(*FuncV); ok && f != nil && f.Fn != nil {
		name = f.Fn.String()
	}
	in.res.Events = append(in.res.Events, "go:"+name)
	if in.eng.RunGoInline {
		in.call(fn, args, token.NoPos)
		return
	}
	// queued: run when the code that started it would otherwise block
	in.goQueue = append(in.goQueue, goTask{fn: fn, args: args})
}

var _ = math.Inf
var _ = utf8.RuneLen
