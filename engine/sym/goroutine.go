package sym

import (
	"go/types"

	"gosmt/smt"

	"golang.org/x/tools/go/ssa"
)

// Goroutines are not interleaved. A `go` statement queues its call; the queue
// is run, each call to completion, at the first point where the code that
// started them would block (a receive on an empty channel, a read from an
// empty pipe whose writer is still open). io.Pipe is an unbounded buffer, so a
// producer never waits for its consumer. This executes producer / consumer
// code (the transforms' pipes, parsers fed through a pipe) under ONE schedule;
// it decides nothing about races or other interleavings, and code whose
// goroutines need each other in lock-step ends the path as "blocks".
//
// A panic that leaves a goroutine's function cannot be recovered by the
// frames of the code that happens to be running when the queue is drained: it
// is turned into goroutineCrash, which only the path runner catches.

type goTask struct {
	fn   Value
	args []Value
}

type goroutineCrash struct{ gp goPanic }

func (in *Interp) runGoroutines() bool {
	if len(in.goQueue) == 0 {
		return false
	}
	for len(in.goQueue) > 0 {
		t := in.goQueue[0]
		in.goQueue = in.goQueue[1:]
		func() {
			defer func() {
				if r := recover(); r != nil {
					if gp, ok := r.(goPanic); ok {
						panic(goroutineCrash{gp})
					}
					panic(r)
				}
			}()
			in.call(t.fn, t.args, 0)
		}()
	}
	return true
}

// ---------------------------------------------------------------------
// io.Pipe

type pipeModel struct {
	buf              []*smt.Term
	wclosed, rclosed bool
	werr, rerr       Value // error given to CloseWithError (IfaceV)
}

func pipeOf(v Value) *pipeModel {
	l, ok := v.(*Loc)
	if !ok || l == nil {
		panic(unsupported{"pipe method on nil"})
	}
	p, ok := l.Native.(*pipeModel)
	if !ok {
		panic(unsupported{"io.PipeReader/PipeWriter not created by io.Pipe"})
	}
	return p
}

func registerPipe(e *Engine) {
	I := e.intrinsics
	I["io.Pipe"] = func(in *Interp, fn *ssa.Function, a []Value) Value {
		p := &pipeModel{}
		r := in.newLoc(in.namedType("io", "PipeReader"))
		w := in.newLoc(in.namedType("io", "PipeWriter"))
		r.Native, w.Native = p, p
		return TupleV{r, w}
	}
	eof := func(in *Interp) Value { return in.globalVar("io", "EOF") }
	closedPipe := func(in *Interp) Value { return in.globalVar("io", "ErrClosedPipe") }
	I["(*io.PipeWriter).Write"] = func(in *Interp, fn *ssa.Function, a []Value) Value {
		p := pipeOf(a[0])
		if p.wclosed {
			return TupleV{in.intTerm(0), closedPipe(in)}
		}
		if p.rclosed {
			err := p.rerr
			if iv, ok := err.(IfaceV); !ok || iv.T == nil {
				err = closedPipe(in)
			}
			return TupleV{in.intTerm(0), err}
		}
		s := a[1].(SliceV)
		if s.SLen != nil {
			s = in.conc(s)
		}
		p.buf = append(p.buf, in.sliceBytes(s)...)
		return TupleV{in.intTerm(s.Len), nilError()}
	}
	closeW := func(in *Interp, a []Value, err Value) Value {
		p := pipeOf(a[0])
		if !p.wclosed {
			p.wclosed = true
			p.werr = err
		}
		return nilError()
	}
	I["(*io.PipeWriter).Close"] = func(in *Interp, fn *ssa.Function, a []Value) Value { return closeW(in, a, IfaceV{}) }
	I["(*io.PipeWriter).CloseWithError"] = func(in *Interp, fn *ssa.Function, a []Value) Value { return closeW(in, a, a[1]) }
	I["(*io.PipeReader).Read"] = func(in *Interp, fn *ssa.Function, a []Value) Value {
		p := pipeOf(a[0])
		dst := a[1].(SliceV)
		if dst.SLen != nil {
			dst = in.conc(dst)
		}
		for {
			if p.rclosed {
				return TupleV{in.intTerm(0), closedPipe(in)}
			}
			if len(p.buf) > 0 {
				if dst.Len == 0 {
					return TupleV{in.intTerm(0), nilError()}
				}
				n := len(p.buf)
				if n > dst.Len {
					n = dst.Len
				}
				for i := 0; i < n; i++ {
					in.sliceSet(dst, i, p.buf[i])
				}
				p.buf = p.buf[n:]
				return TupleV{in.intTerm(n), nilError()}
			}
			if p.wclosed {
				if iv, ok := p.werr.(IfaceV); ok && iv.T != nil {
					return TupleV{in.intTerm(0), p.werr}
				}
				return TupleV{in.intTerm(0), eof(in)}
			}
			if !in.runGoroutines() {
				panic(pathEnd{"pipe read blocks (writer neither wrote nor closed, nothing left to run)"})
			}
		}
	}
	closeR := func(in *Interp, a []Value, err Value) Value {
		p := pipeOf(a[0])
		p.rclosed = true
		p.rerr = err
		return nilError()
	}
	I["(*io.PipeReader).Close"] = func(in *Interp, fn *ssa.Function, a []Value) Value { return closeR(in, a, IfaceV{}) }
	I["(*io.PipeReader).CloseWithError"] = func(in *Interp, fn *ssa.Function, a []Value) Value { return closeR(in, a, a[1]) }
	_ = types.Typ
}
