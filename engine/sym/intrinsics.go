package sym

import (
	"fmt"
	"go/types"
	"strings"

	"gosmt/smt"

	"golang.org/x/tools/go/ssa"
)

func (e *Engine) pkg(path string) *ssa.Package {
	return e.Prog.ImportedPackage(path)
}

func (in *Interp) globalVar(pkg, name string) Value {
	p := in.eng.pkg(pkg)
	if p == nil {
		panic(unsupported{"package not loaded: " + pkg})
	}
	g, ok := p.Members[name].(*ssa.Global)
	if !ok {
		panic(unsupported{"no global " + pkg + "." + name})
	}
	return in.load(in.globalLoc(g))
}

func (in *Interp) namedType(pkg, name string) types.Type {
	p := in.eng.pkg(pkg)
	if p == nil {
		panic(unsupported{"package not loaded: " + pkg})
	}
	o := p.Pkg.Scope().Lookup(name)
	if o == nil {
		panic(unsupported{"no type " + pkg + "." + name})
	}
	return o.Type()
}

func (in *Interp) callNamed(pkg, name string, args ...Value) Value {
	p := in.eng.pkg(pkg)
	if p == nil {
		panic(unsupported{"package not loaded: " + pkg})
	}
	f := p.Func(name)
	if f == nil {
		panic(unsupported{"no func " + pkg + "." + name})
	}
	return in.callFunction(f, args, nil)
}

var errorType = types.Universe.Lookup("error").Type()

// newError builds an error value with an opaque message (errors.New semantics).
func (in *Interp) newError(msg string) Value {
	t := in.namedType("errors", "errorString")
	l := in.newLoc(t)
	l.Kids[0].V = StrV{S: msg}
	return IfaceV{T: types.NewPointer(t), V: l}
}

func nilError() Value { return IfaceV{} }

func (in *Interp) boolTerm(b bool) *smt.Term { return in.ctx.Bool(b) }
func (in *Interp) intTerm(n int) *smt.Term   { return in.ctx.BV(uint64(int64(n)), 64) }

func registerIntrinsics(e *Engine) {
	I := e.intrinsics
	// --- fmt ---------------------------------------------------------
	I["fmt.Errorf"] = func(in *Interp, fn *ssa.Function, a []Value) Value {
		format := in.show(a[0])
		if s, ok := a[0].(StrV); ok {
			if c, ok := s.Concrete(); ok {
				format = c
			}
		}
		args := a[1].(SliceV)
		verbs := fmtVerbs(format)
		texts := in.errorOperands(verbs, args)
		var msgV Value
		if v, ok := in.sprintfBytes(format, texts); ok {
			msgV = v
		} else {
			msgV = StrV{S: in.sprintf(format, texts)}
		}
		// %w operands
		var wrapped []Value
		for i, vb := range verbs {
			if vb == 'w' && i < args.Len {
				if iv, ok := in.sliceGet(args, i).(IfaceV); ok && iv.T != nil {
					wrapped = append(wrapped, iv)
				}
			}
		}
		switch len(wrapped) {
		case 0:
			e := in.newError("").(IfaceV)
			e.V.(*Loc).Kids[0].V = msgV
			return e
		case 1:
			t := in.namedType("fmt", "wrapError")
			l := in.newLoc(t)
			l.Kids[0].V = msgV
			l.Kids[1].V = wrapped[0]
			return IfaceV{T: types.NewPointer(t), V: l}
		default:
			t := in.namedType("fmt", "wrapErrors")
			l := in.newLoc(t)
			l.Kids[0].V = msgV
			s := in.makeSlice(errorType, len(wrapped), len(wrapped))
			for i, w := range wrapped {
				in.sliceSet(s, i, w)
			}
			l.Kids[1].V = s
			return IfaceV{T: types.NewPointer(t), V: l}
		}
	}
	I["fmt.Sprintf"] = func(in *Interp, fn *ssa.Function, a []Value) Value {
		format := in.concreteStr(a[0], "Sprintf format")
		args := in.errorOperands(fmtVerbs(format), a[1].(SliceV))
		if v, ok := in.sprintfBytes(format, args); ok {
			return v
		}
		return StrV{S: in.sprintf(format, args)}
	}
	sprint := func(in *Interp, fn *ssa.Function, a []Value) Value {
		args := a[0].(SliceV)
		var parts []string
		for i := 0; i < args.Len; i++ {
			parts = append(parts, in.fmtValue(in.sliceGet(args, i), 'v'))
		}
		return StrV{S: strings.Join(parts, " ")}
	}
	I["fmt.Sprint"] = sprint
	I["fmt.Sprintln"] = sprint
	noop := func(in *Interp, fn *ssa.Function, a []Value) Value { return in.zeroResults(fn) }
	for _, n := range []string{"fmt.Printf", "fmt.Println", "fmt.Print"} {
		I[n] = noop
	}
	// Fprint*: the text goes to the writer (messages that are hashed, signed or
	// shown are built this way); writes to the process's own files are dropped.
	fprint := func(in *Interp, fn *ssa.Function, w Value, text StrV) Value {
		iv, ok := w.(IfaceV)
		if !ok || iv.T == nil {
			return in.zeroResults(fn)
		}
		if strings.HasSuffix(iv.T.String(), "os.File") {
			return in.zeroResults(fn)
		}
		return in.callMethod(iv, "Write", in.bytesToSlice(in.strBytes(text)))
	}
	I["fmt.Fprintf"] = func(in *Interp, fn *ssa.Function, a []Value) Value {
		format := in.concreteStr(a[1], "Fprintf format")
		args := in.errorOperands(fmtVerbs(format), a[2].(SliceV))
		if v, ok := in.sprintfBytes(format, args); ok {
			return fprint(in, fn, a[0], v)
		}
		return fprint(in, fn, a[0], StrV{S: in.sprintf(format, args)})
	}
	fprintOperands := func(nl bool) func(in *Interp, fn *ssa.Function, a []Value) Value {
		return func(in *Interp, fn *ssa.Function, a []Value) Value {
			args := a[1].(SliceV)
			format := ""
			if !args.Nil {
				args = in.conc(args)
				format = strings.TrimSuffix(strings.Repeat("%v ", args.Len), " ")
			}
			if nl {
				format += "\n"
			}
			args = in.errorOperands(fmtVerbs(format), args)
			if v, ok := in.sprintfBytes(format, args); ok {
				return fprint(in, fn, a[0], v)
			}
			return fprint(in, fn, a[0], StrV{S: in.sprintf(format, args)})
		}
	}
	I["fmt.Fprintln"] = fprintOperands(true)
	I["fmt.Fprint"] = fprintOperands(false)
	// --- errors ------------------------------------------------------
	I["errors.Is"] = func(in *Interp, fn *ssa.Function, a []Value) Value {
		return in.ctx.Bool(in.errorsIs(a[0].(IfaceV), a[1].(IfaceV), 0))
	}
	I["errors.As"] = func(in *Interp, fn *ssa.Function, a []Value) Value {
		return in.ctx.Bool(in.errorsAs(a[0].(IfaceV), a[1].(IfaceV), 0))
	}
	// --- runtime / sync / atomic ------------------------------------
	for _, n := range []string{"runtime.SetFinalizer", "runtime.KeepAlive", "runtime.GC", "runtime.Gosched",
		"internal/race.Acquire", "internal/race.Release", "internal/race.ReleaseMerge", "internal/race.Disable", "internal/race.Enable",
		"internal/race.Read", "internal/race.Write", "internal/race.ReadRange", "internal/race.WriteRange",
		"sync.runtime_registerPoolCleanup", "sync.throw", "sync.fatal", "runtime.Stack", "runtime/debug.PrintStack",
		"sync.(*noCopy).Lock", "sync.(*noCopy).Unlock", "(*sync.noCopy).Lock", "(*sync.noCopy).Unlock",
	} {
		I[n] = noop
	}
	I["(*sync.Pool).Get"] = func(in *Interp, fn *ssa.Function, a []Value) Value {
		l := a[0].(*Loc)
		nf, _ := in.load(in.structField(l, "New")).(*FuncV)
		if nf == nil {
			return IfaceV{}
		}
		return in.call(nf, nil, 0)
	}
	I["(*sync.Pool).Put"] = noop
	atomicLoad := func(in *Interp, fn *ssa.Function, a []Value) Value { return in.load(a[0]) }
	atomicStore := func(in *Interp, fn *ssa.Function, a []Value) Value { in.store(a[0], a[1]); return TupleV{} }
	atomicAdd := func(in *Interp, fn *ssa.Function, a []Value) Value {
		nv := in.ctx.BVAdd(in.load(a[0]).(*smt.Term), a[1].(*smt.Term))
		in.store(a[0], nv)
		return nv
	}
	atomicSwap := func(in *Interp, fn *ssa.Function, a []Value) Value {
		old := in.load(a[0])
		in.store(a[0], a[1])
		return old
	}
	atomicCAS := func(in *Interp, fn *ssa.Function, a []Value) Value {
		old := in.load(a[0])
		if in.Branch(in.valueEq(old, a[1])) {
			in.store(a[0], a[2])
			return in.ctx.True
		}
		return in.ctx.False
	}
	for _, ty := range []string{"Int32", "Int64", "Uint32", "Uint64", "Uintptr", "Pointer"} {
		I["sync/atomic.Load"+ty] = atomicLoad
		I["sync/atomic.Store"+ty] = atomicStore
		I["sync/atomic.Swap"+ty] = atomicSwap
		I["sync/atomic.CompareAndSwap"+ty] = atomicCAS
		if ty != "Pointer" {
			I["sync/atomic.Add"+ty] = atomicAdd
		}
	}
	// --- internal/bytealg ------------------------------------------
	I["internal/bytealg.IndexByte"] = func(in *Interp, fn *ssa.Function, a []Value) Value {
		return in.indexByte(in.sliceBytes(a[0].(SliceV)), a[1].(*smt.Term))
	}
	I["internal/bytealg.IndexByteString"] = func(in *Interp, fn *ssa.Function, a []Value) Value {
		return in.indexByte(in.strBytes(a[0].(StrV)), a[1].(*smt.Term))
	}
	I["internal/bytealg.Equal"] = func(in *Interp, fn *ssa.Function, a []Value) Value {
		return in.strEq(in.mkStr(in.sliceBytes(a[0].(SliceV))), in.mkStr(in.sliceBytes(a[1].(SliceV))))
	}
	I["bytes.Equal"] = I["internal/bytealg.Equal"]
	I["internal/bytealg.Compare"] = func(in *Interp, fn *ssa.Function, a []Value) Value {
		x, y := in.mkStr(in.sliceBytes(a[0].(SliceV))), in.mkStr(in.sliceBytes(a[1].(SliceV)))
		return in.strCompare(x, y)
	}
	I["bytes.Compare"] = I["internal/bytealg.Compare"]
	I["internal/bytealg.CompareString"] = func(in *Interp, fn *ssa.Function, a []Value) Value {
		return in.strCompare(a[0].(StrV), a[1].(StrV))
	}
	I["strings.Compare"] = I["internal/bytealg.CompareString"]
	I["internal/bytealg.Count"] = func(in *Interp, fn *ssa.Function, a []Value) Value {
		return in.countByte(in.sliceBytes(a[0].(SliceV)), a[1].(*smt.Term))
	}
	I["internal/bytealg.CountString"] = func(in *Interp, fn *ssa.Function, a []Value) Value {
		return in.countByte(in.strBytes(a[0].(StrV)), a[1].(*smt.Term))
	}
	I["internal/bytealg.MakeNoZero"] = func(in *Interp, fn *ssa.Function, a []Value) Value {
		n := in.Concretize(a[0].(*smt.Term), in.eng.MaxArray, "MakeNoZero")
		return in.makeSlice(types.Typ[types.Uint8], n, n)
	}
	I["internal/bytealg.Index"] = func(in *Interp, fn *ssa.Function, a []Value) Value {
		return in.indexSeq(in.sliceBytes(a[0].(SliceV)), in.sliceBytes(a[1].(SliceV)))
	}
	I["internal/bytealg.IndexString"] = func(in *Interp, fn *ssa.Function, a []Value) Value {
		return in.indexSeq(in.strBytes(a[0].(StrV)), in.strBytes(a[1].(StrV)))
	}
	I["strings.Index"] = I["internal/bytealg.IndexString"]
	I["bytes.Index"] = I["internal/bytealg.Index"]
	I["strings.(*Builder).String"] = func(in *Interp, fn *ssa.Function, a []Value) Value {
		l := a[0].(*Loc)
		// Builder{addr *Builder; buf []byte}
		buf := in.load(l.Kids[1]).(SliceV)
		return in.mkStr(in.sliceBytes(buf))
	}
	I["(*strings.Builder).String"] = I["strings.(*Builder).String"]
	I["(*strings.Builder).copyCheck"] = noop
	I["internal/abi.NoEscape"] = func(in *Interp, fn *ssa.Function, a []Value) Value { return a[0] }
	I["internal/abi.Escape"] = func(in *Interp, fn *ssa.Function, a []Value) Value { return a[0] }
	// --- encoding/binary -------------------------------------------
	registerBinary(e)
	registerOS(e)
	registerHash(e)
	registerPipe(e)
	registerReflect(e)
	registerMisc(e)
	registerBig(e)
}

// ---------------------------------------------------------------------

func (in *Interp) indexByte(bs []*smt.Term, c *smt.Term) Value {
	res := in.ctx.BV(^uint64(0), 64)
	for i := len(bs) - 1; i >= 0; i-- {
		res = in.ctx.Ite(in.ctx.Eq(bs[i], c), in.ctx.BV(uint64(i), 64), res)
	}
	return res
}

func (in *Interp) countByte(bs []*smt.Term, c *smt.Term) Value {
	res := in.ctx.BV(0, 64)
	for _, b := range bs {
		res = in.ctx.BVAdd(res, in.ctx.Ite(in.ctx.Eq(b, c), in.ctx.BV(1, 64), in.ctx.BV(0, 64)))
	}
	return res
}

func (in *Interp) indexSeq(hay, needle []*smt.Term) Value {
	c := in.ctx
	res := c.BV(^uint64(0), 64)
	for i := len(hay) - len(needle); i >= 0; i-- {
		var cs []*smt.Term
		for j := range needle {
			cs = append(cs, c.Eq(hay[i+j], needle[j]))
		}
		res = c.Ite(c.And(cs...), c.BV(uint64(i), 64), res)
	}
	return res
}

func (in *Interp) strCompare(x, y StrV) Value {
	c := in.ctx
	lt := in.strLess(x, y, false)
	eq := in.strEq(x, y)
	return c.Ite(eq, c.BV(0, 64), c.Ite(lt, c.BV(^uint64(0), 64), c.BV(1, 64)))
}

// ---------------------------------------------------------------------
// formatting (best effort, opaque for symbolic operands)

func fmtVerbs(format string) []byte {
	var verbs []byte
	for i := 0; i < len(format); i++ {
		if format[i] != '%' {
			continue
		}
		i++
		for i < len(format) && strings.IndexByte("+-# 0123456789.*[]", format[i]) >= 0 {
			i++
		}
		if i < len(format) {
			if format[i] != '%' {
				verbs = append(verbs, format[i])
			}
		}
	}
	return verbs
}

func (in *Interp) sprintf(format string, args SliceV) string {
	var sb strings.Builder
	ai := 0
	for i := 0; i < len(format); i++ {
		if format[i] != '%' {
			sb.WriteByte(format[i])
			continue
		}
		i++
		for i < len(format) && strings.IndexByte("+-# 0123456789.*[]", format[i]) >= 0 {
			i++
		}
		if i >= len(format) {
			break
		}
		if format[i] == '%' {
			sb.WriteByte('%')
			continue
		}
		if ai < args.Len {
			sb.WriteString(in.fmtValue(in.sliceGet(args, ai), format[i]))
			ai++
		} else {
			sb.WriteString("%!missing")
		}
	}
	return sb.String()
}

// sprintfBytes formats byte for byte when symbolic text is involved: plain
// %s / %v of strings and byte slices keep their (symbolic) bytes and %x of
// strings, byte slices and byte arrays becomes two hex digits per byte.
// ok=false (no flags understood, other operand kinds) falls back to the
// descriptive formatter, whose output stands for "some text".
func (in *Interp) sprintfBytes(format string, args SliceV) (StrV, bool) {
	c := in.ctx
	var out []*smt.Term
	lit := func(s string) {
		for i := 0; i < len(s); i++ {
			out = append(out, c.BV(uint64(s[i]), 8))
		}
	}
	hexDigit := func(n *smt.Term, upper bool) *smt.Term { // n: 8-bit term holding 0..15
		a := byte('a')
		if upper {
			a = 'A'
		}
		return c.Ite(c.Ult(n, c.BV(10, 8)), c.BVAdd(n, c.BV('0', 8)), c.BVAdd(n, c.BV(uint64(a-10), 8)))
	}
	symbolic, hexed := false, false
	ai := 0
	for i := 0; i < len(format); i++ {
		if format[i] != '%' {
			out = append(out, c.BV(uint64(format[i]), 8))
			continue
		}
		i++
		if i >= len(format) {
			return StrV{}, false
		}
		verb := format[i]
		if verb == '%' {
			lit("%")
			continue
		}
		if ai >= args.Len {
			return StrV{}, false
		}
		v := in.sliceGet(args, ai)
		ai++
		if iv, ok := v.(IfaceV); ok {
			if iv.T == nil {
				return StrV{}, false
			}
			v = iv.V
		}
		var bs []*smt.Term
		switch x := v.(type) {
		case StrV:
			bs = in.strBytes(x)
		case SliceV:
			if x.SLen != nil || x.Nil && verb != 's' && verb != 'x' && verb != 'X' || verb == 'w' {
				return StrV{}, false
			}
			if !x.Nil {
				for k := 0; k < x.Len; k++ {
					t, ok := in.sliceGet(x, k).(*smt.Term)
					if !ok || t.W != 8 {
						return StrV{}, false
					}
					bs = append(bs, t)
				}
			}
		case ArrayV:
			for _, e := range x {
				t, ok := e.(*smt.Term)
				if !ok || t.W != 8 {
					return StrV{}, false
				}
				bs = append(bs, t)
			}
			if verb != 'x' && verb != 'X' {
				return StrV{}, false
			}
		case *smt.Term:
			if !x.IsConst() {
				return StrV{}, false
			}
			lit(in.fmtValue(x, verb))
			continue
		default:
			return StrV{}, false
		}
		for _, b := range bs {
			if !b.IsConst() {
				symbolic = true
			}
		}
		switch verb {
		case 's', 'v', 'w':
			if _, isStr := v.(StrV); !isStr && verb != 's' {
				return StrV{}, false // %v of a byte slice prints numbers
			}
			out = append(out, bs...)
		case 'x', 'X':
			hexed = true
			for _, b := range bs {
				out = append(out, hexDigit(c.BVLshr(b, c.BV(4, 8)), verb == 'X'), hexDigit(c.BVAnd(b, c.BV(15, 8)), verb == 'X'))
			}
		default:
			return StrV{}, false
		}
	}
	if !symbolic && !hexed {
		return StrV{}, false // nothing symbolic, no byte strings: the descriptive formatter is exact
	}
	return in.mkStr(out), true
}

func (in *Interp) fmtValue(v Value, verb byte) string {
	switch x := v.(type) {
	case IfaceV:
		if x.T == nil {
			return "<nil>"
		}
		if verb == 'T' {
			return x.T.String()
		}
		return in.fmtValue(x.V, verb)
	case *smt.Term:
		if x.IsConst() {
			if x.W == 0 {
				return fmt.Sprint(x.Val == 1)
			}
			switch verb {
			case 'x':
				return fmt.Sprintf("%x", x.Val)
			case 'c':
				return string(rune(x.Val))
			}
			return fmt.Sprint(x.Val)
		}
		return "<sym>"
	case StrV:
		if c, ok := x.Concrete(); ok {
			if verb == 'q' {
				return fmt.Sprintf("%q", c)
			}
			return c
		}
		return "<symstr>"
	case FloatV:
		return fmt.Sprint(float64(x))
	case *Loc:
		if x == nil {
			return "<nil>"
		}
		return fmt.Sprintf("<ptr %v>", x.T)
	}
	return fmt.Sprintf("<%T>", v)
}

// ---------------------------------------------------------------------
// errors.Is / errors.As

func (in *Interp) findMethod(t types.Type, name string) *ssa.Function {
	ms := in.eng.Prog.MethodSets.MethodSet(t)
	for i := 0; i < ms.Len(); i++ {
		if ms.At(i).Obj().Name() == name {
			return in.eng.Prog.MethodValue(ms.At(i))
		}
	}
	return nil
}

func (in *Interp) unwrapErr(err IfaceV) []IfaceV {
	m := in.findMethod(err.T, "Unwrap")
	if m == nil {
		return nil
	}
	res := m.Signature.Results()
	if res.Len() != 1 {
		return nil
	}
	r := in.callFunction(m, []Value{err.V}, nil)
	switch x := r.(type) {
	case IfaceV:
		if x.T == nil {
			return nil
		}
		return []IfaceV{x}
	case SliceV:
		var out []IfaceV
		for i := 0; i < x.Len; i++ {
			if e, ok := in.sliceGet(x, i).(IfaceV); ok && e.T != nil {
				out = append(out, e)
			}
		}
		return out
	}
	return nil
}

func (in *Interp) errorsIs(err, target IfaceV, depth int) bool {
	if err.T == nil || target.T == nil {
		return err.T == nil && target.T == nil
	}
	if depth > 20 {
		panic(unwindFail{"errors.Is chain too deep"})
	}
	if types.Identical(err.T, target.T) && types.Comparable(target.T) {
		if in.Branch(in.valueEq(err.V, target.V)) {
			return true
		}
	}
	if m := in.findMethod(err.T, "Is"); m != nil && m.Signature.Params().Len() == 1 && m.Signature.Results().Len() == 1 {
		if t, ok := in.callFunction(m, []Value{err.V, target}, nil).(*smt.Term); ok && in.Branch(t) {
			return true
		}
	}
	for _, u := range in.unwrapErr(err) {
		if in.errorsIs(u, target, depth+1) {
			return true
		}
	}
	return false
}

func (in *Interp) errorsAs(err, target IfaceV, depth int) bool {
	if err.T == nil {
		return false
	}
	if target.T == nil {
		in.throwRuntime("errors: target cannot be nil")
	}
	pt, ok := under(target.T).(*types.Pointer)
	if !ok {
		in.throwRuntime("errors: target must be a non-nil pointer")
	}
	tt := pt.Elem()
	if depth > 20 {
		panic(unwindFail{"errors.As chain too deep"})
	}
	if types.AssignableTo(err.T, tt) {
		if _, isI := under(tt).(*types.Interface); isI {
			in.store(target.V, err)
		} else {
			in.store(target.V, err.V)
		}
		return true
	}
	if m := in.findMethod(err.T, "As"); m != nil && m.Signature.Params().Len() == 1 {
		if t, ok := in.callFunction(m, []Value{err.V, target}, nil).(*smt.Term); ok && in.Branch(t) {
			return true
		}
	}
	for _, u := range in.unwrapErr(err) {
		if in.errorsAs(u, target, depth+1) {
			return true
		}
	}
	return false
}

// opaqueCall: the call has no effect and returns zero values (logging etc.)
func (in *Interp) opaqueCall(fn *ssa.Function, args []Value, policy string) Value {
	return in.zeroResults(fn)
}

// errorOperands returns the operand list with every error value that is
// printed through %w, %v or %s replaced by the text its Error method returns
// (executed symbolically like any other call), so that messages built from
// wrapped errors keep their bytes.
func (in *Interp) errorOperands(verbs []byte, args SliceV) SliceV {
	if args.Nil || args.SLen != nil {
		return args
	}
	var out *SliceV
	for i := 0; i < args.Len && i < len(verbs); i++ {
		if vb := verbs[i]; vb != 'w' && vb != 'v' && vb != 's' {
			continue
		}
		iv, ok := in.sliceGet(args, i).(IfaceV)
		if !ok || iv.T == nil || !types.Implements(iv.T, errorType.Underlying().(*types.Interface)) {
			continue
		}
		if l, isLoc := iv.V.(*Loc); isLoc && l == nil {
			continue
		}
		if _, isPtr := under(iv.T).(*types.Pointer); isPtr {
			if l, isLoc := iv.V.(*Loc); !isLoc || l == nil {
				continue
			}
		}
		txt, ok := in.callMethod(iv, "Error").(StrV)
		if !ok {
			continue
		}
		if out == nil {
			cp := in.makeSlice(args.Arr.ElemT, args.Len, args.Len)
			for k := 0; k < args.Len; k++ {
				in.sliceSet(cp, k, in.sliceGet(args, k))
			}
			out = &cp
		}
		in.sliceSet(*out, i, IfaceV{T: types.Typ[types.String], V: txt})
	}
	if out == nil {
		return args
	}
	return *out
}
