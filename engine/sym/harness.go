package sym

import (
	"fmt"
	"strings"

	"gosmt/smt"

	"golang.org/x/tools/go/ssa"
)

// drawInput creates one symbolic input (a tape entry natively).
func (in *Interp) drawInput(tag, kind string, w int) *smt.Term {
	t := in.fresh(tag, w)
	in.inputs = append(in.inputs, Input{Tag: tag, Kind: kind, Term: t})
	return t
}

func (in *Interp) concreteStr(v Value, what string) string {
	s, ok := v.(StrV)
	if !ok {
		panic(unsupported{what + ": not a string"})
	}
	c, ok := s.Concrete()
	if !ok {
		panic(unsupported{what + ": symbolic string"})
	}
	return c
}

func (in *Interp) concreteInt(v Value, what string) int {
	t, ok := v.(*smt.Term)
	if !ok || !t.IsConst() {
		panic(unsupported{what + ": not a concrete integer"})
	}
	return int(int64(t.Val))
}

var harnessIntrinsics map[string]intrinsicFn

func init() {
	harnessIntrinsics = map[string]intrinsicFn{
		"vhU8": func(in *Interp, fn *ssa.Function, a []Value) Value {
			return in.drawInput(in.concreteStr(a[0], "tag"), "u8", 8)
		},
		"vhU16": func(in *Interp, fn *ssa.Function, a []Value) Value {
			return in.drawInput(in.concreteStr(a[0], "tag"), "u16", 16)
		},
		"vhU32": func(in *Interp, fn *ssa.Function, a []Value) Value {
			return in.drawInput(in.concreteStr(a[0], "tag"), "u32", 32)
		},
		"vhU64": func(in *Interp, fn *ssa.Function, a []Value) Value {
			return in.drawInput(in.concreteStr(a[0], "tag"), "u64", 64)
		},
		"vhBool": func(in *Interp, fn *ssa.Function, a []Value) Value {
			return in.drawInput(in.concreteStr(a[0], "tag"), "bool", 0)
		},
		"vhInt": func(in *Interp, fn *ssa.Function, a []Value) Value {
			c := in.ctx
			v := in.drawInput(in.concreteStr(a[0], "tag"), "int", 64)
			lo, hi := a[1].(*smt.Term), a[2].(*smt.Term)
			in.assume(c.And(c.Sle(lo, v), c.Sle(v, hi)))
			return v
		},
		"vhBytes": func(in *Interp, fn *ssa.Function, a []Value) Value {
			tag := in.concreteStr(a[0], "tag")
			n := in.Concretize(a[1].(*smt.Term), in.maxLen, "vhBytes length")
			in.inputs = append(in.inputs, Input{Tag: tag, Kind: "bytes", N: n})
			bs := make([]*smt.Term, n)
			for i := range bs {
				bs[i] = in.fresh(tag, 8)
				in.inputs = append(in.inputs, Input{Tag: tag, Kind: "u8", Term: bs[i]})
			}
			return in.bytesToSlice(bs)
		},
		"vhConcretize": func(in *Interp, fn *ssa.Function, a []Value) Value {
			v := in.Concretize(a[0].(*smt.Term), in.concreteInt(a[1], "bound"), "vhConcretize")
			return in.ctx.BV(uint64(v), 64)
		},
		"vhAssume": func(in *Interp, fn *ssa.Function, a []Value) Value {
			// no fork: the side on which the assumption is false is of no interest
			c := a[0].(*smt.Term)
			if c.IsFalse() {
				panic(pathEnd{"assumption false"})
			}
			if c.IsTrue() {
				return TupleV{}
			}
			if in.pos < len(in.prefix) || in.sol.CheckAssuming(c) != smt.Unsat {
				in.assume(c)
				return TupleV{}
			}
			panic(pathEnd{"assumption false"})
		},
		"vhAssert": func(in *Interp, fn *ssa.Function, a []Value) Value {
			cnd := a[0].(*smt.Term)
			id := in.concreteStr(a[1], "assert id")
			in.res.Asserts++
			if cnd.IsTrue() {
				in.res.Discharged++
				return TupleV{}
			}
			r, m := in.sol.CheckModel(in.inputTerms(), in.ctx.Not(cnd))
			if r == smt.Unknown {
				r, m = in.portfolio(in.ctx.Not(cnd))
			}
			switch r {
			case smt.Unsat:
				in.res.Discharged++
			case smt.Sat:
				// report from the caller's position
				in.reportAssert(id, "assertion "+id+" can fail", m)
				if cnd.IsFalse() || in.sol.CheckAssuming(cnd) == smt.Unsat {
					panic(pathEnd{"assertion failed on whole path"})
				}
				in.assume(cnd)
			default:
				in.res.UnknownAsserts++
			}
			return TupleV{}
		},
		"vhReach": func(in *Interp, fn *ssa.Function, a []Value) Value {
			in.res.Reached = append(in.res.Reached, in.concreteStr(a[0], "reach id"))
			return TupleV{}
		},
		"vhLoopBound": func(in *Interp, fn *ssa.Function, a []Value) Value {
			in.loopBound = in.concreteInt(a[0], "loop bound")
			in.hangCheck = true
			return TupleV{}
		},
		// vhLoopBoundIn(fn, n): loops inside the function named fn (chain walks)
		// may iterate at most n times; more is a hang finding
		"vhLoopBoundIn": func(in *Interp, fn *ssa.Function, a []Value) Value {
			if in.loopBoundIn == nil {
				in.loopBoundIn = map[string]int{}
			}
			in.loopBoundIn[in.concreteStr(a[0], "function name")] = in.concreteInt(a[1], "loop bound")
			in.hangCheck = true
			return TupleV{}
		},
		"vhUnwind": func(in *Interp, fn *ssa.Function, a []Value) Value {
			in.loopBound = in.concreteInt(a[0], "unwind")
			return TupleV{}
		},
		"vhAllocLimit": func(in *Interp, fn *ssa.Function, a []Value) Value {
			in.allocLimit = int64(in.concreteInt(a[0], "alloc limit"))
			return TupleV{}
		},
		"vhMaxLen": func(in *Interp, fn *ssa.Function, a []Value) Value {
			in.maxLen = in.concreteInt(a[0], "max len")
			return TupleV{}
		},
		"vhEvent": func(in *Interp, fn *ssa.Function, a []Value) Value {
			var sb strings.Builder
			sb.WriteString(in.concreteStr(a[0], "event"))
			if len(a) > 1 {
				if s, ok := a[1].(SliceV); ok {
					for i := 0; i < s.Len; i++ {
						sb.WriteByte(' ')
						sb.WriteString(in.show(in.sliceGet(s, i)))
					}
				}
			}
			in.res.Events = append(in.res.Events, sb.String())
			return TupleV{}
		},
		"vhTier": func(in *Interp, fn *ssa.Function, a []Value) Value { return in.intTerm(in.eng.Tier) },
		// vhStub(name, f): for the rest of this path calls to the function
		// whose SSA name is `name` run the harness closure f instead
		// (nondeterministic stub of an environment function)
		"vhStub": func(in *Interp, fn *ssa.Function, a []Value) Value {
			if in.stubs == nil {
				in.stubs = map[string]Value{}
			}
			iv := a[1].(IfaceV)
			in.stubs[in.concreteStr(a[0], "stub name")] = iv.V
			in.res.NoNative = true
			in.res.NoNativeHard = true
			return TupleV{}
		},
		"vhSymbolic": func(in *Interp, fn *ssa.Function, a []Value) Value { return in.ctx.True },
		"vhLog": func(in *Interp, fn *ssa.Function, a []Value) Value {
			dbg("vhLog: %s", in.show(a[0]))
			return TupleV{}
		},
	}
}

func fmtSite(s string) string { return fmt.Sprintf("%s", s) }

// portfolio re-decides a query the primary solver gave up on: the whole path
// condition plus extra is handed to fresh cvc5, z3 4.8.12 and z3 5.1.0
// processes with a longer limit. Any definite answer is accepted.
func (in *Interp) portfolio(extra *smt.Term) (smt.Result, map[string]uint64) {
	for _, kind := range []string{"cvc5", "z3", "z3-new"} {
		s, err := smt.NewSolver(kind, in.ctx, 6*in.eng.TimeoutMs)
		if err != nil {
			continue
		}
		for _, c := range in.pc {
			s.Assert(c)
		}
		r, m := s.CheckModel(in.inputTerms(), extra)
		s.Close()
		in.res.PortfolioQueries++
		if r != smt.Unknown {
			return r, m
		}
	}
	return smt.Unknown, nil
}
