// Package smt is a small hash-consed term layer over SMT-LIB2 bit-vectors and
// booleans, with constant folding, used by the symbolic executor.
package smt

import (
	"fmt"
	"math/bits"
	"strconv"
	"strings"
)

type Op uint8

const (
	OpConst Op = iota // bv const (W>0) or bool const (W==0)
	OpVar
	OpNot
	OpAnd
	OpOr
	OpIte
	OpEq
	OpBVNot
	OpBVNeg
	OpBVAnd
	OpBVOr
	OpBVXor
	OpBVAdd
	OpBVSub
	OpBVMul
	OpBVUDiv
	OpBVURem
	OpBVSDiv
	OpBVSRem
	OpBVShl
	OpBVLshr
	OpBVAshr
	OpBVUlt
	OpBVUle
	OpBVSlt
	OpBVSle
	OpConcat
	OpExtract // Hi, Lo
	OpZExt    // to W
	OpSExt    // to W
	OpApp     // uninterpreted function application: Name(args...) of width W
)

var opNames = map[Op]string{
	OpNot: "not", OpAnd: "and", OpOr: "or", OpIte: "ite", OpEq: "=",
	OpBVNot: "bvnot", OpBVNeg: "bvneg", OpBVAnd: "bvand", OpBVOr: "bvor", OpBVXor: "bvxor",
	OpBVAdd: "bvadd", OpBVSub: "bvsub", OpBVMul: "bvmul", OpBVUDiv: "bvudiv", OpBVURem: "bvurem",
	OpBVSDiv: "bvsdiv", OpBVSRem: "bvsrem", OpBVShl: "bvshl", OpBVLshr: "bvlshr", OpBVAshr: "bvashr",
	OpBVUlt: "bvult", OpBVUle: "bvule", OpBVSlt: "bvslt", OpBVSle: "bvsle", OpConcat: "concat",
}

// Term is an immutable hash-consed node. W is the bit width (0 = Bool).
type Term struct {
	Op     Op
	W      int
	Args   []*Term
	Val    uint64 // OpConst (W<=64); bool: 0/1
	Name   string // OpVar, OpApp
	Hi, Lo int    // OpExtract
	ID     int
	// IteDepth is the nesting depth of if-then-else nodes below this term.
	IteDepth int
}

func (t *Term) IsConst() bool { return t.Op == OpConst }
func (t *Term) IsBool() bool  { return t.W == 0 }
func (t *Term) IsTrue() bool  { return t.Op == OpConst && t.W == 0 && t.Val == 1 }
func (t *Term) IsFalse() bool { return t.Op == OpConst && t.W == 0 && t.Val == 0 }

// Ctx owns the hash-consing table. Not safe for concurrent use.
type Ctx struct {
	tab   map[string]*Term
	next  int
	True  *Term
	False *Term
	// Decls records declared variables / functions: name -> declaration text.
	Decls     map[string]string
	DeclOrder []string
}

func NewCtx() *Ctx {
	c := &Ctx{tab: map[string]*Term{}, Decls: map[string]string{}}
	c.True = c.mk(&Term{Op: OpConst, W: 0, Val: 1})
	c.False = c.mk(&Term{Op: OpConst, W: 0, Val: 0})
	return c
}

func (c *Ctx) NumTerms() int { return c.next }

func (c *Ctx) mk(t *Term) *Term {
	var sb strings.Builder
	sb.WriteByte(byte(t.Op))
	sb.WriteString(strconv.Itoa(t.W))
	sb.WriteByte(':')
	switch t.Op {
	case OpConst:
		sb.WriteString(strconv.FormatUint(t.Val, 16))
	case OpVar:
		sb.WriteString(t.Name)
	case OpApp:
		sb.WriteString(t.Name)
		sb.WriteByte(':')
	case OpExtract:
		sb.WriteString(strconv.Itoa(t.Hi))
		sb.WriteByte(',')
		sb.WriteString(strconv.Itoa(t.Lo))
		sb.WriteByte(':')
	}
	for _, a := range t.Args {
		sb.WriteString(strconv.Itoa(a.ID))
		sb.WriteByte(',')
	}
	k := sb.String()
	if old, ok := c.tab[k]; ok {
		return old
	}
	t.ID = c.next
	c.next++
	for _, a := range t.Args {
		if a.IteDepth > t.IteDepth {
			t.IteDepth = a.IteDepth
		}
	}
	if t.Op == OpIte {
		t.IteDepth++
	}
	c.tab[k] = t
	return t
}

func mask(w int) uint64 {
	if w >= 64 {
		return ^uint64(0)
	}
	return (uint64(1) << uint(w)) - 1
}

func sext(v uint64, w int) int64 {
	if w >= 64 {
		return int64(v)
	}
	s := uint(64 - w)
	return int64(v<<s) >> s
}

// Bool returns the boolean constant.
func (c *Ctx) Bool(b bool) *Term {
	if b {
		return c.True
	}
	return c.False
}

// BV returns a bit-vector constant of width w (w in 1..64).
func (c *Ctx) BV(v uint64, w int) *Term {
	if w <= 0 || w > 64 {
		panic(fmt.Sprintf("smt: bad width %d", w))
	}
	return c.mk(&Term{Op: OpConst, W: w, Val: v & mask(w)})
}

// Var declares (once) and returns a variable. w==0 for Bool.
func (c *Ctx) Var(name string, w int) *Term {
	decl := fmt.Sprintf("(declare-const %s (_ BitVec %d))", name, w)
	if w == 0 {
		decl = fmt.Sprintf("(declare-const %s Bool)", name)
	}
	if old, ok := c.Decls[name]; !ok {
		c.Decls[name] = decl
		c.DeclOrder = append(c.DeclOrder, name)
	} else if old != decl {
		panic("smt: variable " + name + " declared with two sorts")
	}
	return c.mk(&Term{Op: OpVar, W: w, Name: name})
}

// App applies an uninterpreted function (declared once from the argument widths).
func (c *Ctx) App(name string, w int, args ...*Term) *Term {
	if _, ok := c.Decls[name]; !ok {
		var sb strings.Builder
		fmt.Fprintf(&sb, "(declare-fun %s (", name)
		for i, a := range args {
			if i > 0 {
				sb.WriteByte(' ')
			}
			sb.WriteString(sortStr(a.W))
		}
		fmt.Fprintf(&sb, ") %s)", sortStr(w))
		c.Decls[name] = sb.String()
		c.DeclOrder = append(c.DeclOrder, name)
	}
	return c.mk(&Term{Op: OpApp, W: w, Name: name, Args: args})
}

func sortStr(w int) string {
	if w == 0 {
		return "Bool"
	}
	return fmt.Sprintf("(_ BitVec %d)", w)
}

func (c *Ctx) Not(a *Term) *Term {
	if a.W != 0 {
		panic("smt: Not on non-bool")
	}
	if a.IsConst() {
		return c.Bool(a.Val == 0)
	}
	if a.Op == OpNot {
		return a.Args[0]
	}
	return c.mk(&Term{Op: OpNot, Args: []*Term{a}})
}

func (c *Ctx) And(as ...*Term) *Term {
	var out []*Term
	for _, a := range as {
		if a.W != 0 {
			panic("smt: And on non-bool")
		}
		if a.IsFalse() {
			return c.False
		}
		if a.IsTrue() {
			continue
		}
		if a.Op == OpAnd {
			out = append(out, a.Args...)
			continue
		}
		out = append(out, a)
	}
	out = dedup(out)
	switch len(out) {
	case 0:
		return c.True
	case 1:
		return out[0]
	}
	for i := range out {
		for j := range out {
			if out[i].Op == OpNot && out[i].Args[0] == out[j] {
				return c.False
			}
		}
	}
	return c.mk(&Term{Op: OpAnd, Args: out})
}

func dedup(ts []*Term) []*Term {
	if len(ts) < 2 {
		return ts
	}
	seen := map[int]bool{}
	out := ts[:0:0]
	for _, t := range ts {
		if !seen[t.ID] {
			seen[t.ID] = true
			out = append(out, t)
		}
	}
	return out
}

func (c *Ctx) Or(as ...*Term) *Term {
	var out []*Term
	for _, a := range as {
		if a.W != 0 {
			panic("smt: Or on non-bool")
		}
		if a.IsTrue() {
			return c.True
		}
		if a.IsFalse() {
			continue
		}
		if a.Op == OpOr {
			out = append(out, a.Args...)
			continue
		}
		out = append(out, a)
	}
	out = dedup(out)
	switch len(out) {
	case 0:
		return c.False
	case 1:
		return out[0]
	}
	for i := range out {
		for j := range out {
			if out[i].Op == OpNot && out[i].Args[0] == out[j] {
				return c.True
			}
		}
	}
	return c.mk(&Term{Op: OpOr, Args: out})
}

func (c *Ctx) Implies(a, b *Term) *Term { return c.Or(c.Not(a), b) }

func (c *Ctx) Ite(cond, a, b *Term) *Term {
	if cond.W != 0 || a.W != b.W {
		panic(fmt.Sprintf("smt: Ite sorts %d %d %d", cond.W, a.W, b.W))
	}
	if cond.IsTrue() {
		return a
	}
	if cond.IsFalse() {
		return b
	}
	if a == b {
		return a
	}
	if a.W == 0 {
		if a.IsTrue() && b.IsFalse() {
			return cond
		}
		if a.IsFalse() && b.IsTrue() {
			return c.Not(cond)
		}
		if a.IsTrue() {
			return c.Or(cond, b)
		}
		if a.IsFalse() {
			return c.And(c.Not(cond), b)
		}
		if b.IsTrue() {
			return c.Or(c.Not(cond), a)
		}
		if b.IsFalse() {
			return c.And(cond, a)
		}
	}
	return c.mk(&Term{Op: OpIte, W: a.W, Args: []*Term{cond, a, b}})
}

func (c *Ctx) Eq(a, b *Term) *Term {
	if a.W != b.W {
		panic(fmt.Sprintf("smt: Eq widths %d vs %d", a.W, b.W))
	}
	if a == b {
		return c.True
	}
	if a.IsConst() && b.IsConst() {
		return c.Bool(a.Val == b.Val)
	}
	if a.W == 0 {
		if a.IsConst() {
			a, b = b, a
		}
		if b.IsTrue() {
			return a
		}
		if b.IsFalse() {
			return c.Not(a)
		}
	}
	// eq(ite(c, k1, k2), k) with constants
	if b.IsConst() && a.Op == OpIte {
		return c.Ite(a.Args[0], c.Eq(a.Args[1], b), c.Eq(a.Args[2], b))
	}
	if a.IsConst() && b.Op == OpIte {
		return c.Ite(b.Args[0], c.Eq(b.Args[1], a), c.Eq(b.Args[2], a))
	}
	// eq(zext(x), const)
	if b.IsConst() && a.Op == OpZExt {
		x := a.Args[0]
		if b.Val > mask(x.W) {
			return c.False
		}
		return c.Eq(x, c.BV(b.Val, x.W))
	}
	if a.IsConst() && b.Op == OpZExt {
		return c.Eq(b, a)
	}
	if a.ID > b.ID {
		a, b = b, a
	}
	return c.mk(&Term{Op: OpEq, Args: []*Term{a, b}})
}

func (c *Ctx) BVNot(a *Term) *Term {
	if a.IsConst() {
		return c.BV(^a.Val, a.W)
	}
	if a.Op == OpBVNot {
		return a.Args[0]
	}
	return c.mk(&Term{Op: OpBVNot, W: a.W, Args: []*Term{a}})
}

func (c *Ctx) BVNeg(a *Term) *Term {
	if a.IsConst() {
		return c.BV(-a.Val, a.W)
	}
	return c.mk(&Term{Op: OpBVNeg, W: a.W, Args: []*Term{a}})
}

func (c *Ctx) bin(op Op, a, b *Term) *Term {
	if a.W != b.W || a.W == 0 {
		panic(fmt.Sprintf("smt: %s widths %d vs %d", opNames[op], a.W, b.W))
	}
	w := a.W
	if a.IsConst() && b.IsConst() {
		x, y := a.Val, b.Val
		switch op {
		case OpBVAnd:
			return c.BV(x&y, w)
		case OpBVOr:
			return c.BV(x|y, w)
		case OpBVXor:
			return c.BV(x^y, w)
		case OpBVAdd:
			return c.BV(x+y, w)
		case OpBVSub:
			return c.BV(x-y, w)
		case OpBVMul:
			return c.BV(x*y, w)
		case OpBVUDiv:
			if y == 0 {
				return c.BV(mask(w), w)
			}
			return c.BV(x/y, w)
		case OpBVURem:
			if y == 0 {
				return c.BV(x, w)
			}
			return c.BV(x%y, w)
		case OpBVSDiv:
			if y == 0 {
				if sext(x, w) < 0 {
					return c.BV(1, w)
				}
				return c.BV(mask(w), w)
			}
			sx, sy := sext(x, w), sext(y, w)
			if sy == -1 {
				return c.BV(uint64(-sx), w)
			}
			return c.BV(uint64(sx/sy), w)
		case OpBVSRem:
			if y == 0 {
				return c.BV(x, w)
			}
			sx, sy := sext(x, w), sext(y, w)
			if sy == -1 {
				return c.BV(0, w)
			}
			return c.BV(uint64(sx%sy), w)
		case OpBVShl:
			if y >= uint64(w) {
				return c.BV(0, w)
			}
			return c.BV(x<<y, w)
		case OpBVLshr:
			if y >= uint64(w) {
				return c.BV(0, w)
			}
			return c.BV(x>>y, w)
		case OpBVAshr:
			sx := sext(x, w)
			if y >= uint64(w) {
				y = uint64(w - 1)
			}
			return c.BV(uint64(sx>>y), w)
		}
	}
	// identities
	switch op {
	case OpBVAdd, OpBVOr, OpBVXor:
		if a.IsConst() && a.Val == 0 {
			return b
		}
		if b.IsConst() && b.Val == 0 {
			return a
		}
		if op == OpBVOr && a == b {
			return a
		}
		if op == OpBVXor && a == b {
			return c.BV(0, w)
		}
		if op == OpBVOr {
			if a.IsConst() && a.Val == mask(w) {
				return a
			}
			if b.IsConst() && b.Val == mask(w) {
				return b
			}
		}
		// (x + k1) + k2
		if op == OpBVAdd && b.IsConst() && a.Op == OpBVAdd && a.Args[1].IsConst() {
			return c.bin(OpBVAdd, a.Args[0], c.BV(a.Args[1].Val+b.Val, w))
		}
	case OpBVSub:
		if b.IsConst() && b.Val == 0 {
			return a
		}
		if a == b {
			return c.BV(0, w)
		}
		if b.IsConst() {
			return c.bin(OpBVAdd, a, c.BV(-b.Val, w))
		}
	case OpBVAnd:
		if a.IsConst() && a.Val == 0 {
			return a
		}
		if b.IsConst() && b.Val == 0 {
			return b
		}
		if a.IsConst() && a.Val == mask(w) {
			return b
		}
		if b.IsConst() && b.Val == mask(w) {
			return a
		}
		if a == b {
			return a
		}
		// zext(x) & mask(x.W) == zext(x)
		if b.IsConst() && a.Op == OpZExt && b.Val&mask(a.Args[0].W) == mask(a.Args[0].W) {
			return a
		}
	case OpBVMul:
		if a.IsConst() {
			a, b = b, a
		}
		if b.IsConst() {
			if b.Val == 0 {
				return b
			}
			if b.Val == 1 {
				return a
			}
			if bits.OnesCount64(b.Val) == 1 {
				return c.bin(OpBVShl, a, c.BV(uint64(bits.TrailingZeros64(b.Val)), w))
			}
		}
	case OpBVShl, OpBVLshr, OpBVAshr:
		if b.IsConst() && b.Val == 0 {
			return a
		}
		if a.IsConst() && a.Val == 0 {
			return a
		}
		if b.IsConst() && b.Val >= uint64(w) && op != OpBVAshr {
			return c.BV(0, w)
		}
		// (zext(x8) << k) etc. left to the solver
	case OpBVUDiv:
		if b.IsConst() && b.Val == 1 {
			return a
		}
		if b.IsConst() && bits.OnesCount64(b.Val) == 1 {
			return c.bin(OpBVLshr, a, c.BV(uint64(bits.TrailingZeros64(b.Val)), w))
		}
	case OpBVURem:
		if b.IsConst() && b.Val == 1 {
			return c.BV(0, w)
		}
		if b.IsConst() && bits.OnesCount64(b.Val) == 1 {
			return c.bin(OpBVAnd, a, c.BV(b.Val-1, w))
		}
	}
	return c.mk(&Term{Op: op, W: w, Args: []*Term{a, b}})
}

func (c *Ctx) BVAnd(a, b *Term) *Term  { return c.bin(OpBVAnd, a, b) }
func (c *Ctx) BVOr(a, b *Term) *Term   { return c.bin(OpBVOr, a, b) }
func (c *Ctx) BVXor(a, b *Term) *Term  { return c.bin(OpBVXor, a, b) }
func (c *Ctx) BVAdd(a, b *Term) *Term  { return c.bin(OpBVAdd, a, b) }
func (c *Ctx) BVSub(a, b *Term) *Term  { return c.bin(OpBVSub, a, b) }
func (c *Ctx) BVMul(a, b *Term) *Term  { return c.bin(OpBVMul, a, b) }
func (c *Ctx) BVUDiv(a, b *Term) *Term { return c.bin(OpBVUDiv, a, b) }
func (c *Ctx) BVURem(a, b *Term) *Term { return c.bin(OpBVURem, a, b) }
func (c *Ctx) BVSDiv(a, b *Term) *Term { return c.bin(OpBVSDiv, a, b) }
func (c *Ctx) BVSRem(a, b *Term) *Term { return c.bin(OpBVSRem, a, b) }
func (c *Ctx) BVShl(a, b *Term) *Term  { return c.bin(OpBVShl, a, b) }
func (c *Ctx) BVLshr(a, b *Term) *Term { return c.bin(OpBVLshr, a, b) }
func (c *Ctx) BVAshr(a, b *Term) *Term { return c.bin(OpBVAshr, a, b) }

func (c *Ctx) cmp(op Op, a, b *Term) *Term {
	if a.W != b.W || a.W == 0 {
		panic(fmt.Sprintf("smt: %s widths %d vs %d", opNames[op], a.W, b.W))
	}
	w := a.W
	if a.IsConst() && b.IsConst() {
		switch op {
		case OpBVUlt:
			return c.Bool(a.Val < b.Val)
		case OpBVUle:
			return c.Bool(a.Val <= b.Val)
		case OpBVSlt:
			return c.Bool(sext(a.Val, w) < sext(b.Val, w))
		case OpBVSle:
			return c.Bool(sext(a.Val, w) <= sext(b.Val, w))
		}
	}
	if a == b {
		return c.Bool(op == OpBVUle || op == OpBVSle)
	}
	switch op {
	case OpBVUlt:
		if b.IsConst() && b.Val == 0 {
			return c.False
		}
		// zext(x) <u const beyond range
		if b.IsConst() && a.Op == OpZExt && b.Val > mask(a.Args[0].W) {
			return c.True
		}
	case OpBVUle:
		if a.IsConst() && a.Val == 0 {
			return c.True
		}
		if b.IsConst() && b.Val == mask(w) {
			return c.True
		}
		if b.IsConst() && a.Op == OpZExt && b.Val >= mask(a.Args[0].W) {
			return c.True
		}
	case OpBVSlt:
		// zext(x) <s 0 is false
		if b.IsConst() && b.Val == 0 && a.Op == OpZExt && a.Args[0].W < w {
			return c.False
		}
	case OpBVSle:
		if a.IsConst() && a.Val == 0 && b.Op == OpZExt && b.Args[0].W < w {
			return c.True
		}
	}
	return c.mk(&Term{Op: op, Args: []*Term{a, b}})
}

func (c *Ctx) Ult(a, b *Term) *Term { return c.cmp(OpBVUlt, a, b) }
func (c *Ctx) Ule(a, b *Term) *Term { return c.cmp(OpBVUle, a, b) }
func (c *Ctx) Slt(a, b *Term) *Term { return c.cmp(OpBVSlt, a, b) }
func (c *Ctx) Sle(a, b *Term) *Term { return c.cmp(OpBVSle, a, b) }

func (c *Ctx) Extract(a *Term, hi, lo int) *Term {
	if hi < lo || hi >= a.W || lo < 0 {
		panic(fmt.Sprintf("smt: extract [%d:%d] of width %d", hi, lo, a.W))
	}
	w := hi - lo + 1
	if w == a.W {
		return a
	}
	if a.IsConst() {
		return c.BV(a.Val>>uint(lo), w)
	}
	switch a.Op {
	case OpZExt, OpSExt:
		x := a.Args[0]
		if hi < x.W {
			return c.Extract(x, hi, lo)
		}
		if a.Op == OpZExt && lo >= x.W {
			return c.BV(0, w)
		}
	case OpExtract:
		return c.Extract(a.Args[0], hi+a.Lo, lo+a.Lo)
	case OpConcat:
		// concat(hiPart, loPart)
		lp := a.Args[1]
		if hi < lp.W {
			return c.Extract(lp, hi, lo)
		}
		if lo >= lp.W {
			return c.Extract(a.Args[0], hi-lp.W, lo-lp.W)
		}
	case OpBVAnd, OpBVOr, OpBVXor:
		return c.bin(a.Op, c.Extract(a.Args[0], hi, lo), c.Extract(a.Args[1], hi, lo))
	case OpBVShl:
		// (x << k)[hi:lo] with constant k
		if k := a.Args[1]; k.IsConst() {
			s := int(k.Val)
			if lo >= s {
				return c.Extract(a.Args[0], hi-s, lo-s)
			}
			if hi < s {
				return c.BV(0, w)
			}
		}
	case OpBVLshr:
		if k := a.Args[1]; k.IsConst() {
			s := int(k.Val)
			if hi+s < a.W {
				return c.Extract(a.Args[0], hi+s, lo+s)
			}
		}
	case OpBVAdd, OpBVSub, OpBVMul:
		if lo == 0 {
			return c.bin(a.Op, c.Extract(a.Args[0], hi, 0), c.Extract(a.Args[1], hi, 0))
		}
	case OpIte:
		if a.Args[1].IsConst() || a.Args[2].IsConst() {
			return c.Ite(a.Args[0], c.Extract(a.Args[1], hi, lo), c.Extract(a.Args[2], hi, lo))
		}
	}
	return c.mk(&Term{Op: OpExtract, W: w, Args: []*Term{a}, Hi: hi, Lo: lo})
}

func (c *Ctx) Concat(hi, lo *Term) *Term {
	if hi.W+lo.W > 64 {
		panic("smt: concat wider than 64")
	}
	if hi.IsConst() && lo.IsConst() {
		return c.BV(hi.Val<<uint(lo.W)|lo.Val, hi.W+lo.W)
	}
	if hi.IsConst() && hi.Val == 0 {
		return c.ZExt(lo, hi.W+lo.W)
	}
	return c.mk(&Term{Op: OpConcat, W: hi.W + lo.W, Args: []*Term{hi, lo}})
}

func (c *Ctx) ZExt(a *Term, w int) *Term {
	if w < a.W {
		panic("smt: zext narrows")
	}
	if w == a.W {
		return a
	}
	if a.IsConst() {
		return c.BV(a.Val, w)
	}
	if a.Op == OpZExt {
		return c.ZExt(a.Args[0], w)
	}
	return c.mk(&Term{Op: OpZExt, W: w, Args: []*Term{a}})
}

func (c *Ctx) SExt(a *Term, w int) *Term {
	if w < a.W {
		panic("smt: sext narrows")
	}
	if w == a.W {
		return a
	}
	if a.IsConst() {
		return c.BV(uint64(sext(a.Val, a.W)), w)
	}
	if a.Op == OpZExt {
		return c.ZExt(a.Args[0], w)
	}
	return c.mk(&Term{Op: OpSExt, W: w, Args: []*Term{a}})
}

// Resize converts a to width w with the given signedness of the source.
func (c *Ctx) Resize(a *Term, w int, signed bool) *Term {
	switch {
	case w == a.W:
		return a
	case w < a.W:
		return c.Extract(a, w-1, 0)
	case signed:
		return c.SExt(a, w)
	default:
		return c.ZExt(a, w)
	}
}

// Printing ---------------------------------------------------------------

func constStr(t *Term) string {
	if t.W == 0 {
		if t.Val == 1 {
			return "true"
		}
		return "false"
	}
	if t.W%4 == 0 {
		return fmt.Sprintf("#x%0*x", t.W/4, t.Val)
	}
	return fmt.Sprintf("#b%0*b", t.W, t.Val)
}

// Printer emits terms as SMT-LIB with shared sub-terms bound once through
// (define-fun) commands, so that DAGs do not blow up.
type Printer struct {
	names map[int]string
	uses  map[int]int
	Out   *strings.Builder
}

func NewPrinter() *Printer {
	return &Printer{names: map[int]string{}, Out: &strings.Builder{}}
}

// Reset forgets all definitions (after a solver pop/reset).
func (p *Printer) Reset() {
	p.names = map[int]string{}
}

// Ref returns an expression string for t, first appending to p.Out whatever
// define-fun commands are needed.
func (p *Printer) Ref(t *Term) string {
	if n, ok := p.names[t.ID]; ok {
		return n
	}
	switch t.Op {
	case OpConst:
		return constStr(t)
	case OpVar:
		return t.Name
	}
	args := make([]string, len(t.Args))
	for i, a := range t.Args {
		args[i] = p.Ref(a)
	}
	var s string
	switch t.Op {
	case OpExtract:
		s = fmt.Sprintf("((_ extract %d %d) %s)", t.Hi, t.Lo, args[0])
	case OpZExt:
		s = fmt.Sprintf("((_ zero_extend %d) %s)", t.W-t.Args[0].W, args[0])
	case OpSExt:
		s = fmt.Sprintf("((_ sign_extend %d) %s)", t.W-t.Args[0].W, args[0])
	case OpApp:
		if len(args) == 0 {
			s = t.Name
		} else {
			s = "(" + t.Name + " " + strings.Join(args, " ") + ")"
		}
	default:
		s = "(" + opNames[t.Op] + " " + strings.Join(args, " ") + ")"
	}
	// name every compound node: keeps output linear in DAG size
	n := "t" + strconv.Itoa(t.ID)
	fmt.Fprintf(p.Out, "(define-fun %s () %s %s)\n", n, sortStr(t.W), s)
	p.names[t.ID] = n
	return n
}

// String renders a term fully inlined (for debugging / evidence samples; may be large).
func (t *Term) String() string {
	var sb strings.Builder
	t.str(&sb, 0)
	return sb.String()
}

func (t *Term) str(sb *strings.Builder, depth int) {
	if depth > 12 {
		sb.WriteString("…")
		return
	}
	switch t.Op {
	case OpConst:
		sb.WriteString(constStr(t))
		return
	case OpVar:
		sb.WriteString(t.Name)
		return
	case OpExtract:
		fmt.Fprintf(sb, "((_ extract %d %d) ", t.Hi, t.Lo)
	case OpZExt:
		fmt.Fprintf(sb, "((_ zero_extend %d) ", t.W-t.Args[0].W)
	case OpSExt:
		fmt.Fprintf(sb, "((_ sign_extend %d) ", t.W-t.Args[0].W)
	case OpApp:
		sb.WriteString("(" + t.Name + " ")
	default:
		sb.WriteString("(" + opNames[t.Op] + " ")
	}
	for i, a := range t.Args {
		if i > 0 {
			sb.WriteByte(' ')
		}
		a.str(sb, depth+1)
	}
	sb.WriteByte(')')
}

// Vars collects the free variables of t.
func Vars(t *Term, into map[string]*Term) {
	seen := map[int]bool{}
	var walk func(*Term)
	walk = func(x *Term) {
		if seen[x.ID] {
			return
		}
		seen[x.ID] = true
		if x.Op == OpVar {
			into[x.Name] = x
		}
		for _, a := range x.Args {
			walk(a)
		}
	}
	walk(t)
}

// Eval evaluates t under a total assignment of variables (missing = 0).
// Uninterpreted applications are not supported (returns ok=false).
func Eval(t *Term, env map[string]uint64) (uint64, bool) {
	memo := map[int]uint64{}
	okAll := true
	var ev func(*Term) uint64
	ev = func(x *Term) uint64 {
		if v, ok := memo[x.ID]; ok {
			return v
		}
		var r uint64
		a := func(i int) uint64 { return ev(x.Args[i]) }
		b2u := func(b bool) uint64 {
			if b {
				return 1
			}
			return 0
		}
		switch x.Op {
		case OpConst:
			r = x.Val
		case OpVar:
			r = env[x.Name] & mask(max(x.W, 1))
		case OpNot:
			r = 1 - a(0)
		case OpAnd:
			r = 1
			for i := range x.Args {
				if a(i) == 0 {
					r = 0
				}
			}
		case OpOr:
			r = 0
			for i := range x.Args {
				if a(i) == 1 {
					r = 1
				}
			}
		case OpIte:
			if a(0) == 1 {
				r = a(1)
			} else {
				r = a(2)
			}
		case OpEq:
			r = b2u(a(0) == a(1))
		case OpApp:
			okAll = false
		case OpExtract:
			r = (a(0) >> uint(x.Lo)) & mask(x.W)
		case OpZExt:
			r = a(0)
		case OpSExt:
			r = uint64(sext(a(0), x.Args[0].W)) & mask(x.W)
		case OpConcat:
			r = a(0)<<uint(x.Args[1].W) | a(1)
		case OpBVNot:
			r = ^a(0) & mask(x.W)
		case OpBVNeg:
			r = -a(0) & mask(x.W)
		case OpBVUlt:
			r = b2u(a(0) < a(1))
		case OpBVUle:
			r = b2u(a(0) <= a(1))
		case OpBVSlt:
			r = b2u(sext(a(0), x.Args[0].W) < sext(a(1), x.Args[0].W))
		case OpBVSle:
			r = b2u(sext(a(0), x.Args[0].W) <= sext(a(1), x.Args[0].W))
		default:
			// binary bv op: reuse folding through a scratch ctx-free computation
			w := x.W
			p, q := a(0), a(1)
			switch x.Op {
			case OpBVAnd:
				r = p & q
			case OpBVOr:
				r = p | q
			case OpBVXor:
				r = p ^ q
			case OpBVAdd:
				r = p + q
			case OpBVSub:
				r = p - q
			case OpBVMul:
				r = p * q
			case OpBVUDiv:
				if q == 0 {
					r = mask(w)
				} else {
					r = p / q
				}
			case OpBVURem:
				if q == 0 {
					r = p
				} else {
					r = p % q
				}
			case OpBVSDiv:
				sp, sq := sext(p, w), sext(q, w)
				if sq == 0 {
					if sp < 0 {
						r = 1
					} else {
						r = mask(w)
					}
				} else if sq == -1 {
					r = uint64(-sp)
				} else {
					r = uint64(sp / sq)
				}
			case OpBVSRem:
				sp, sq := sext(p, w), sext(q, w)
				if sq == 0 {
					r = p
				} else if sq == -1 {
					r = 0
				} else {
					r = uint64(sp % sq)
				}
			case OpBVShl:
				if q >= uint64(w) {
					r = 0
				} else {
					r = p << q
				}
			case OpBVLshr:
				if q >= uint64(w) {
					r = 0
				} else {
					r = p >> q
				}
			case OpBVAshr:
				if q >= uint64(w) {
					q = uint64(w - 1)
				}
				r = uint64(sext(p, w) >> q)
			default:
				okAll = false
			}
			r &= mask(w)
		}
		memo[x.ID] = r
		return r
	}
	v := ev(t)
	return v, okAll
}
