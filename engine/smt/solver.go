package smt

import (
	"bufio"
	"fmt"
	"io"
	"os/exec"
	"strconv"
	"strings"
	"time"
)

type Result int

const (
	Unsat Result = iota
	Sat
	Unknown
)

func (r Result) String() string {
	switch r {
	case Unsat:
		return "unsat"
	case Sat:
		return "sat"
	}
	return "unknown"
}

// Solver drives one incremental SMT solver process over stdin/stdout.
type Solver struct {
	Kind     string // "z3", "z3-new", "cvc5"
	cmd      *exec.Cmd
	in       io.WriteCloser
	out      *bufio.Reader
	ctx      *Ctx
	pr       *Printer
	declared map[string]bool
	level    int
	// per-level bookkeeping so pop() can forget definitions/declarations
	defStack  [][]int
	declStack [][]string

	Queries   int
	Unknowns  int
	Errors    int
	SolverDur time.Duration
	SendDur   time.Duration // time blocked writing to the solver
	ValueDur  time.Duration // time waiting for get-value answers
	TimeoutMs int
	Log       io.Writer // optional transcript
	LastErr   string
}

func NewSolver(kind string, ctx *Ctx, timeoutMs int) (*Solver, error) {
	var cmd *exec.Cmd
	switch kind {
	case "z3", "z3-new":
		cmd = exec.Command(kind, "-in", "-smt2")
	case "cvc5":
		cmd = exec.Command("cvc5", "--incremental", "--lang=smt2", "--produce-models", fmt.Sprintf("--tlimit-per=%d", timeoutMs))
	case "cvc5-int":
		cmd = exec.Command("cvc5", "--incremental", "--lang=smt2", "--produce-models", "--solve-bv-as-int=sum", fmt.Sprintf("--tlimit-per=%d", timeoutMs))
	default:
		return nil, fmt.Errorf("unknown solver %q", kind)
	}
	in, err := cmd.StdinPipe()
	if err != nil {
		return nil, err
	}
	outp, err := cmd.StdoutPipe()
	if err != nil {
		return nil, err
	}
	cmd.Stderr = cmd.Stdout
	if err := cmd.Start(); err != nil {
		return nil, err
	}
	s := &Solver{Kind: kind, cmd: cmd, in: in, out: bufio.NewReaderSize(outp, 1<<16), ctx: ctx,
		pr: NewPrinter(), declared: map[string]bool{}, TimeoutMs: timeoutMs}
	s.defStack = [][]int{nil}
	s.declStack = [][]string{nil}
	s.send("(set-option :print-success false)\n")
	if strings.HasPrefix(kind, "z3") {
		s.send(fmt.Sprintf("(set-option :timeout %d)\n", timeoutMs))
	} else {
		s.send("(set-logic ALL)\n")
	}
	return s, nil
}

func (s *Solver) Close() {
	if s.cmd != nil {
		s.in.Close()
		_ = s.cmd.Process.Kill()
		_ = s.cmd.Wait()
		s.cmd = nil
	}
}

func (s *Solver) send(txt string) {
	if s.Log != nil {
		io.WriteString(s.Log, txt)
	}
	t0 := time.Now()
	io.WriteString(s.in, txt)
	s.SendDur += time.Since(t0)
}

// flushDefs emits pending declarations and definitions needed for term t and
// returns the reference string.
func (s *Solver) ref(t *Term) string {
	// declare variables/functions used
	s.declare(t)
	s.pr.Out.Reset()
	r := s.pr.Ref(t)
	if s.pr.Out.Len() > 0 {
		s.send(s.pr.Out.String())
	}
	return r
}

func (s *Solver) declare(t *Term) {
	seen := map[int]bool{}
	var walk func(*Term)
	walk = func(x *Term) {
		if seen[x.ID] {
			return
		}
		if _, ok := s.pr.names[x.ID]; ok {
			return
		}
		seen[x.ID] = true
		if x.Op == OpVar || x.Op == OpApp {
			if !s.declared[x.Name] {
				s.declared[x.Name] = true
				s.declStack[s.level] = append(s.declStack[s.level], x.Name)
				s.send(s.ctx.Decls[x.Name] + "\n")
			}
		}
		for _, a := range x.Args {
			walk(a)
		}
	}
	walk(t)
}

// Push opens a new assertion level.
func (s *Solver) Push() {
	s.send("(push 1)\n")
	s.level++
	s.defStack = append(s.defStack, nil)
	s.declStack = append(s.declStack, nil)
	// snapshot of defined names: record size marker
	s.defStack[s.level] = snapshotKeys(s.pr.names)
}

func snapshotKeys(m map[int]string) []int {
	ks := make([]int, 0, len(m))
	for k := range m {
		ks = append(ks, k)
	}
	return ks
}

// Pop closes the innermost level, forgetting its definitions and declarations.
func (s *Solver) Pop() {
	s.send("(pop 1)\n")
	keep := map[int]bool{}
	for _, k := range s.defStack[s.level] {
		keep[k] = true
	}
	for k := range s.pr.names {
		if !keep[k] {
			delete(s.pr.names, k)
		}
	}
	for _, n := range s.declStack[s.level] {
		delete(s.declared, n)
	}
	s.defStack = s.defStack[:s.level]
	s.declStack = s.declStack[:s.level]
	s.level--
}

// ResetAll clears every assertion, definition and declaration.
func (s *Solver) ResetAll() {
	s.send("(reset)\n(set-option :print-success false)\n")
	if strings.HasPrefix(s.Kind, "z3") {
		s.send(fmt.Sprintf("(set-option :timeout %d)\n", s.TimeoutMs))
	} else {
		s.send("(set-logic ALL)\n")
	}
	s.pr.Reset()
	s.declared = map[string]bool{}
	s.level = 0
	s.defStack = [][]int{nil}
	s.declStack = [][]string{nil}
}

func (s *Solver) Assert(t *Term) {
	if t.IsTrue() {
		return
	}
	r := s.ref(t)
	s.send("(assert " + r + ")\n")
}

// Check runs check-sat on the current assertion stack.
func (s *Solver) Check() Result {
	s.Queries++
	t0 := time.Now()
	s.send("(check-sat)\n")
	res := Unknown
	errSeen := false
	for {
		line, err := s.out.ReadString('\n')
		if err != nil {
			s.LastErr = "solver died: " + err.Error()
			s.Errors++
			errSeen = true
			break
		}
		line = strings.TrimSpace(line)
		if line == "" {
			continue
		}
		if strings.HasPrefix(line, "(error") {
			s.Errors++
			s.LastErr = line
			errSeen = true
			// keep reading: the check-sat answer still follows
			continue
		}
		switch line {
		case "sat":
			res = Sat
		case "unsat":
			res = Unsat
		case "unknown", "timeout":
			res = Unknown
		default:
			s.LastErr = "unexpected: " + line
			s.Errors++
			errSeen = true
			continue
		}
		break
	}
	s.SolverDur += time.Since(t0)
	if errSeen {
		// any error output makes the answer inconclusive
		res = Unknown
	}
	if res == Unknown {
		s.Unknowns++
	}
	return res
}

// CheckAssuming checks the stack plus extra assertions, inside a push/pop.
func (s *Solver) CheckAssuming(extra ...*Term) Result {
	refs := make([]string, len(extra))
	for i, t := range extra {
		refs[i] = s.ref(t) // definitions land at the current (outer) level
	}
	s.send("(push 1)\n")
	for _, r := range refs {
		s.send("(assert " + r + ")\n")
	}
	res := s.Check()
	s.send("(pop 1)\n")
	return res
}

// CheckModel is CheckAssuming that also returns values for the wanted variables on sat.
func (s *Solver) CheckModel(want []*Term, extra ...*Term) (Result, map[string]uint64) {
	refs := make([]string, len(extra))
	for i, t := range extra {
		refs[i] = s.ref(t)
	}
	wrefs := make([]string, len(want))
	for i, t := range want {
		wrefs[i] = s.ref(t)
	}
	s.send("(push 1)\n")
	for _, r := range refs {
		s.send("(assert " + r + ")\n")
	}
	res := s.Check()
	var model map[string]uint64
	if res == Sat && len(want) > 0 {
		model = map[string]uint64{}
		// chunk get-value to keep lines manageable
		for i := 0; i < len(want); i += 200 {
			j := min(i+200, len(want))
			s.send("(get-value (" + strings.Join(wrefs[i:j], " ") + "))\n")
			tv := time.Now()
			txt := s.readSexp()
			s.ValueDur += time.Since(tv)
			vals := parseValues(txt)
			for k := i; k < j; k++ {
				if k-i < len(vals) {
					model[want[k].Name] = vals[k-i]
				}
			}
		}
	}
	s.send("(pop 1)\n")
	return res, model
}

func (s *Solver) readSexp() string {
	var sb strings.Builder
	depth := 0
	started := false
	for {
		b, err := s.out.ReadByte()
		if err != nil {
			break
		}
		sb.WriteByte(b)
		if b == '(' {
			depth++
			started = true
		} else if b == ')' {
			depth--
		}
		if started && depth == 0 {
			break
		}
	}
	return sb.String()
}

// parseValues parses "((a #x01) (b true) ...)" into the value list in order.
func parseValues(txt string) []uint64 {
	var vals []uint64
	toks := tokenize(txt)
	// pattern: ( ( name val ) ( name val ) ... ) ; val may be (_ bvN w)
	i := 0
	if i < len(toks) && toks[i] == "(" {
		i++
	}
	for i < len(toks) && toks[i] == "(" {
		i++ // (
		// name: may itself be an s-expr? we only ask for plain names/defined consts
		if toks[i] == "(" {
			d := 1
			i++
			for d > 0 {
				if toks[i] == "(" {
					d++
				} else if toks[i] == ")" {
					d--
				}
				i++
			}
		} else {
			i++
		}
		// value
		var v uint64
		if toks[i] == "(" {
			// (_ bv123 32)
			if i+2 < len(toks) && toks[i+1] == "_" && strings.HasPrefix(toks[i+2], "bv") {
				v, _ = strconv.ParseUint(toks[i+2][2:], 10, 64)
			}
			d := 1
			i++
			for d > 0 {
				if toks[i] == "(" {
					d++
				} else if toks[i] == ")" {
					d--
				}
				i++
			}
		} else {
			tok := toks[i]
			switch {
			case tok == "true":
				v = 1
			case tok == "false":
				v = 0
			case strings.HasPrefix(tok, "#x"):
				v, _ = strconv.ParseUint(tok[2:], 16, 64)
			case strings.HasPrefix(tok, "#b"):
				v, _ = strconv.ParseUint(tok[2:], 2, 64)
			}
			i++
		}
		vals = append(vals, v)
		if i < len(toks) && toks[i] == ")" {
			i++
		}
	}
	return vals
}

func tokenize(s string) []string {
	var toks []string
	cur := strings.Builder{}
	flush := func() {
		if cur.Len() > 0 {
			toks = append(toks, cur.String())
			cur.Reset()
		}
	}
	for _, r := range s {
		switch r {
		case '(', ')':
			flush()
			toks = append(toks, string(r))
		case ' ', '\n', '\t', '\r':
			flush()
		default:
			cur.WriteRune(r)
		}
	}
	flush()
	return toks
}
