// gosmt: bounded symbolic execution of Go SSA with an SMT back end.
//
//	gosmt check <PROP> <quick|thorough>   run the property's harness set, write evidence
//	gosmt run <pkgdir> <Func>             explore one harness (development)
//	gosmt replay <tape.json>              replay one tape natively
package main

import (
	"encoding/json"
	"fmt"
	"os"
	"path/filepath"
	"regexp"
	"runtime/pprof"
	"sort"
	"strconv"
	"strings"
	"time"

	"gosmt/sym"
)

var (
	verifDir = envOr("VERIF_DIR", "/verif")
	repoDir  = envOr("VERIF_REPO", "/repo")
)

func envOr(k, d string) string {
	if v := os.Getenv(k); v != "" {
		return v
	}
	return d
}

type harnessRef struct {
	Prop   string
	PkgRel string // e.g. lib/binpatch
	File   string // absolute path of harness source
	Func   string
}

var fnRe = regexp.MustCompile(`(?m)^func (VH_(C\d\d)_\w+)\(\)`)

// scanHarnesses finds every VH_Cnn_* function under /verif/harness.
func scanHarnesses() ([]harnessRef, error) {
	var out []harnessRef
	root := filepath.Join(verifDir, "harness")
	err := filepath.Walk(root, func(p string, info os.FileInfo, err error) error {
		if err != nil || info.IsDir() || !strings.HasSuffix(p, ".go") {
			return err
		}
		b, err := os.ReadFile(p)
		if err != nil {
			return err
		}
		rel, _ := filepath.Rel(root, filepath.Dir(p))
		for _, m := range fnRe.FindAllStringSubmatch(string(b), -1) {
			out = append(out, harnessRef{Prop: m[2], PkgRel: rel, File: p, Func: m[1]})
		}
		return nil
	})
	sort.Slice(out, func(i, j int) bool { return out[i].Func < out[j].Func })
	return out, err
}

var pkgRe = regexp.MustCompile(`(?m)^package (\w+)`)

func repoPkgName(pkgRel string) (string, error) {
	dir := filepath.Join(repoDir, pkgRel)
	ents, err := os.ReadDir(dir)
	if err != nil {
		return "", err
	}
	for _, e := range ents {
		n := e.Name()
		if strings.HasSuffix(n, ".go") && !strings.HasSuffix(n, "_test.go") {
			b, err := os.ReadFile(filepath.Join(dir, n))
			if err != nil {
				continue
			}
			if m := pkgRe.FindSubmatch(b); m != nil {
				return string(m[1]), nil
			}
		}
	}
	return "", fmt.Errorf("no package clause found in %s", dir)
}

// buildOverlay returns virtual-path -> content for the packages involved:
// prelude, all harness files of the package (every property: they share
// helpers), registry, and (withTest) the replay test.
func buildOverlay(all []harnessRef, pkgs map[string]bool, withTest bool) (map[string][]byte, error) {
	ov := map[string][]byte{}
	prelude, err := os.ReadFile(filepath.Join(verifDir, "harness", "prelude.go.tmpl"))
	if err != nil {
		return nil, err
	}
	testTmpl, err := os.ReadFile(filepath.Join(verifDir, "harness", "replay_test.go.tmpl"))
	if err != nil {
		return nil, err
	}
	for pkgRel := range pkgs {
		name, err := repoPkgName(pkgRel)
		if err != nil {
			return nil, err
		}
		dir := filepath.Join(repoDir, pkgRel)
		ov[filepath.Join(dir, "zz_verif_prelude.go")] = []byte(strings.Replace(string(prelude), "package PKGNAME", "package "+name, 1))
		files := map[string]bool{}
		var funcs []string
		for _, h := range all {
			if h.PkgRel == pkgRel {
				files[h.File] = true
				funcs = append(funcs, h.Func)
			}
		}
		// also helper files in the same harness dir without VH_ functions
		hdir := filepath.Join(verifDir, "harness", pkgRel)
		ents, _ := os.ReadDir(hdir)
		for _, e := range ents {
			if strings.HasSuffix(e.Name(), ".go") {
				files[filepath.Join(hdir, e.Name())] = true
			}
		}
		for f := range files {
			b, err := os.ReadFile(f)
			if err != nil {
				return nil, err
			}
			ov[filepath.Join(dir, "zz_verif_"+filepath.Base(f))] = b
		}
		// constant scaling: harness/<pkg>/scale.json lists textual replacements in
		// repository files of this package (e.g. a 1 MiB block constant -> 4); the
		// replacement is applied to the file's CURRENT content, for the engine and
		// for native replays alike, and fails loudly if the text is not found
		if sc, err := os.ReadFile(filepath.Join(hdir, "scale.json")); err == nil {
			var rules []struct{ File, From, To string }
			if err := json.Unmarshal(sc, &rules); err != nil {
				return nil, fmt.Errorf("scale.json in %s: %v", hdir, err)
			}
			for _, r := range rules {
				path := filepath.Join(repoDir, r.File)
				cur, ok := ov[path]
				if !ok {
					cur, err = os.ReadFile(path)
					if err != nil {
						return nil, err
					}
				}
				if !strings.Contains(string(cur), r.From) {
					return nil, fmt.Errorf("constant scaling: %q not found in %s", r.From, r.File)
				}
				ov[path] = []byte(strings.Replace(string(cur), r.From, r.To, 1))
			}
		}
		var sb strings.Builder
		sb.WriteString("//go:build verif\n\npackage " + name + "\n\nvar vhRegistry = map[string]func(){\n")
		sort.Strings(funcs)
		for _, f := range funcs {
			fmt.Fprintf(&sb, "\t%q: %s,\n", f, f)
		}
		sb.WriteString("}\n")
		ov[filepath.Join(dir, "zz_verif_registry.go")] = []byte(sb.String())
		if withTest {
			ov[filepath.Join(dir, "zz_verif_replay_test.go")] = []byte(strings.Replace(string(testTmpl), "package PKGNAME", "package "+name, 1))
		}
	}
	return ov, nil
}

func main() {
	if len(os.Args) < 2 {
		usage()
	}
	if pf := os.Getenv("GOSMT_PROF"); pf != "" {
		f, err := os.Create(pf)
		if err == nil {
			pprof.StartCPUProfile(f)
			defer pprof.StopCPUProfile()
			if secs, _ := strconv.Atoi(os.Getenv("GOSMT_PROF_SECS")); secs > 0 {
				go func() {
					time.Sleep(time.Duration(secs) * time.Second)
					pprof.StopCPUProfile()
					os.Exit(9)
				}()
			}
		}
	}
	switch os.Args[1] {
	case "check":
		if len(os.Args) < 4 {
			usage()
		}
		os.Exit(cmdCheck(os.Args[2], os.Args[3], os.Args[4:]))
	case "run":
		if len(os.Args) < 3 {
			usage()
		}
		rc := cmdRun(os.Args[2:])
		pprof.StopCPUProfile()
		os.Exit(rc)
	case "replay":
		if len(os.Args) < 3 {
			usage()
		}
		os.Exit(cmdReplay(os.Args[2]))
	case "list":
		hs, _ := scanHarnesses()
		for _, h := range hs {
			fmt.Printf("%s %s %s\n", h.Prop, h.PkgRel, h.Func)
		}
	default:
		usage()
	}
}

func usage() {
	fmt.Fprintln(os.Stderr, "usage: gosmt check <PROP> <quick|thorough> | run <Func>... | replay <tape> | list")
	os.Exit(2)
}

func tierNum(t string) int {
	if t == "thorough" {
		return 1
	}
	return 0
}

func loadEngine(all []harnessRef, sel []harnessRef, tier int) (*sym.Engine, error) {
	pkgs := map[string]bool{}
	for _, h := range sel {
		pkgs[h.PkgRel] = true
	}
	ov, err := buildOverlay(all, pkgs, false)
	if err != nil {
		return nil, err
	}
	var patterns []string
	for p := range pkgs {
		patterns = append(patterns, "./"+p)
	}
	sort.Strings(patterns)
	eng, err := sym.Load(repoDir, patterns, ov, "verif")
	if err != nil {
		return nil, err
	}
	eng.Tier = tier
	eng.Workers = 16
	if w := os.Getenv("GOSMT_WORKERS"); w != "" {
		eng.Workers, _ = strconv.Atoi(w)
	}
	if tier == 1 {
		eng.TimeoutMs = 60000
		eng.MaxPaths = 3000000
	}
	if m := os.Getenv("GOSMT_MAXPATHS"); m != "" {
		eng.MaxPaths, _ = strconv.Atoi(m)
	}
	if k := os.Getenv("GOSMT_SOLVER"); k != "" {
		eng.SolverKind = k
	}
	return eng, nil
}

func modPath() string { return "github.com/sassoftware/relic/v8" }

// cmdRun explores the named harness functions and prints a summary (development aid).
func cmdRun(names []string) int {
	all, err := scanHarnesses()
	if err != nil {
		fmt.Fprintln(os.Stderr, err)
		return 2
	}
	tier := 0
	if os.Getenv("VERIF_TIER") == "thorough" {
		tier = 1
	}
	var sel []harnessRef
	for _, h := range all {
		for _, n := range names {
			if h.Func == n || strings.HasPrefix(h.Func, n) {
				sel = append(sel, h)
			}
		}
	}
	if len(sel) == 0 {
		fmt.Fprintln(os.Stderr, "no harness matches")
		return 2
	}
	eng, err := loadEngine(all, sel, tier)
	if err != nil {
		fmt.Fprintln(os.Stderr, err)
		return 2
	}
	fmt.Printf("loaded in %.1fs\n", eng.LoadDur.Seconds())
	for _, h := range sel {
		fn := eng.FindFunc(modPath()+"/"+h.PkgRel, h.Func)
		if fn == nil {
			fmt.Printf("%s: not found\n", h.Func)
			continue
		}
		hr := eng.Explore(fn, h.Func)
		printHarness(hr)
		if os.Getenv("GOSMT_REPLAY") != "" {
			for k, v := range hr.Violations {
				keys, concrete := eng.ReplayConcrete(fn, h.Func, v.Model)
				fmt.Printf("   concrete replay of %s: concrete=%v reproduced=%v got=%v\n", k, concrete, keys[k], keys)
			}
		}
	}
	return 0
}

func printHarness(hr *sym.HarnessResult) {
	fmt.Printf("== %s: paths=%d outcomes=%v asserts=%d discharged=%d unknownA=%d unknownB=%d steps=%d queries=%d solver=%.1fs wall=%.1fs truncated=%v\n",
		hr.Name, hr.Paths, hr.Outcomes, hr.Asserts, hr.Discharged, hr.UnknownA, hr.UnknownB, hr.Steps, hr.Queries, hr.SolverDur.Seconds(), hr.Wall.Seconds(), hr.Truncated)
	for _, k := range sortedKeys(hr.Reached) {
		fmt.Printf("   reach %s x%d\n", k, hr.Reached[k])
	}
	for _, k := range sortedKeys(hr.Unsupported) {
		fmt.Printf("   UNSUPPORTED x%d: %s\n", hr.Unsupported[k], k)
	}
	for _, k := range sortedKeys(hr.Unwinds) {
		fmt.Printf("   UNWIND x%d: %s\n", hr.Unwinds[k], k)
	}
	for _, k := range sortedKeys(hr.CutReasons) {
		fmt.Printf("   path-end x%d: %s\n", hr.CutReasons[k], k)
	}
	for _, k := range sortedKeys(hr.Cuts) {
		fmt.Printf("   cut x%d: %s\n", hr.Cuts[k], k)
	}
	for _, k := range sortedKeys(hr.Violations) {
		v := hr.Violations[k]
		fmt.Printf("   VIOL x%d [%s] %s | %s | at %s:%d `%s`\n", hr.ViolCount[k], v.Kind, v.ID, v.Msg, v.RepoFile, v.RepoLine, v.SrcText)
		if os.Getenv("GOSMT_VERBOSE") != "" {
			b, _ := json.Marshal(v.Tape)
			fmt.Printf("      tape=%s\n", b)
			for _, s := range v.Stack {
				fmt.Printf("      %s\n", s)
			}
		}
	}
	if os.Getenv("GOSMT_FORKS") != "" {
		type kv struct {
			k string
			v int
		}
		var kvs []kv
		for k, v := range hr.ForkSites {
			kvs = append(kvs, kv{k, v})
		}
		sort.Slice(kvs, func(i, j int) bool { return kvs[i].v > kvs[j].v })
		for i, e := range kvs {
			if i > 25 {
				break
			}
			fmt.Printf("   forks %7d  %s\n", e.v, e.k)
		}
	}
	if os.Getenv("GOSMT_VERBOSE") != "" {
		for _, k := range sortedKeys(hr.Events) {
			fmt.Printf("   event x%d: %s\n", hr.Events[k], k)
		}
	}
}

func sortedKeys[V any](m map[string]V) []string {
	ks := make([]string, 0, len(m))
	for k := range m {
		ks = append(ks, k)
	}
	sort.Strings(ks)
	return ks
}

var _ = time.Now
