package main

import (
	"bytes"
	"encoding/json"
	"fmt"
	"os"
	"os/exec"
	"path/filepath"
	"regexp"
	"strconv"
	"strings"
	"time"

	"gosmt/sym"
)

// Native replay of counterexamples that depend on an OS call failing or on
// the process being killed at a system-call boundary. The harness runs in the
// real test binary under strace:
//
//   pass 1 (trace only) lines the engine's plan of OS calls up with the
//   system calls the real process makes between the VHMARK markers and finds
//   the call to tamper with (name + per-thread occurrence number);
//   fault: the run is repeated with `-e inject=<call>:error=E:when=N`
//   (one more pass per additional failing call);
//   crash: the run is repeated with `...:signal=SIGKILL:error=EPERM:when=N`
//   (the call is not executed and the process dies), then the harness runs
//   again with VH_POSTCRASH=1 on the directory the dead process left behind.

const straceSet = "openat,read,pread64,write,pwrite64,close,ftruncate,fstat,newfstatat,rename,renameat,renameat2,unlink,unlinkat,fchmod,fchmodat,copy_file_range"

type nativeOp struct {
	kind     string // model kind
	mutating bool
	sysname  string
	occ      int // per-thread occurrence number of sysname (1-based)
}

var traceLineRe = regexp.MustCompile(`^(\d+)\s+(\w+)\((.*)\)\s+=\s+(-?\d+|\?)`)

// parseTrace returns the model-relevant operations of the marked thread
// inside the VHMARK bracket.
func parseTrace(text, root string) (ops []nativeOp, found bool) {
	pending := map[string]string{}
	var lines []string
	for _, raw := range strings.Split(text, "\n") {
		l := strings.TrimRight(raw, " ")
		if l == "" {
			continue
		}
		sp := strings.IndexByte(l, ' ')
		if sp < 0 {
			continue
		}
		pid := l[:sp]
		rest := strings.TrimLeft(l[sp:], " ")
		if strings.HasSuffix(rest, "<unfinished ...>") {
			pending[pid] = strings.TrimSuffix(rest, "<unfinished ...>")
			continue
		}
		if strings.HasPrefix(rest, "<... ") {
			if i := strings.Index(rest, "resumed>"); i >= 0 {
				rest = pending[pid] + rest[i+len("resumed>"):]
				delete(pending, pid)
			}
		}
		lines = append(lines, pid+" "+rest)
	}
	markPid := ""
	for _, l := range lines {
		if strings.Contains(l, `"VHMARK-BEGIN"`) {
			markPid = l[:strings.IndexByte(l, ' ')]
			break
		}
	}
	if markPid == "" {
		return nil, false
	}
	counts := map[string]int{}
	tracked := map[string]bool{}
	inBracket := false
	for _, l := range lines {
		m := traceLineRe.FindStringSubmatch(l)
		if m == nil || m[1] != markPid {
			continue
		}
		name, args, ret := m[2], m[3], m[4]
		counts[name]++
		occ := counts[name]
		if name == "write" && strings.Contains(args, `"VHMARK-BEGIN"`) {
			inBracket = true
			continue
		}
		if name == "write" && strings.Contains(args, `"VHMARK-END"`) {
			inBracket = false
			continue
		}
		first := args
		if i := strings.IndexByte(args, ','); i >= 0 {
			first = args[:i]
		}
		first = strings.TrimSpace(first)
		underRoot := strings.Contains(args, `"`+root)
		add := func(kind string, mut bool) {
			if inBracket {
				ops = append(ops, nativeOp{kind: kind, mutating: mut, sysname: name, occ: occ})
			}
		}
		switch name {
		case "openat":
			if !underRoot {
				continue
			}
			if n, err := strconv.Atoi(ret); err == nil && n >= 0 {
				tracked[ret] = true
			}
			add("open", strings.Contains(args, "O_CREAT") || strings.Contains(args, "O_TRUNC"))
		case "close":
			if tracked[first] {
				delete(tracked, first)
				add("close", false)
			}
		case "read":
			if tracked[first] {
				add("read", false)
			}
		case "pread64":
			// not part of the plan (no fault is injected into positional reads)
		case "write":
			if tracked[first] {
				add("write", true)
			}
		case "pwrite64":
			if tracked[first] {
				add("pwrite", true)
			}
		case "ftruncate":
			if tracked[first] {
				add("truncate", true)
			}
		case "fstat":
			if tracked[first] {
				add("fstat", false)
			}
		case "newfstatat":
			if underRoot {
				add("stat", false)
			}
		case "rename", "renameat", "renameat2":
			if underRoot {
				add("rename", true)
			}
		case "unlink", "unlinkat":
			if underRoot {
				add("unlink", true)
			}
		case "fchmod":
			if tracked[first] {
				add("fchmod", true)
			}
		case "fchmodat":
			if underRoot {
				add("chmod", true)
			}
		}
	}
	return ops, true
}

var errnoFor = map[string]string{"open": "EIO", "read": "EIO", "write": "ENOSPC", "pwrite": "ENOSPC", "close": "EIO", "truncate": "EIO", "fstat": "EIO", "stat": "EIO", "rename": "EIO"}

type fsReplayer struct {
	bin     string
	pkgDir  string
	tape    string
	tmp     string
	rootSeq int
}

func (r *fsReplayer) newRoot() string {
	r.rootSeq++
	d := filepath.Join(r.tmp, fmt.Sprintf("vhfsroot%d", r.rootSeq))
	os.MkdirAll(d, 0o755)
	return d
}

// run executes the test binary on the tape, optionally under strace.
func (r *fsReplayer) run(root string, injects []string, trace bool, extraEnv ...string) (stdout, traceText string, err error) {
	var cmd *exec.Cmd
	args := []string{"-test.run", "^TestVHReplay$", "-test.v", "-test.timeout", "120s"}
	traceFile := filepath.Join(r.tmp, fmt.Sprintf("trace%d.txt", r.rootSeq))
	if trace || len(injects) > 0 {
		sargs := []string{"-f", "-qq", "-s", "300", "-o", traceFile, "-e", "trace=" + straceSet}
		// copy_file_range is made unavailable so that the real io.Copy uses the
		// read/write loop the engine models (Go falls back on ENOSYS)
		sargs = append(sargs, "-e", "inject=copy_file_range:error=ENOSYS:when=1+")
		for _, in := range injects {
			sargs = append(sargs, "-e", "inject="+in)
		}
		sargs = append(sargs, r.bin)
		sargs = append(sargs, args...)
		cmd = exec.Command("strace", sargs...)
	} else {
		cmd = exec.Command(r.bin, args...)
	}
	cmd.Dir = r.pkgDir
	cmd.Env = append(os.Environ(), "VH_TAPES="+r.tape, "VH_FSROOT="+root)
	cmd.Env = append(cmd.Env, extraEnv...)
	var buf bytes.Buffer
	cmd.Stdout = &buf
	cmd.Stderr = &buf
	done := make(chan error, 1)
	if err := cmd.Start(); err != nil {
		return "", "", err
	}
	go func() { done <- cmd.Wait() }()
	select {
	case err = <-done:
	case <-time.After(180 * time.Second):
		cmd.Process.Kill()
		err = fmt.Errorf("timeout")
	}
	tb, _ := os.ReadFile(traceFile)
	return buf.String(), string(tb), err
}

func parseVHResult(out string) (replayResult, bool) {
	for _, line := range strings.Split(out, "\n") {
		if !strings.HasPrefix(line, "VHRESULT ") {
			continue
		}
		rest := strings.TrimPrefix(line, "VHRESULT ")
		sp := strings.IndexByte(rest, ' ')
		if sp < 0 {
			continue
		}
		var r replayResult
		if json.Unmarshal([]byte(rest[sp+1:]), &r) == nil {
			return r, true
		}
	}
	return replayResult{}, false
}

// replayFS replays a tape whose violation depends on injected OS failures or
// a crash point. Returns the native result of the final run.
func replayFS(all []harnessRef, pkgRel, tapePath string, plan []sym.FSOp) (res replayResult, ok bool, why string) {
	tmp, err := os.MkdirTemp("", "gosmt-fsreplay-")
	if err != nil {
		return res, false, err.Error()
	}
	defer os.RemoveAll(tmp)
	// build the test binary with the harness overlay
	ov, err := buildOverlay(all, map[string]bool{pkgRel: true}, true)
	if err != nil {
		return res, false, err.Error()
	}
	repl := map[string]string{}
	i := 0
	for virt, content := range ov {
		real := filepath.Join(tmp, fmt.Sprintf("f%d_%s", i, filepath.Base(virt)))
		i++
		os.WriteFile(real, content, 0o644)
		repl[virt] = real
	}
	ovJSON, _ := json.Marshal(map[string]interface{}{"Replace": repl})
	ovPath := filepath.Join(tmp, "overlay.json")
	os.WriteFile(ovPath, ovJSON, 0o644)
	bin := filepath.Join(tmp, "replay.test")
	build := exec.Command("go", "test", "-c", "-tags", "verif", "-vet=off", "-overlay", ovPath, "-o", bin, "./"+pkgRel)
	build.Dir = repoDir
	build.Env = append(os.Environ(), "GOFLAGS=-mod=mod", "GOPROXY=off", "GOSUMDB=off", "GOTOOLCHAIN=local", "CGO_ENABLED=0")
	if out, err := build.CombinedOutput(); err != nil {
		return res, false, "building the test binary failed: " + lastLines(string(out), 5)
	}
	r := &fsReplayer{bin: bin, pkgDir: filepath.Join(repoDir, pkgRel), tape: tapePath, tmp: tmp}

	crashIdx := -1
	var faultIdx []int
	for i, op := range plan {
		if op.Crash {
			crashIdx = i
		}
		if op.Fault {
			faultIdx = append(faultIdx, i)
		}
	}
	// lock-step alignment of the engine's plan with the native operations
	align := func(native []nativeOp, upto int, onlyMutating bool) (nativeOp, string) {
		var filtered []nativeOp
		for _, n := range native {
			if !onlyMutating || n.mutating {
				filtered = append(filtered, n)
			}
		}
		var pl []sym.FSOp
		for _, p := range plan[:upto+1] {
			if !onlyMutating || p.Mutating {
				pl = append(pl, p)
			}
		}
		// two-pointer alignment: reads and stats that only one side performs
		// (e.g. the real io.Copy probing copy_file_range and then falling back
		// to read) are skipped; mutating calls and the tampered call must match
		ni := 0
		var last nativeOp
		for pi, p := range pl {
			matched := false
			for ni < len(filtered) {
				n := filtered[ni]
				if n.kind == p.Kind {
					last = n
					ni++
					matched = true
					break
				}
				if !n.mutating {
					ni++ // extra non-mutating call in the real process
					continue
				}
				break
			}
			if matched {
				continue
			}
			if !p.Mutating && !p.Fault && !p.Crash {
				continue // a read/stat of the model the real process did not make
			}
			if ni >= len(filtered) {
				return nativeOp{}, fmt.Sprintf("the real process made no system call matching plan entry %d (%s) inside the bracket", pi, p.Kind)
			}
			return nativeOp{}, fmt.Sprintf("system call %s(%s) of the real process does not match plan entry %d (%s)", filtered[ni].sysname, filtered[ni].kind, pi, p.Kind)
		}
		return last, ""
	}

	switch {
	case crashIdx >= 0:
		root := r.newRoot()
		_, tr, _ := r.run(root, nil, true)
		native, found := parseTrace(tr, root)
		if !found {
			return res, false, "no VHMARK bracket in the trace pass"
		}
		target, msg := align(native, crashIdx, true)
		if msg != "" {
			return res, false, "cannot line up the crash point: " + msg
		}
		root2 := r.newRoot()
		inj := fmt.Sprintf("%s:signal=SIGKILL:error=EPERM:when=%d", target.sysname, target.occ)
		out, _, err := r.run(root2, []string{inj}, false)
		if err == nil {
			return res, false, "the process was not killed at " + inj + ": " + lastLines(out, 3)
		}
		out3, _, _ := r.run(root2, nil, false, "VH_POSTCRASH=1")
		rr, okk := parseVHResult(out3)
		return rr, okk, fmt.Sprintf("process killed before %s #%d (engine step %d), state inspected afterwards", target.sysname, target.occ, crashIdx)
	case len(faultIdx) > 0:
		var injects []string
		var out string
		for n, fi := range faultIdx {
			root := r.newRoot()
			var tr string
			out, tr, _ = r.run(root, injects, true)
			native, found := parseTrace(tr, root)
			if !found {
				return res, false, "no VHMARK bracket in the trace pass"
			}
			target, msg := align(native, fi, false)
			if msg != "" && os.Getenv("GOSMT_DEBUG") != "" {
				fmt.Fprintf(os.Stderr, "PLAN: %+v\nNATIVE: %+v\nTRACE:\n%s\n", plan, native, tr)
			}
			if msg != "" {
				return res, false, fmt.Sprintf("cannot line up failing call %d: %s", n, msg)
			}
			e := errnoFor[plan[fi].Kind]
			if e == "" {
				e = "EIO"
			}
			injects = append(injects, fmt.Sprintf("%s:error=%s:when=%d", target.sysname, e, target.occ))
		}
		root := r.newRoot()
		out, _, _ = r.run(root, injects, false)
		rr, okk := parseVHResult(out)
		return rr, okk, "system calls made to fail: " + strings.Join(injects, " ")
	}
	return res, false, "plan has neither a failing call nor a crash point"
}
