package main

import (
	"bufio"
	"bytes"
	"encoding/json"
	"fmt"
	"os"
	"os/exec"
	"path/filepath"
	"regexp"
	"sort"
	"strconv"
	"strings"
	"time"

	"gosmt/sym"
)

type knownFinding struct {
	Property string `json:"property"`
	Harness  string `json:"harness"`
	Key      string `json:"key"`
	What     string `json:"what"`
	Status   string `json:"status"` // finding | fixed
	Commit   string `json:"commit,omitempty"`
}

func loadKnown() []knownFinding {
	var out []knownFinding
	f, err := os.Open(filepath.Join(verifDir, "known_findings.jsonl"))
	if err != nil {
		return nil
	}
	defer f.Close()
	sc := bufio.NewScanner(f)
	sc.Buffer(make([]byte, 1<<20), 1<<20)
	for sc.Scan() {
		line := strings.TrimSpace(sc.Text())
		if line == "" || strings.HasPrefix(line, "#") {
			continue
		}
		var k knownFinding
		if json.Unmarshal([]byte(line), &k) == nil {
			out = append(out, k)
		}
	}
	return out
}

type tapeFile struct {
	Harness  string          `json:"harness"`
	Tier     int             `json:"tier"`
	Property string          `json:"property"`
	Kind     string          `json:"kind"`
	ID       string          `json:"id"`
	Key      string          `json:"key"`
	Msg      string          `json:"msg"`
	Site     string          `json:"site"`
	Stack    []string        `json:"stack,omitempty"`
	PkgRel   string          `json:"pkg"`
	FSPlan   []sym.FSOp      `json:"fs_plan,omitempty"`
	Tape     []sym.TapeEntry `json:"tape"`
}

type replayResult struct {
	Harness  string   `json:"harness"`
	Outcome  string   `json:"outcome"`
	Detail   string   `json:"detail"`
	Failed   []string `json:"failed"`
	Reached  []string `json:"reached"`
	PanicLoc string   `json:"panic_loc"`
	Alloc    uint64   `json:"alloc"`
	AllocLim uint64   `json:"alloc_limit"`
}

// replayTapes runs tapes of one package natively against /repo's working
// tree (go test with an overlay) and returns tape path -> result.
func replayTapes(all []harnessRef, pkgRel string, tapes []string, timeout time.Duration, memLimitKB int) (map[string]replayResult, string, error) {
	out := map[string]replayResult{}
	ov, err := buildOverlay(all, map[string]bool{pkgRel: true}, true)
	if err != nil {
		return nil, "", err
	}
	tmp, err := os.MkdirTemp("", "gosmt-replay-")
	if err != nil {
		return nil, "", err
	}
	defer os.RemoveAll(tmp)
	repl := map[string]string{}
	i := 0
	for virt, content := range ov {
		real := filepath.Join(tmp, fmt.Sprintf("f%d_%s", i, filepath.Base(virt)))
		i++
		if err := os.WriteFile(real, content, 0o644); err != nil {
			return nil, "", err
		}
		repl[virt] = real
	}
	ovJSON, _ := json.Marshal(map[string]interface{}{"Replace": repl})
	ovPath := filepath.Join(tmp, "overlay.json")
	os.WriteFile(ovPath, ovJSON, 0o644)
	args := []string{"test", "-tags", "verif", "-vet=off", "-count=1", "-v", "-overlay", ovPath, "-run", "^TestVHReplay$", "-timeout", fmt.Sprintf("%ds", int(timeout.Seconds())), "./" + pkgRel}
	shell := fmt.Sprintf("ulimit -v %d 2>/dev/null; exec go %s", memLimitKB, strings.Join(args, " "))
	cmd := exec.Command("bash", "-c", shell)
	cmd.Dir = repoDir
	cmd.Env = append(os.Environ(), "GOFLAGS=-mod=mod", "GOPROXY=off", "GOSUMDB=off", "GOTOOLCHAIN=local", "CGO_ENABLED=0",
		"VH_TAPES="+strings.Join(tapes, ":"))
	var buf bytes.Buffer
	cmd.Stdout = &buf
	cmd.Stderr = &buf
	runErr := cmd.Run()
	text := buf.String()
	for _, line := range strings.Split(text, "\n") {
		if !strings.HasPrefix(line, "VHRESULT ") {
			continue
		}
		rest := strings.TrimPrefix(line, "VHRESULT ")
		sp := strings.IndexByte(rest, ' ')
		if sp < 0 {
			continue
		}
		var r replayResult
		if json.Unmarshal([]byte(rest[sp+1:]), &r) == nil {
			out[rest[:sp]] = r
		}
	}
	_ = runErr
	return out, text, nil
}

// reproduced decides whether the native outcome confirms the solver's violation.
func reproduced(kind, id string, r replayResult, ok bool, raw string) (bool, string) {
	switch kind {
	case "assert":
		if ok && r.Outcome == "assert" && r.Detail == id {
			return true, "assertion " + id + " failed natively"
		}
	case "panic":
		if ok && r.Outcome == "panic" {
			return true, "native panic: " + r.Detail + " at " + r.PanicLoc
		}
	case "alloc":
		if ok && r.AllocLim > 0 && r.Alloc > r.AllocLim {
			return true, fmt.Sprintf("native run allocated %d bytes, harness limit %d", r.Alloc, r.AllocLim)
		}
		if !ok {
			if strings.Contains(raw, "out of memory") || strings.Contains(raw, "cannot allocate memory") || strings.Contains(raw, "makeslice: len out of range") {
				return true, "native run died allocating (out of memory under ulimit)"
			}
		} else if r.Outcome == "panic" && (strings.Contains(r.Detail, "out of memory") || strings.Contains(r.Detail, "len out of range") || strings.Contains(r.Detail, "cap out of range")) {
			return true, "native panic: " + r.Detail
		}
	case "hang":
		if !ok && (strings.Contains(raw, "test timed out") || strings.Contains(raw, "panic: test timed out")) {
			return true, "native run exceeded the time limit"
		}
	}
	if !ok {
		return false, "no native result (run crashed?): " + lastLines(raw, 6)
	}
	return false, fmt.Sprintf("native outcome %s %s", r.Outcome, r.Detail)
}

func lastLines(s string, n int) string {
	ls := strings.Split(strings.TrimSpace(s), "\n")
	if len(ls) > n {
		ls = ls[len(ls)-n:]
	}
	return strings.Join(ls, " | ")
}

func cmdCheck(prop, tier string, rest []string) int {
	t0 := time.Now()
	seed := 0
	if s := os.Getenv("VERIF_SEED"); s != "" {
		seed, _ = strconv.Atoi(s)
	}
	all, err := scanHarnesses()
	if err != nil {
		fmt.Fprintln(os.Stderr, "scan:", err)
		return 2
	}
	tn := tierNum(tier)
	var sel []harnessRef
	for _, h := range all {
		if h.Prop != prop {
			continue
		}
		if tn == 0 && strings.HasSuffix(h.Func, "_T") {
			continue // thorough-only harness
		}
		sel = append(sel, h)
	}
	if len(sel) == 0 {
		fmt.Fprintf(os.Stderr, "no harness for %s\n", prop)
		return 2
	}
	eng, err := loadEngine(all, sel, tn)
	if err != nil {
		fmt.Fprintln(os.Stderr, "load:", err)
		return 2
	}
	known := loadKnown()
	ev := newEvidence(prop, tier, seed)
	ev.loadS = eng.LoadDur.Seconds()
	ev.solverKind = eng.SolverKind
	exit := 0
	inconclusive := []string{}
	type pendingViol struct {
		h               harnessRef
		v               *sym.Violation
		path            string
		stubbed         bool
		engineConfirmed bool
	}
	var toReplay []pendingViol
	knownPrinted := map[string]bool{}
	type sampleSet struct {
		h       harnessRef
		samples []sym.SamplePath
	}
	var sampleSets []sampleSet
	for _, h := range sel {
		fn := eng.FindFunc(modPath()+"/"+h.PkgRel, h.Func)
		if fn == nil {
			inconclusive = append(inconclusive, h.Func+": function not found after load")
			continue
		}
		hr := eng.Explore(fn, h.Func)
		if os.Getenv("GOSMT_VERBOSE") != "" {
			printHarness(hr)
		}
		ev.addHarness(hr)
		sampleSets = append(sampleSets, sampleSet{h, hr.SampleTapes})
		// inconclusive conditions: never green
		for _, k := range sortedKeys(hr.Unsupported) {
			inconclusive = append(inconclusive, fmt.Sprintf("%s: unsupported x%d: %s", h.Func, hr.Unsupported[k], k))
		}
		for _, k := range sortedKeys(hr.Unwinds) {
			// unwind failures count as inconclusive unless reported as hang findings
			if _, isHang := hr.Violations["hang:"+k]; !isHang {
				inconclusive = append(inconclusive, fmt.Sprintf("%s: unwinding bound hit x%d: %s", h.Func, hr.Unwinds[k], k))
			}
		}
		if hr.UnknownA > 0 {
			inconclusive = append(inconclusive, fmt.Sprintf("%s: %d assertion queries unknown/timeout", h.Func, hr.UnknownA))
		}
		if hr.Truncated {
			inconclusive = append(inconclusive, fmt.Sprintf("%s: path budget exhausted", h.Func))
		}
		if len(hr.Reached) == 0 {
			inconclusive = append(inconclusive, fmt.Sprintf("%s: no vhReach witness reached (vacuous)", h.Func))
		}
		for _, want := range requiredReach(h) {
			if hr.Reached[want] == 0 {
				inconclusive = append(inconclusive, fmt.Sprintf("%s: required witness %q unreachable (vacuous)", h.Func, want))
			}
		}
		for _, k := range sortedKeys(hr.Violations) {
			v := hr.Violations[k]
			matched := false
			for _, kf := range known {
				if kf.Status == "finding" && kf.Property == prop && kf.Harness == h.Func && kf.Key == k {
					matched = true
					tag := kf.Harness + "|" + kf.Key
					if !knownPrinted[tag] {
						knownPrinted[tag] = true
						fmt.Printf("KNOWN-FINDING: property=%s %s [%s %s]\n", prop, kf.What, h.Func, k)
					}
					ev.knownMatched = append(ev.knownMatched, tag)
				}
			}
			if matched {
				continue
			}
			pv := pendingViol{h: h, v: v, stubbed: isStubbed(h)}
			if keys, concrete := eng.ReplayConcrete(fn, h.Func, v.Model); concrete && keys[k] {
				pv.engineConfirmed = true
			}
			ev.engineReplays++
			toReplay = append(toReplay, pv)
		}
	}
	// translator validation: replay sample paths natively; the same witnesses
	// must be reached
	if os.Getenv("GOSMT_NOSAMPLES") == "" {
		dir := filepath.Join(verifDir, "replays", prop)
		os.MkdirAll(dir, 0o755)
		type samp struct {
			h    harnessRef
			want []string
			path string
		}
		byPkg := map[string][]samp{}
		for _, hs := range sampleSets {
			for i, sp := range hs.samples {
				tf := tapeFile{Harness: hs.h.Func, Tier: tn, Property: prop, Kind: "sample", PkgRel: hs.h.PkgRel, Tape: sp.Tape, FSPlan: sp.FSPlan}
				b, _ := json.MarshalIndent(tf, "", " ")
				pth := filepath.Join(dir, fmt.Sprintf("sample-%s-%s-%d.json", hs.h.Func, tier, i))
				os.WriteFile(pth, b, 0o644)
				if needsFSReplay(sp.FSPlan) {
					// a sampled path with injected OS failures or a crash point:
					// the real process is run under the system-call tracer with the
					// same failures forced, and must reach the same witnesses
					rr, okk, why := replayFS(all, hs.h.PkgRel, pth, sp.FSPlan)
					// forcing the n-th call of a kind to fail relies on the real process
					// making the same calls in the trace pass and in the injection pass;
					// the Go runtime occasionally adds one (a stat, an open) and the
					// failure lands on the wrong call. A mismatch is therefore repeated:
					// only one that shows every time counts.
					first := fmt.Sprintf("%s|%s|%v", rr.Outcome, rr.Detail, rr.Reached)
					stable := true
					for attempt := 0; attempt < 2 && okk && (rr.Outcome != "ok" || !sameSet(rr.Reached, sp.Reached)); attempt++ {
						ev.fsSampleRetries++
						rr, okk, why = replayFS(all, hs.h.PkgRel, pth, sp.FSPlan)
						if okk && fmt.Sprintf("%s|%s|%v", rr.Outcome, rr.Detail, rr.Reached) != first {
							stable = false
						}
					}
					if okk && !stable && (rr.Outcome != "ok" || !sameSet(rr.Reached, sp.Reached)) {
						// three traced runs of the same tape disagreed with each other:
						// the injection is not landing reproducibly - a validation not
						// done, not a verdict about the model
						okk, why = false, "traced runs of the same tape disagree with each other (injection not reproducible): "+why
					}
					if !okk {
						// the traced run could not be performed or lined up (tracer not
						// permitted, call sequence of this Go release differs): that is a
						// validation not done, reported in the evidence, not a verdict
						ev.fsSamplesSkipped = append(ev.fsSamplesSkipped, fmt.Sprintf("%s: %s", hs.h.Func, why))
						os.Remove(pth)
						continue
					}
					ev.replays++
					if rr.Outcome != "ok" || !sameSet(rr.Reached, sp.Reached) {
						inconclusive = append(inconclusive, fmt.Sprintf("%s: translator validation (traced replay): native run gave outcome=%s %s reached=%v, engine reached=%v; %s (tape %s)", hs.h.Func, rr.Outcome, rr.Detail, rr.Reached, sp.Reached, why, pth))
					} else {
						ev.samplesOK++
						ev.fsSamplesOK++
						os.Remove(pth)
					}
					continue
				}
				byPkg[hs.h.PkgRel] = append(byPkg[hs.h.PkgRel], samp{hs.h, sp.Reached, pth})
			}
		}
		for pkgRel, ss := range byPkg {
			var paths []string
			for _, x := range ss {
				paths = append(paths, x.path)
			}
			results, raw, err := replayTapes(all, pkgRel, paths, 300*time.Second, 8<<20)
			if err != nil {
				inconclusive = append(inconclusive, "sample replay failed: "+err.Error())
				continue
			}
			for _, x := range ss {
				r, ok := results[x.path]
				if !ok {
					inconclusive = append(inconclusive, fmt.Sprintf("%s: translator validation: no native result for %s (%s)", x.h.Func, x.path, lastLines(raw, 4)))
					continue
				}
				ev.replays++
				if r.Outcome != "ok" || !sameSet(r.Reached, x.want) {
					inconclusive = append(inconclusive, fmt.Sprintf("%s: translator validation: native run of a sampled path gave outcome=%s %s reached=%v, engine reached=%v (tape %s)", x.h.Func, r.Outcome, r.Detail, r.Reached, x.want, x.path))
				} else {
					ev.samplesOK++
					os.Remove(x.path)
				}
			}
		}
	}
	// replay unexplained violations natively
	if len(toReplay) > 0 {
		dir := filepath.Join(verifDir, "replays", prop)
		os.MkdirAll(dir, 0o755)
		byPkg := map[string][]int{}
		for i := range toReplay {
			pv := &toReplay[i]
			tf := tapeFile{Harness: pv.h.Func, Tier: tn, Property: prop, Kind: pv.v.Kind, ID: pv.v.ID, Key: pv.v.Key(), Msg: pv.v.Msg,
				Site: pv.v.Site, Stack: pv.v.Stack, PkgRel: pv.h.PkgRel, Tape: pv.v.Tape, FSPlan: pv.v.FSPlan}
			b, _ := json.MarshalIndent(tf, "", " ")
			pv.path = filepath.Join(dir, fmt.Sprintf("%s-%s-%d.json", pv.h.Func, tier, i))
			os.WriteFile(pv.path, b, 0o644)
			byPkg[pv.h.PkgRel] = append(byPkg[pv.h.PkgRel], i)
		}
		for pkgRel, idxs := range byPkg {
			// ordinary tapes in one process; alloc/hang tapes each in their own
			var batch []string
			fsWhy := map[string]string{}
			for _, i := range idxs {
				if toReplay[i].stubbed {
					continue
				}
				if needsFSReplay(toReplay[i].v.FSPlan) {
					continue
				}
				if k := toReplay[i].v.Kind; k == "assert" || k == "panic" {
					batch = append(batch, toReplay[i].path)
				}
			}
			results := map[string]replayResult{}
			raws := map[string]string{}
			if len(batch) > 0 {
				r, raw, err := replayTapes(all, pkgRel, batch, 600*time.Second, 8<<20)
				if err != nil {
					inconclusive = append(inconclusive, "replay failed: "+err.Error())
				}
				for k, v := range r {
					results[k] = v
				}
				for _, p := range batch {
					raws[p] = raw
				}
			}
			for _, i := range idxs {
				if toReplay[i].stubbed || !needsFSReplay(toReplay[i].v.FSPlan) {
					continue
				}
				rr, okk, why := replayFS(all, pkgRel, toReplay[i].path, toReplay[i].v.FSPlan)
				if okk {
					results[toReplay[i].path] = rr
				}
				fsWhy[toReplay[i].path] = why
				raws[toReplay[i].path] = why
			}
			for _, i := range idxs {
				k := toReplay[i].v.Kind
				if k == "assert" || k == "panic" || toReplay[i].stubbed || needsFSReplay(toReplay[i].v.FSPlan) {
					continue
				}
				to := 120 * time.Second
				mem := 3 << 20 // 3 GiB address space for allocation replays
				if k == "hang" {
					to = 20 * time.Second
					mem = 8 << 20
				}
				r, raw, err := replayTapes(all, pkgRel, []string{toReplay[i].path}, to, mem)
				if err != nil {
					inconclusive = append(inconclusive, "replay failed: "+err.Error())
				}
				for kk, v := range r {
					results[kk] = v
				}
				raws[toReplay[i].path] = raw
			}
			for _, i := range idxs {
				pv := toReplay[i]
				r, ok := results[pv.path]
				ev.replays++
				rep, why := reproduced(pv.v.Kind, pv.v.ID, r, ok, raws[pv.path])
				if pv.stubbed {
					// environment functions are stubbed in this harness: no native
					// run exists; the counterexample is re-executed concretely in
					// the interpreter instead
					rep = pv.engineConfirmed
					why = "harness stubs environment functions (no native replay); counterexample re-executed concretely in the interpreter: confirmed=" + fmt.Sprint(pv.engineConfirmed)
				} else if rep {
					why += fmt.Sprintf(" (concrete re-execution in the interpreter confirmed=%v)", pv.engineConfirmed)
				}
				if w := fsWhy[pv.path]; w != "" {
					why += " [traced replay: " + w + "]"
				}
				if rep {
					fmt.Printf("VIOLATION property=%s replay=%s\n", prop, pv.path)
					fmt.Printf("  harness=%s kind=%s %s\n  site=%s `%s`\n  native: %s\n", pv.h.Func, pv.v.Kind, pv.v.Msg, pv.v.Site, pv.v.SrcText, why)
					ev.violations++
					exit = 1
				} else {
					fmt.Printf("SPURIOUS property=%s harness=%s key=%s: solver model did not reproduce natively (%s); tape=%s\n", prop, pv.h.Func, pv.v.Key(), why, pv.path)
					inconclusive = append(inconclusive, fmt.Sprintf("%s: counterexample for %s did not reproduce natively (%s)", pv.h.Func, pv.v.Key(), why))
				}
			}
		}
	}
	ev.inconclusive = inconclusive
	ev.wall = time.Since(t0).Seconds()
	if err := ev.write(); err != nil {
		fmt.Fprintln(os.Stderr, "evidence:", err)
		return 2
	}
	for _, s := range inconclusive {
		fmt.Printf("INCONCLUSIVE property=%s %s\n", prop, s)
	}
	if exit == 0 && len(inconclusive) > 0 {
		return 3
	}
	if exit == 0 {
		fmt.Printf("OK property=%s tier=%s harnesses=%d paths=%d obligations=%d discharged=%d queries=%d wall=%.1fs\n", prop, tier, len(sel), ev.paths, ev.obligations, ev.discharged, ev.queries, ev.wall)
	}
	return exit
}

// requiredReach: harness source may declare `// vh:require <id>` lines. A
// one-line wrapper (`func A() { B(...) }`) inherits the requirements of the
// function it calls in the same file.
func requiredReach(h harnessRef) []string {
	b, err := os.ReadFile(h.File)
	if err != nil {
		return nil
	}
	return requiredIn(strings.Split(string(b), "\n"), h.Func, 0)
}

var reWrapperCall = regexp.MustCompile(`\{\s*(\w+)\(`)

func requiredIn(lines []string, fn string, depth int) []string {
	var out []string
	inFn := false
	for _, l := range lines {
		if !inFn && strings.HasPrefix(l, "func "+fn+"(") {
			if i := strings.Index(l, "// vh:require "); i >= 0 {
				out = append(out, strings.Fields(l[i+len("// vh:require "):])...)
			}
			if strings.HasSuffix(strings.TrimSpace(strings.SplitN(l, "//", 2)[0]), "}") {
				// one-liner
				if m := reWrapperCall.FindStringSubmatch(l); m != nil && depth < 3 && m[1] != fn {
					out = append(out, requiredIn(lines, m[1], depth+1)...)
				}
				return out
			}
			inFn = true
			continue
		}
		if inFn && strings.HasPrefix(l, "}") {
			break
		}
		if inFn {
			if i := strings.Index(l, "// vh:require "); i >= 0 {
				out = append(out, strings.Fields(l[i+len("// vh:require "):])...)
			}
		}
	}
	return out
}

func cmdReplay(path string) int {
	b, err := os.ReadFile(path)
	if err != nil {
		fmt.Fprintln(os.Stderr, err)
		return 2
	}
	var tf tapeFile
	if err := json.Unmarshal(b, &tf); err != nil {
		fmt.Fprintln(os.Stderr, err)
		return 2
	}
	all, err := scanHarnesses()
	if err != nil {
		fmt.Fprintln(os.Stderr, err)
		return 2
	}
	abs, _ := filepath.Abs(path)
	mem := 8 << 20
	if tf.Kind == "alloc" {
		mem = 3 << 20
	}
	res, raw, err := replayTapes(all, tf.PkgRel, []string{abs}, 120*time.Second, mem)
	if err != nil {
		fmt.Fprintln(os.Stderr, err)
		return 2
	}
	r, ok := res[abs]
	rep, why := reproduced(tf.Kind, tf.ID, r, ok, raw)
	fmt.Printf("replay %s: harness=%s kind=%s reproduced=%v (%s)\n", path, tf.Harness, tf.Kind, rep, why)
	if rep {
		fmt.Printf("VIOLATION property=%s replay=%s\n", tf.Property, path)
		return 1
	}
	return 0
}

// ---------------------------------------------------------------------
// evidence

type evidence struct {
	prop, tier       string
	seed             int
	harnesses        []map[string]interface{}
	paths            int
	steps            int64
	obligations      int
	discharged       int
	queries          int
	solverS          float64
	solverKind       string
	loadS            float64
	wall             float64
	replays          int
	violations       int
	nontrivial       int
	samples          []interface{}
	funcs            map[string]bool
	cuts             map[string]bool
	knownMatched     []string
	inconclusive     []string
	unknown          int
	samplesOK        int
	fsSamplesOK      int
	fsSampleRetries  int
	fsSamplesSkipped []string
	engineReplays    int
}

func newEvidence(prop, tier string, seed int) *evidence {
	return &evidence{prop: prop, tier: tier, seed: seed, funcs: map[string]bool{}, cuts: map[string]bool{}}
}

func (e *evidence) addHarness(hr *sym.HarnessResult) {
	e.paths += hr.Paths
	e.steps += hr.Steps
	e.obligations += hr.Asserts
	e.discharged += hr.Discharged
	e.queries += hr.Queries
	e.solverS += hr.SolverDur.Seconds()
	e.unknown += hr.UnknownA + hr.UnknownB
	// distinct non-trivial paths: feasible paths (distinct decision vectors)
	// that reached a vhReach witness
	e.nontrivial += hr.NontrivialPaths
	for f := range hr.Funcs {
		if strings.Contains(f, "sassoftware/relic") && !strings.Contains(f, ".vh") && !strings.Contains(f, ".VH_") {
			e.funcs[f] = true
		}
	}
	for c := range hr.Cuts {
		e.cuts[c] = true
	}
	viol := []string{}
	for _, k := range sortedKeys(hr.Violations) {
		viol = append(viol, k)
	}
	e.harnesses = append(e.harnesses, map[string]interface{}{
		"harness": hr.Name, "paths": hr.Paths, "outcomes": hr.Outcomes, "assertions": hr.Asserts, "discharged": hr.Discharged,
		"unknown_assert_queries": hr.UnknownA, "unknown_branch_queries": hr.UnknownB, "ssa_instructions": hr.Steps,
		"queries": hr.Queries, "solver_s": round2(hr.SolverDur.Seconds()), "wall_s": round2(hr.Wall.Seconds()),
		"witnesses_reached": hr.Reached, "violation_keys": viol, "bound_cuts": sortedKeys(hr.Cuts),
	})
	for _, s := range hr.Samples {
		if len(e.samples) < 12 {
			e.samples = append(e.samples, hr.Name+": "+s)
		}
	}
}

func round2(f float64) float64 { return float64(int(f*100)) / 100 }

func (e *evidence) write() error {
	funcs := make([]string, 0, len(e.funcs))
	for f := range e.funcs {
		funcs = append(funcs, f)
	}
	sort.Strings(funcs)
	cuts := make([]string, 0, len(e.cuts))
	for c := range e.cuts {
		cuts = append(cuts, c)
	}
	sort.Strings(cuts)
	if len(e.samples) == 0 {
		e.samples = append(e.samples, "no path completed")
	}
	states := e.paths
	if states < 1 {
		states = 1
	}
	trans := e.steps
	if trans < 1 {
		trans = 1
	}
	doc := map[string]interface{}{
		"property_id": e.prop,
		"tier":        e.tier,
		"seed":        e.seed,
		"level":       "model_checking",
		"wall_s":      round2(e.wall),
		"violations":  e.violations,
		"coverage": map[string]interface{}{
			"states":                        states,
			"transitions":                   trans,
			"traces_validated_against_impl": e.replays,
			"samples":                       e.samples,
			"evaluations":                   states,
			"distinct_nontrivial":           e.nontrivial,
			"rule":                          "one evaluation = one feasible path of the real SSA explored symbolically (distinct decision vector); non-trivial = the path reached a vhReach witness in the harness (i.e. got past input validation to the property assertions); the solver verdict on each path covers every input value consistent with that path",
			"obligations":                   e.obligations,
			"discharged":                    e.discharged,
			"queries":                       e.queries,
			"solver_s":                      round2(e.solverS),
			"load_ssa_s":                    round2(e.loadS),
			"unknown_queries":               e.unknown,
			"functions_encoded":             funcs,
			"functions_encoded_count":       len(funcs),
			"bound_cuts":                    cuts,
			"harnesses":                     e.harnesses,
			"known_findings_matched":        e.knownMatched,
			"translator_validation_paths_replayed_ok":              e.samplesOK,
			"translator_validation_traced_fault_or_crash_paths_ok": e.fsSamplesOK,
			"translator_validation_traced_replays_repeated":        e.fsSampleRetries,
			"translator_validation_traced_paths_not_performed":     append([]string{}, e.fsSamplesSkipped...),
			"counterexamples_reexecuted_in_interpreter":            e.engineReplays,
			"inconclusive": e.inconclusive,
			"exhaustive":   false,
			"explanation":  "bounded symbolic execution of /repo's SSA (regenerated on this run) with z3; every assertion query is the negated property under the path condition",
		},
		"assumptions": []string{
			"bounds are those written in the harness (vhInt ranges, vhBytes lengths, loop/unwind limits); inputs outside them are not covered",
			"engine intrinsics stand in for encoding/binary, os files, hashes (modelled injective), fmt/log (opaque); see DESIGN.md section 2.4",
			"symbolic slice lengths are case-split up to the engine bound; values above it are cut and listed in bound_cuts",
			"solver: " + e.solverKind + " (z3-new = z3 5.1.0, z3 = 4.8.12) incremental, no set-logic, unknowns retried on cvc5 / z3 4.8.12 / z3 5.1.0 with 6x the limit, any (error line or remaining unknown makes the obligation undischarged",
		},
	}
	b, err := json.MarshalIndent(doc, "", " ")
	if err != nil {
		return err
	}
	dir := filepath.Join(verifDir, "evidence")
	os.MkdirAll(dir, 0o755)
	return os.WriteFile(filepath.Join(dir, e.prop+".json"), b, 0o644)
}

func sameSet(a, b []string) bool {
	m := map[string]int{}
	for _, x := range a {
		m[x]++
	}
	for _, x := range b {
		m[x]--
	}
	for _, v := range m {
		if v != 0 {
			return false
		}
	}
	return true
}

// isStubbed: the harness source carries a `// vh:stubbed` line in the function
// body; a one-line wrapper inherits it from the function it calls.
func isStubbed(h harnessRef) bool {
	b, err := os.ReadFile(h.File)
	if err != nil {
		return false
	}
	return stubbedIn(strings.Split(string(b), "\n"), h.Func, 0)
}

func stubbedIn(lines []string, fn string, depth int) bool {
	inFn := false
	for _, l := range lines {
		if !inFn && strings.HasPrefix(l, "func "+fn+"(") {
			if strings.Contains(l, "// vh:stubbed") {
				return true
			}
			if strings.HasSuffix(strings.TrimSpace(strings.SplitN(l, "//", 2)[0]), "}") {
				if m := reWrapperCall.FindStringSubmatch(l); m != nil && depth < 3 && m[1] != fn {
					return stubbedIn(lines, m[1], depth+1)
				}
				return false
			}
			inFn = true
			continue
		}
		if inFn && strings.HasPrefix(l, "}") {
			break
		}
		if inFn && strings.Contains(l, "// vh:stubbed") {
			return true
		}
	}
	return false
}

func needsFSReplay(plan []sym.FSOp) bool {
	for _, op := range plan {
		if op.Crash || op.Fault {
			return true
		}
	}
	return false
}
